"""C17 - index maps are bijections and the 3D array adaptors address the cell their definition names.

  R-C17-1  64-bit typing (typed AST): in longProduct / longIndex / coordsOf / indexOf / numElements / flatten /
           reshape / total_indices / long_product / ActualArray3D::get no `*` or `+` that combines two
           non-constant operands is evaluated in a type narrower than 64 bits.
  R-C17-2  left inverses (IR, Div/Mod elimination): flatten(reshape(i)) == i (2D, 3D) and
           longIndex(coordsOf(i, d), d) == i.
  R-C17-3  the linear-index formulas (flatten, longIndex, indexOf, the address computed by ActualArray3D::get) equal
           x + dx*(y + dy*z) over their own extents, reshape / coordsOf are the matching Div/Mod decomposition, and the
           element-count formulas are the product of the three extents (IR).
  R-C17-4  for_each is the canonical loop nest (outer z, inner x, each `for (i = lower.c; i < upper.c; ++i)` on the same
           component c, functor called once with (ix, iy, iz)); its two wrappers forward the right bounds (AST);
           iterator begin = 0, end = total, * = reshape(current), ++ adds one, != compares the position (IR).
  R-C17-5  adaptors (AST normal forms): shifted = actual->get((where + size + shift) % size), sub-box =
           actual->get(where + clipBox.lower), accessor = cast of actual->get(where), multi-slice =
           slice[clamp(z, 0, n-1)]->get(x, y, 0), set writes value[longIndex(where, size())]; size / numElements
           delegate; ActualArray3D::get clamps every coordinate to [0, dims-1] (IR, order theory); the shift stored by an
           IndexShiftedArray3D constructor stays within one period [-size, size], the range for which get()'s wrap is a modulo.
  R-C17-6  getValueRange accumulates with the join of the range lattice: extend(), two independent tests, or if / else-if on a
           range that already holds a value (never if / else-if on the empty range).
"""
import re

import sympy as sp

from rkstatic import irnorm as I
from rkstatic.irnorm import Undecided, sym

LEVEL = 'other'
EXPLANATION = (
    "Index arithmetic of multidim_index_sequence, array3D/for_each.h and Array3D.h is compiled (never run) to LLVM IR through "
    "identity drivers and normalised to polynomials over the extents with udiv atoms (Mod(e,d) := e - d*Div(e,d)): "
    "flatten(reshape(i)) and longIndex(coordsOf(i,d),d) reduce to i identically, all linear-index and element-count formulas "
    "reduce to x + dx*(y + dy*z) resp. dx*dy*dz, iterator begin/end/*/++/!= reduce to 0 / total / reshape(current) / +1 / "
    "position test, and ActualArray3D::get addresses value + sizeof(T)*index(clamped coordinates) (order theory over the "
    "select conditions).  The type-checked AST decides that no product or sum of two variable operands in these functions is "
    "evaluated below 64 bits, that for_each is the canonical z,y,x loop nest over the same component of lower/upper, and that "
    "every adaptor delegates to the cell its definition names (normal forms of the return expressions).  Not decided: right "
    "inverse reshape(flatten(c)) == c (needs c inside the extent), the narrowing of coordsOf's results to int (assumed: the "
    "index is inside the extent), getValueRange tightness, Array3DRepeater, loadRAW/mmapRAW.")

IR_DRIVER = 'drivers/alg_index.cpp'
AST_DRIVER = 'drivers/c17_arrays.cpp'
SEQ = 'rkcommon/utility/multidim_index_sequence.h'
FE = 'rkcommon/array3D/for_each.h'
A3D = 'rkcommon/array3D/Array3D.h'
VEC = 'rkcommon/math/vec.h'


# ============================================================================================
#  AST normal form of expressions
# ============================================================================================
COMM = {'+', '*', '&', '|', '^', '==', '!=', '&&', '||'}


def strip_targs(q):
    prev = None
    while prev != q:
        prev = q
        q = re.sub(r'<[^<>]*>', '', q)
    return q


def op_nf(op, a):
    if op in COMM:
        flat = []
        for x in a:
            if isinstance(x, tuple) and x and x[0] == 'op' and x[1] == op:
                flat += list(x[2])
            else:
                flat.append(x)
        return ('op', op, tuple(sorted(flat, key=repr)))
    return ('op', op, tuple(a))


def nf(tu, n, env=None, depth=0):
    """canonical tuple form of an expression: implicit casts / parens / temporaries / elidable copies stripped, callees
    resolved through the side table (template arguments dropped), commutative operators flattened and sorted,
    locals with a recorded initialiser substituted (env: decl id -> normal form)"""
    env = env or {}
    n = tu.strip(n)
    if n is None or depth > 40:
        return ('?',)
    k = n.get('kind')
    sd = tu.sd(n)
    ks = tu.kids(n)
    R = lambda x: nf(tu, x, env, depth + 1)
    if k == 'DeclRefExpr':
        rd = n.get('referencedDecl', {})
        if rd.get('id') in env:
            return env[rd['id']]
        return ('ref', rd.get('kind'), rd.get('name'))
    if k == 'CXXThisExpr':
        return ('this',)
    if k == 'MemberExpr':
        return ('mem', R(ks[0]) if ks else ('this',), n.get('name'))
    if k == 'IntegerLiteral':
        return ('int', int(n.get('value')))
    if k == 'CXXBoolLiteralExpr':
        return ('int', 1 if n.get('value') else 0)
    if k == 'FloatingLiteral':
        return ('float', n.get('value'))
    if k in ('CStyleCastExpr', 'CXXStaticCastExpr', 'CXXFunctionalCastExpr', 'CXXReinterpretCastExpr', 'CXXConstCastExpr'):
        inner = R(ks[-1])
        if k == 'CXXFunctionalCastExpr' and inner and inner[0] == 'ctor':
            return inner
        return ('cast', sd.get('ct') or n.get('type', {}).get('qualType'), inner)
    if k in ('BinaryOperator', 'CompoundAssignOperator'):
        return op_nf(n.get('opcode'), [R(x) for x in ks])
    if k == 'UnaryOperator':
        return ('un', n.get('opcode'), R(ks[0]))
    if k == 'ConditionalOperator':
        return ('?:',) + tuple(R(x) for x in ks)
    if k == 'ArraySubscriptExpr':
        return ('index', R(ks[0]), R(ks[1]))
    if k in ('CXXOperatorCallExpr', 'CXXMemberCallExpr', 'CallExpr'):
        s, obj, args = tu.call_parts(n)
        q = strip_targs(s.get('q', '?'))
        name = q.split('::')[-1]
        a = [R(x) for x in args]
        o = R(obj) if obj is not None else None
        if name == 'operator->' or (name == 'operator*' and not a):
            return ('deref', o)
        if name == 'operator[]':
            return ('index', o, a[0])
        if q in ('std::vector::front', 'std::array::front') and not a and o is not None:
            return ('index', o, ('int', 0))          # v.front() is v[0]
        if name.startswith('operator') and k == 'CXXOperatorCallExpr':
            return op_nf(name[len('operator'):], ([o] if o is not None else []) + a)
        if name in ('move', 'forward') and q.startswith('std::') and a:
            return a[0]
        if k == 'CXXMemberCallExpr' and o == ('this',) and depth < 30:
            c = tu.callee_fn(n)
            if c is not None and not c.get('virt') and not c['dep'] and len(c.get('params', [])) == len(a):
                body = tu.body(c)
                sts = [x for x in tu.kids(body)] if body else []
                if len(sts) == 1 and sts[0].get('kind') == 'ReturnStmt' and tu.kids(sts[0]):
                    env2 = dict(env)
                    for prm, av in zip(c['params'], a):
                        env2[prm['id']] = av
                    return nf(tu, tu.kids(sts[0])[0], env2, depth + 1)      # extract-method helper: same term
                env2 = dict(env)
                for prm, av in zip(c['params'], a):
                    env2[prm['id']] = av
                r_ = eval_body(tu, sts, env2, depth + 1)
                if r_ is not None:
                    return r_
        if k == 'CallExpr' and depth < 30:
            c = tu.callee_fn(n)
            if c is not None and not c.get('rec') and c['q'].startswith('rkcommon::array3D::') and c['fty'].startswith('bool') \
                    and not c['dep'] and len(c.get('params', [])) == len(a):
                body = tu.body(c)
                sts = [x for x in tu.kids(body)] if body else []
                if len(sts) == 1 and sts[0].get('kind') == 'ReturnStmt' and tu.kids(sts[0]):
                    env2 = dict(env)
                    for prm, av in zip(c['params'], a):
                        env2[prm['id']] = av
                    return nf(tu, tu.kids(sts[0])[0], env2, depth + 1)      # predicate helper: same condition
            if c is not None and c.get('static') and (c.get('rec') or '').startswith('rkcommon::array3D::') and not c['dep'] \
                    and len(c.get('params', [])) == len(a):
                body = tu.body(c)
                sts = [x for x in tu.kids(body)] if body else []
                if len(sts) == 1 and sts[0].get('kind') == 'ReturnStmt' and tu.kids(sts[0]):
                    env2 = dict(env)
                    for prm, av in zip(c['params'], a):
                        env2[prm['id']] = av
                    return nf(tu, tu.kids(sts[0])[0], env2, depth + 1)      # private static helper: same term
        if o is not None and o[0] == 'call' and not o[3] and o[2] is not None and \
                re.match(r'^std::(__)?(shared|unique)_ptr(_access)?::get$', o[1]):
            o = ('deref', o[2])         # sp.get()->f() is sp->f()
        return ('call', q, o, tuple(a))
    if k in ('CXXConstructExpr', 'CXXTemporaryObjectExpr'):
        a = [R(x) for x in ks if x.get('kind') != 'CXXDefaultArgExpr']
        ty = strip_targs(sd.get('rec') or sd.get('q', '?').rsplit('::', 1)[0])
        if len(ks) == 1 and n.get('type', {}).get('qualType', '').replace('const ', '') == \
                ks[0].get('type', {}).get('qualType', '').replace('const ', ''):
            return a[0]       # copy / move construction
        return ('ctor', ty, tuple(a))
    if k == 'InitListExpr':
        return ('ctor', strip_targs(sd.get('ct', '') or '?'), tuple(R(x) for x in ks))
    if k == 'ImplicitValueInitExpr':
        return ('int', 0)
    if k == 'CXXThrowExpr':
        return ('throw', sd.get('tty'))
    return ('?', k)


def eval_body(tu, sts, env, depth):
    """value returned by a small helper body made of local declarations, `var = e;`, `if (c) var = e; [else var = e2;]` and a final
    return: the assignments become conditional expressions.  None if the body has any other statement."""
    def assign(st):
        while st is not None and st.get('kind') == 'CompoundStmt' and len(tu.kids(st)) == 1:
            st = tu.kids(st)[0]
        e = tu.strip(st) if st is not None else None
        if e is not None and e.get('kind') == 'BinaryOperator' and e.get('opcode') == '=':
            l_ = tu.strip(tu.kids(e)[0])
            if l_ is not None and l_.get('kind') == 'DeclRefExpr':
                return l_.get('referencedDecl', {}).get('id'), tu.kids(e)[1], l_
        return None
    env = dict(env)
    for i, st in enumerate(sts):
        k = st.get('kind')
        if k == 'DeclStmt':
            for d in tu.kids(st):
                if d.get('kind') != 'VarDecl' or not tu.kids(d):
                    return None
                env[d['id']] = nf(tu, tu.kids(d)[-1], env, depth)
        elif k == 'IfStmt':
            parts = [x for x in st.get('inner', []) if isinstance(x, dict) and x.get('kind')]
            if len(parts) not in (2, 3):
                return None
            a1 = assign(parts[1])
            if a1 is None:
                return None
            old = nf(tu, a1[2], env, depth)
            c_ = nf(tu, parts[0], env, depth)
            v1 = nf(tu, a1[1], env, depth)
            v2 = old
            if len(parts) == 3:
                a2 = assign(parts[2])
                if a2 is None or a2[0] != a1[0]:
                    return None
                v2 = nf(tu, a2[1], env, depth)
            env[a1[0]] = ('?:', c_, v1, v2)
        elif k == 'ReturnStmt':
            if i != len(sts) - 1 or not tu.kids(st):
                return None
            return nf(tu, tu.kids(st)[0], env, depth)
        else:
            a1 = assign(st)
            if a1 is None:
                return None
            env[a1[0]] = nf(tu, a1[1], env, depth)
    return None


MINMAX = {'std::min': 'min', 'std::max': 'max', 'rkcommon::math::min': 'min', 'rkcommon::math::max': 'max'}


def mm(t):
    """canonical min / max form: clamp(x, lo, hi) = max(min(x, hi), lo); `a < b ? a : b` = min(a, b) ...; min / max are commutative"""
    if not isinstance(t, tuple):
        return t
    t = tuple(mm(x) for x in t)
    if t and t[0] == 'cast':
        return t[2]
    if t and t[0] == 'call' and strip_targs(t[1]) == 'rkcommon::math::clamp' and len(t[3]) == 3:
        x, lo, hi = t[3]
        return ('max', tuple(sorted([('min', tuple(sorted([x, hi], key=repr))), lo], key=repr)))
    if t and t[0] == 'call' and strip_targs(t[1]) in MINMAX and len(t[3]) == 2:
        return (MINMAX[strip_targs(t[1])], tuple(sorted(t[3], key=repr)))
    if t and t[0] == '?:' and len(t) == 4 and isinstance(t[1], tuple) and t[1] and t[1][0] == 'op' and t[1][1] in ('<', '>', '<=', '>=') \
            and len(t[1][2]) == 2:
        a, b = t[1][2]
        less = t[1][1] in ('<', '<=')
        if (t[2], t[3]) == (a, b):
            return ('min' if less else 'max', tuple(sorted([a, b], key=repr)))
        if (t[2], t[3]) == (b, a):
            return ('max' if less else 'min', tuple(sorted([a, b], key=repr)))
    return t


def drop_casts(t):
    if not isinstance(t, tuple):
        return t
    if t and t[0] == 'cast':
        return drop_casts(t[2])
    return tuple(drop_casts(x) for x in t)


def show(t):
    if not isinstance(t, tuple):
        return str(t)
    k = t[0] if t else ''
    if k == 'ref':
        return t[2]
    if k == 'this':
        return 'this'
    if k == 'mem':
        return (show(t[1]) + '.' if t[1] != ('this',) else '') + str(t[2])
    if k == 'int':
        return str(t[1])
    if k == 'op':
        return '(' + (' %s ' % t[1]).join(show(x) for x in t[2]) + ')'
    if k == 'call':
        return '%s%s(%s)' % ((show(t[2]) + '->') if t[2] is not None else '', t[1].split('::')[-1], ', '.join(show(x) for x in t[3]))
    if k == 'deref':
        return '*' + show(t[1])
    if k == 'index':
        return '%s[%s]' % (show(t[1]), show(t[2]))
    if k == 'ctor':
        return '%s(%s)' % (t[1].split('::')[-1], ', '.join(show(x) for x in t[2]))
    if k == 'cast':
        return '(%s)%s' % (t[1], show(t[2]))
    return str(t)


def fn_statements(tu, f):
    """(env of single-initialiser locals, [top-level statements], [return expression nodes]) of a function body"""
    env = {}
    stmts = []
    rets = []
    b = tu.body(f)
    for st in tu.kids(b) if b else []:
        k = st.get('kind')
        if k == 'DeclStmt':
            for d in tu.kids(st):
                if d.get('kind') == 'VarDecl' and tu.kids(d):
                    env[d['id']] = nf(tu, tu.kids(d)[-1], env)
            continue
        if k == 'ReturnStmt':
            ks = tu.kids(st)
            if ks:
                rets.append(ks[0])
            continue
        if k in ('ParenExpr', 'NullStmt'):
            x = tu.strip(st)
            if x is not None and x.get('kind') == 'ConditionalOperator':
                continue    # assert(...)
        stmts.append(st)
    return env, stmts, rets


def find_fns(tu, rx):
    r = re.compile(rx)
    return [f for f in tu.functions.values() if not f['dep'] and r.search(f['q']) and tu.body(f) is not None]


def pat(tu, f):
    p = tu.functions.get(f.get('pat')) if f.get('pat') else None
    return strip_targs((p or f)['q']).replace('rkcommon::array3D::', '').replace('rkcommon::', '')


# ============================================================================================
#  R-C17-1  64-bit typing
# ============================================================================================
WIDE = {'unsigned long', 'long', 'unsigned long long', 'long long'}
NARROW = {'int', 'unsigned int', 'short', 'unsigned short', 'char', 'signed char', 'unsigned char'}
R1_FUNCS = (r'^rkcommon::array3D::(longProduct|longIndex|coordsOf|for_each)$|'
            r'^rkcommon::array3D::\w+<.*>::(indexOf|numElements)$|^rkcommon::array3D::ActualArray3D<.*>::get$|'
            r'^rkcommon::multidim_index_sequence<\d>::(flatten|reshape|total_indices)$|'
            r'^rkcommon::math::vec_t<.*>::long_product$')


def check_typing(ctx, tu):
    """also looks through calls into rkcommon::math helpers (reduce_mul, product, long_product, operators on vec_t):
    a 32-bit product hidden in a callee overflows just the same"""
    R = 'R-C17-1'
    n = 0
    for f in find_fns(tu, R1_FUNCS):
        inst = '%s %s' % (f['q'].replace('rkcommon::', ''), f['fty'][:90])
        bad = []
        ops = 0
        seen = set()
        work = [(f, [])]
        while work:
            g, chain = work.pop()
            if g['id'] in seen or len(chain) > 6:
                continue
            seen.add(g['id'])
            top = tu.node(g['id']) or tu.body(g)
            for x in tu.walk(top):
                if 'id' not in x:
                    continue
                sd = tu.sd(x)
                if sd.get('k') in ('call', 'ctor'):
                    c = tu.callee_fn(x)
                    if c is not None and c['q'].startswith('rkcommon::math::') and not c['dep']:
                        work.append((c, chain + [(x, c)]))
                if x.get('kind') != 'BinaryOperator' or x.get('opcode') not in ('*', '+'):
                    continue
                if chain and x.get('opcode') == '+':
                    continue      # a sum inside a vec_t helper adds coordinates (where + shift), not index terms; products count
                ks = tu.kids(x)
                if len(ks) != 2:
                    continue
                if any(tu.sd(tu.strip(k, casts=True)).get('cv') is not None or tu.sd(k).get('cv') is not None for k in ks):
                    continue
                ct = sd.get('ct', '')
                if ct in WIDE:
                    ops += 1
                elif ct in NARROW:
                    ops += 1
                    bad.append((x, chain))
        n += 1
        # an intermediate index quantity kept in a 32-bit variable: a 64-bit value narrowed into a local that then takes part in
        # further index arithmetic (the narrowing of a final *coordinate* into a vec3i is not this case)
        narrowed = []
        body_ = tu.body(f)
        for d in tu.walk(body_):
            if d.get('kind') != 'VarDecl' or not tu.kids(d) or 'id' not in d:
                continue
            vt = d.get('type', {}).get('qualType', '').replace('const ', '').strip()
            init = tu.strip(tu.kids(d)[-1])
            if vt not in NARROW or init is None or tu.sd(init).get('ct', '') not in WIDE or tu.sd(init).get('cv') is not None:
                continue
            for u_ in tu.walk(body_):
                if u_.get('kind') == 'DeclRefExpr' and u_.get('referencedDecl', {}).get('id') == d['id']:
                    par = tu.par(u_)
                    hops = 0
                    while par is not None and par.get('kind') in ('ImplicitCastExpr', 'ParenExpr') and hops < 4:
                        par = tu.par(par)
                        hops += 1
                    if par is not None and par.get('kind') == 'BinaryOperator' and par.get('opcode') in ('/', '%', '*', '+', '-'):
                        narrowed.append((d, init, par))
                        break
        if narrowed:
            d, init, use = narrowed[0]
            ctx.violation(R, inst, 'the 64-bit value `%s` is stored in the %s variable `%s` and then used in `%s`: an intermediate index '
                          'quantity (not a coordinate) is narrowed to 32 bits - it exceeds INT_MAX for extents with more than 2^31 rows, so '
                          'the result is not computed in 64 bits' % (tu.show(init), d.get('type', {}).get('qualType', ''), d.get('name'),
                                                                    tu.show(use)), tu.loc(init),
                          key='%s|%s|%s|narrow-variable' % (R, tu.fn_file(f), pat(tu, f)))
            continue
        if bad:
            x, chain = bad[0]
            via = ''
            loc = tu.loc(x)
            if chain:
                via = ' (reached through %s at %s)' % (' -> '.join(strip_targs(c['q']).replace('rkcommon::math::', '') for _, c in chain),
                                                      tu.loc(chain[0][0]))
                loc = tu.loc(chain[0][0])
            ctx.violation(R, inst, '`%s` is evaluated in %d-bit `%s`%s: it overflows for extents whose product exceeds 2^31 before '
                          'the result is widened or compared' % (tu.show(x), 32 if 'int' in tu.sd(x).get('ct') else 16, tu.sd(x).get('ct'), via),
                          loc, key='%s|%s|%s|narrow-%s%s' % (R, tu.fn_file(f), pat(tu, f), x.get('opcode'), '-in-callee' if chain else ''),
                          path=['%s: %s' % (tu.loc(cx), tu.show(cx)) for cx, _ in chain] + ['%s: %s' % (tu.loc(x), tu.show(x))])
        else:
            ctx.ok(R, inst, '%d variable products/sums (callees in rkcommon::math included), all in 64-bit types' % ops, tu.fn_loc(f),
                   nontrivial=ops > 0)
    ctx.floor(R, n, 24, 'index functions instantiated by %s: 32 on the pinned tree' % AST_DRIVER)


# ============================================================================================
#  IR helpers
# ============================================================================================
class IR:
    def __init__(self, ctx):
        self.ctx = ctx
        self.mod = I.Module(ctx.front.emit_ir(IR_DRIVER, 'TBB', extra=('-DNDEBUG',)))
        self.cache = {}

    def summary(self, rule, inst, name, file, **opts):
        k = (name, tuple(sorted((a, str(b)) for a, b in opts.items())))
        if k in self.cache:
            return self.cache[k]
        s = None
        try:
            s = self.mod.function(name).summary(**opts)
        except KeyError:
            self.ctx.broken('%s: driver function %s is missing from the IR of %s' % (rule, name, IR_DRIVER))
        except Undecided as e:
            self.ctx.undecided(rule, inst, 'outside the decided IR fragment: %s' % e, file)
        self.cache[k] = s
        return s

    def get_opts(self, tn):
        """options for summarising ActualArray3D<T>::get: the object *a is an ActualArray3D<T>, so the virtual calls it makes
        on itself (numElements(), size()) resolve through that class's vtable (emitted by the driver's explicit instantiation)"""
        vt = '_ZTVN8rkcommon7array3D13ActualArray3DI%sEE' % {'float': 'f', 'double': 'd'}[tn]
        if vt in self.mod.globals and self.mod.globals[vt][0]:
            self.ctx.assume('ActualArray3D::get is analysed for objects whose dynamic type is ActualArray3D<T> itself '
                            '(virtual calls on *this resolve through its own vtable)')
            return dict(pointers={'a[0]': (vt, 16)})
        return {}


def decide_equal(ctx, R, inst, file, key, got, want, okmsg, what):
    """got/want: terms; exact identity, else undecided if opaque atoms are involved, else violation"""
    try:
        if I.equal(got, want):
            ctx.ok(R, inst, okmsg, file)
            return True
        fa = float_atoms(got)
        if fa and any(a.func.__name__.startswith(('fptoui', 'fptosi')) for a in fa) and not float_atoms(want) \
                and I.atoms(sp.sympify(want), prefix='udiv'):
            # an integer quotient computed through floating point: trunc(double(i) * (1/n)) or trunc(double(i) / n)
            arms = set()
            for z in sp.preorder_traversal(got):
                if I.is_app(z, 'Sel'):
                    arms |= {a for a in z.args[1:] if a.is_Integer}
            if not any(a > 0 for a in arms):
                ctx.violation(R, inst, '%s is computed in floating point as %s: that is not the integer quotient for all operands - the rounded '
                              'reciprocal / product can come out just below an exact multiple of the divisor (then the truncation is one too '
                              'small and the remainder equals the divisor: a coordinate outside the extent), and indices >= 2^53 are not '
                              'representable; %s, none for a quotient that is too small; expected %s'
                              % (what, fa[0], 'the only correction is a decrement for a quotient that is too large' if arms else
                                 'there is no correction step', sp.expand(want)), file, key=key.rsplit('|', 1)[0] + '|float-quotient',
                              path=['normal form found   : %s' % got, 'normal form expected: %s' % sp.expand(want)])
                return False
        op = I.opaque_atoms(got)
        if op:
            ctx.undecided(R, inst, '%s = %s contains a narrowing that is not provably value-preserving (%s)' % (what, got, op[0]), file)
        else:
            ctx.violation(R, inst, '%s reduces to %s, expected %s' % (what, sp.expand(got), sp.expand(want)), file, key=key,
                          path=['normal form found   : %s' % sp.expand(got), 'normal form expected: %s' % sp.expand(want)])
    except Undecided as e:
        ctx.undecided(R, inst, str(e), file)
    return False


def S(name, offs):
    return [sym('%s[%d]' % (name, o)) for o in offs]


def lin(c, d):
    return c[0] + d[0] * (c[1] + d[1] * c[2]) if len(c) == 3 else c[0] + d[0] * c[1]


# ============================================================================================
#  R-C17-2  left inverses
# ============================================================================================
def check_left_inverse(ctx, ir):
    R = 'R-C17-2'
    i = sym('i')
    n = 0
    for name, what, file, fn in (('K_fr2', 'index_sequence_2D: flatten(reshape(i))', SEQ, 'multidim_index_sequence::flatten/reshape(2D)'),
                                 ('K_fr3', 'index_sequence_3D: flatten(reshape(i))', SEQ, 'multidim_index_sequence::flatten/reshape(3D)')):
        s = ir.summary(R, what, name, file)
        if s is None:
            continue
        n += 1
        try:
            got_ = s.value('ret')
        except (KeyError, Undecided) as e:
            ctx.undecided(R, what, 'no defined return value on every path (%s): a component may be read uninitialised' % e, file)
            continue
        decide_equal(ctx, R, what, file, '%s|%s|%s|left-inverse' % (R, file, fn), got_, i,
                     'reduces to i by Mod(e,d) = e - d*Div(e,d)', what)
    what = 'longIndex(coordsOf(i, dims), dims)'
    accepted = []

    def fits(term, frm, to, signed):
        return 'the index is inside the extent, so every coordinate is smaller than an int extent'
    s = ir.summary(R, what, 'K_li_co', FE, nonneg=lambda nm: True, fits=fits)
    if s is not None:
        n += 1
        for a in s.assumed:
            ctx.assume('R-C17-2: ' + a)
        decide_equal(ctx, R, what, FE, '%s|%s|longIndex/coordsOf|left-inverse' % (R, FE), s.value('ret'), i,
                     'reduces to i (extents and index non-negative; %d int narrowings assumed value-preserving)' % len(s.assumed), what)
    ctx.floor(R, n, 3, '2D, 3D sequence and array3D')


# ============================================================================================
#  R-C17-3  formulas agree
# ============================================================================================
def get_offsets(s, tyname):
    """[(path guard, base pointer symbol, byte offset term)] of a function that returns a load from an array"""
    out = []
    for g, t in s.values('ret'):
        if not I.is_app(t, 'ld_' + tyname):
            raise Undecided('result %s is not a load from the value array' % t)
        out.append((g, t.args[0], t.args[1]))
    if len({b for _, b, _ in out}) != 1:
        raise Undecided('the paths load from different arrays')
    return out


def extents_of(ctx, ir, R, kname):
    """the symbols of the stored extents of an ActualArray3D<T>, read off what size() returns (no offset is assumed)"""
    sz = ir.summary(R, 'ActualArray3D::size', kname, A3D)
    if sz is None:
        return None
    try:
        d = [sz.value('out[%d]' % o) for o in (0, 4, 8)]
        return d if all(x.is_Symbol for x in d) else None
    except (Undecided, KeyError):
        return None


def check_formulas(ctx, ir):
    R = 'R-C17-3'
    n = 0
    i = sym('i')

    def one(name, inst, file, fn, slot, want, okmsg, **opts):
        nonlocal n
        s = ir.summary(R, inst, name, file, **opts)
        if s is None:
            return None
        n += 1
        try:
            got = s.value(slot)
        except (Undecided, KeyError) as e:
            ctx.undecided(R, inst, 'slot %s: %s' % (slot, e), file)
            return None
        decide_equal(ctx, R, inst, file, '%s|%s|%s|formula' % (R, file, fn), got, want, okmsg, inst)
        return s

    # ---- the sequence is over the extent it was given: dimensions() returns it unchanged (an empty extent stays empty)
    sdm = ir.summary(R, 'index_sequence_3D::dimensions', 'K_dims3', SEQ)
    if sdm is not None:
        inst_ = 'index_sequence_3D::dimensions'
        try:
            got_ = [sdm.value('out[%d]' % o) for o in (0, 8, 16)]
            want_ = S('dims', (0, 8, 16))
            bad_ = [(k_, g_) for k_, (g_, w_) in enumerate(zip(got_, want_)) if not I.equal(g_, w_)]
            if not bad_:
                ctx.ok(R, inst_, 'the extents passed to the constructor', SEQ)
            elif any(I.opaque_atoms(g_) for _, g_ in bad_):
                ctx.undecided(R, inst_, 'component %d is %s' % bad_[0], SEQ)
            else:
                k_, g_ = bad_[0]
                at0 = I.refold(g_.xreplace({want_[k_]: sp.Integer(0)}))
                try:
                    at0 = [t_ for gd_, t_ in I.cases(at0, []) ][0] if at0.has(I.Sel) else at0
                except Exception:
                    pass
                ctx.violation(R, inst_, 'the sequence does not keep the extent it was constructed with: component %d is %s instead of %s%s'
                              % (k_, g_, want_[k_],
                                 ' - a zero extent is stored as %s, so an empty index space becomes a non-empty one: total_indices() is not 0, '
                                 'begin() != end(), and iterating visits coordinates none of which lies inside the (empty) extent; '
                                 'flatten / reshape / total_indices then disagree with the extent the caller sized its buffers with' % at0
                                 if at0 != 0 and not getattr(at0, 'free_symbols', None) else ''),
                              SEQ, key='%s|%s|multidim_index_sequence::dimensions|extent' % (R, SEQ))
        except (Undecided, KeyError) as e:
            ctx.undecided(R, inst_, str(e), SEQ)
    # ---- linear index
    one('K_flatten2', 'index_sequence_2D::flatten', SEQ, 'multidim_index_sequence::flatten(2D)', 'ret',
        lin(S('c', (0, 8)), S('dims', (0,))), 'x + dx*y')
    one('K_flatten3', 'index_sequence_3D::flatten', SEQ, 'multidim_index_sequence::flatten(3D)', 'ret',
        lin(S('c', (0, 8, 16)), S('dims', (0, 8))), 'x + dx*(y + dy*z)')
    one('K_longIndex', 'longIndex', FE, 'longIndex', 'ret', lin(S('idx', (0, 4, 8)), S('dims', (0, 4))), 'x + dx*(y + dy*z)')
    # where do the extents of an ActualArray3D live?  size() returns them.
    sz = ir.summary(R, 'ActualArray3D::size', 'K_actual_size', A3D)
    adims = None
    if sz is not None:
        try:
            adims = [sz.value('out[%d]' % o) for o in (0, 4, 8)]
            if not all(d.is_Symbol for d in adims):
                ctx.undecided(R, 'ActualArray3D::size', 'size() returns %s, not the stored extents' % adims, A3D)
                adims = None
        except (Undecided, KeyError) as e:
            ctx.undecided(R, 'ActualArray3D::size', str(e), A3D)
    if adims is not None:
        one('K_indexOf', 'ActualArray3D::indexOf', A3D, 'ActualArray3D::indexOf', 'ret', lin(S('idx', (0, 4, 8)), adims),
            'x + dx*(y + dy*z) over the extents returned by size()')
        one('K_numElements', 'ActualArray3D::numElements', A3D, 'ActualArray3D::numElements', 'ret', adims[0] * adims[1] * adims[2],
            'dx*dy*dz over the extents returned by size()')
    # ---- reshape / coordsOf are the Div/Mod decomposition
    d2 = S('dims', (0, 8))
    q = I.atom('udiv64', i, d2[0])
    one('K_reshape2', 'index_sequence_2D::reshape .x', SEQ, 'multidim_index_sequence::reshape(2D)', 'out[0]', i - d2[0] * q, 'i mod dx')
    one('K_reshape2', 'index_sequence_2D::reshape .y', SEQ, 'multidim_index_sequence::reshape(2D)', 'out[8]', q, 'i div dx')
    d3 = S('dims', (0, 8, 16))
    qz = I.atom('udiv64', i, d3[0] * d3[1])
    r = i - d3[0] * d3[1] * qz
    qy = I.atom('udiv64', r, d3[0])
    alt_y = I.atom('udiv64', I.atom('udiv64', i, d3[0]), d3[1])
    one('K_reshape3', 'index_sequence_3D::reshape .z', SEQ, 'multidim_index_sequence::reshape(3D)', 'out[16]', qz, 'i div (dx*dy)')
    one('K_reshape3', 'index_sequence_3D::reshape .y', SEQ, 'multidim_index_sequence::reshape(3D)', 'out[8]', qy, '(i mod (dx*dy)) div dx')
    one('K_reshape3', 'index_sequence_3D::reshape .x', SEQ, 'multidim_index_sequence::reshape(3D)', 'out[0]', r - d3[0] * qy,
        '(i mod (dx*dy)) mod dx')
    di = S('dims', (0, 4, 8))
    q1 = I.atom('udiv64', i, di[0])
    q2 = I.atom('udiv64', q1, di[1])
    one('K_coordsOf', 'coordsOf .x', FE, 'coordsOf', 'out[0]', i - di[0] * q1, 'i mod dx (as int)')
    one('K_coordsOf', 'coordsOf .y', FE, 'coordsOf', 'out[4]', q1 - di[1] * q2, '(i div dx) mod dy (as int)')
    one('K_coordsOf', 'coordsOf .z', FE, 'coordsOf', 'out[8]', q2, '(i div dx) div dy (as int)')
    # ---- element counts
    one('K_total2', 'index_sequence_2D::total_indices', SEQ, 'multidim_index_sequence::total_indices', 'ret', d2[0] * d2[1], 'dx*dy')
    one('K_total3', 'index_sequence_3D::total_indices', SEQ, 'multidim_index_sequence::total_indices', 'ret', d3[0] * d3[1] * d3[2], 'dx*dy*dz')
    one('K_longProduct', 'longProduct', FE, 'longProduct', 'ret', di[0] * di[1] * di[2], 'dx*dy*dz')
    one('K_vec3i_long_product', 'vec3i::long_product', VEC, 'vec_t::long_product', 'ret', di[0] * di[1] * di[2], 'dx*dy*dz')
    ss = ir.summary(R, 'SubBoxArray3D::size', 'K_sub_size', A3D)
    if ss is not None:
        try:
            sd = [ss.value('out[%d]' % o) for o in (0, 4, 8)]
            one('K_sub_numElements', 'SubBoxArray3D::numElements', A3D, 'SubBoxArray3D::numElements', 'ret', sd[0] * sd[1] * sd[2],
                'product of the three components of size()')
        except (Undecided, KeyError) as e:
            ctx.undecided(R, 'SubBoxArray3D::size', str(e), A3D)
    adims_f = adims
    # ---- the address computed by ActualArray3D::get
    for name, tyname, stride in (('K_get', 'f32', 4), ('K_get_d', 'f64', 8)):
        inst = 'ActualArray3D<%s>::get address' % ('float' if stride == 4 else 'double')
        s = ir.summary(R, inst, name, A3D, **ir.get_opts('float' if stride == 4 else 'double'))
        adims = adims_f if stride == 4 else extents_of(ctx, ir, R, 'K_actual_size_d')     # the layout depends on the element type
        if s is None or adims is None:
            continue
        n += 1
        try:
            offs = get_offsets(s, tyname)
            idx = S('idx', (0, 4, 8))
            inr = []
            for k in range(3):
                inr += [I.ilit('sle', 0, idx[k]), I.ilit('sle', idx[k], adims[k] - 1), I.ilit('slt', adims[k] - 1, adims[k])]
            cs = []
            for g, base, off in offs:
                if I.consistent(list(g) + inr):
                    cs += I.cases(off, g, assume=inr)
            want = stride * lin(idx, adims)
            bad = [(g, v) for g, v in cs if not I.equal_under(list(g) + inr, v, want)]
            if not cs:
                ctx.undecided(R, inst, 'no case of the address is consistent with coordinates inside the extent', A3D)
            elif bad:
                g, v = bad[0]
                if I.opaque_atoms(v):
                    ctx.undecided(R, inst, 'address %s contains an unproved narrowing' % v, A3D)
                elif not I.in_order_vocabulary(list(g)):
                    ctx.undecided(R, inst, 'path condition %s is not a plain coordinate comparison' % ' & '.join(map(str, g)), A3D)
                else:
                    ctx.violation(R, inst, 'for coordinates inside the extent the byte offset is %s, expected sizeof(T) * (x + dx*(y + dy*z)) = %s'
                                  % (sp.expand(v), sp.expand(want)), A3D, key='%s|%s|ActualArray3D::get|formula' % (R, A3D))
            else:
                ctx.ok(R, inst, 'value + %d * (x + dx*(y + dy*z)) for coordinates inside the extent (same formula as indexOf)' % stride, A3D)
        except Undecided as e:
            ctx.undecided(R, inst, str(e), A3D)
    ctx.floor(R, n, 20, 'formula instances in %s' % IR_DRIVER)
    return {'float': adims_f, 'double': extents_of(ctx, ir, R, 'K_actual_size_d')}


# ============================================================================================
#  R-C17-4  iteration
# ============================================================================================
def for_parts(tu, st):
    inner = st.get('inner', [])
    if len(inner) != 5:
        return None
    return [x if isinstance(x, dict) and x.get('kind') else None for x in inner]


PRODUCTS = ('rkcommon::math::reduce_mul', 'rkcommon::math::vec_t::product', 'rkcommon::math::vec_t::long_product')


def push_not(t):
    """negation normal form of a condition: !(a && b) = !a || !b, !(x < y) = x >= y, ..."""
    if not isinstance(t, tuple) or not t:
        return t
    if t[0] == 'un' and t[1] == '!':
        u = push_not(t[2])
        if u[0] == 'op' and u[1] in ('&&', '||'):
            return op_nf('||' if u[1] == '&&' else '&&', [push_not(('un', '!', x)) for x in u[2]])
        if u[0] == 'op' and u[1] in ('<', '<=', '>', '>=', '==', '!=') and len(u[2]) == 2:
            flip = {'<': '>=', '<=': '>', '>': '<=', '>=': '<', '==': '!=', '!=': '=='}[u[1]]
            return op_nf(flip, list(u[2]))
        if u[0] == 'un' and u[1] == '!':
            return u[2]
        return ('un', '!', u)
    if t[0] == 'op' and t[1] in ('&&', '||'):
        return op_nf(t[1], [push_not(x) for x in t[2]])
    return t


def odometer_loop(tu, stmts, lo, hi, fun):
    """`vec3i idx = lower; do { functor(vec3i(idx)); } while (step(idx, lower, upper));` with a step helper that advances idx like
    an odometer: ++x, wrap x to lower.x and carry into y, wrap y to lower.y and carry into z, false once z reaches upper.z.
    None: not this shape.  True: the canonical x-fastest order over [lower, upper).  (kind, message): recognisably wrong."""
    L, U = ('ref', 'ParmVarDecl', lo), ('ref', 'ParmVarDecl', hi)
    if len(stmts) != 2 or stmts[0].get('kind') != 'DeclStmt' or stmts[1].get('kind') != 'DoStmt':
        return None
    vds = [d for d in tu.kids(stmts[0]) if d.get('kind') == 'VarDecl']
    if len(vds) != 1 or not tu.kids(vds[0]):
        return None
    iv = vds[0]
    ivref = ('ref', 'VarDecl', iv.get('name'))
    start = nf(tu, tu.kids(iv)[-1])
    ks = tu.kids(stmts[1])
    if len(ks) != 2:
        return None
    body, cond = ks
    while body is not None and body.get('kind') == 'CompoundStmt' and len(tu.kids(body)) == 1:
        body = tu.kids(body)[0]
    call = drop_casts(nf(tu, body))
    arg = None
    if call[0] == 'op' and call[1] == '()' and len(call[2]) == 2 and call[2][0] == ('ref', 'ParmVarDecl', fun):
        arg = call[2][1]
    elif call[0] == 'call' and call[2] == ('ref', 'ParmVarDecl', fun) and call[3]:
        arg = call[3][0]
    if arg not in (ivref, ('ctor', 'rkcommon::math::vec_t', (ivref,))):
        return None
    c = tu.strip(cond)
    if c is None or c.get('kind') != 'CallExpr':
        return None
    step = tu.callee_fn(c)
    _, _, cargs = tu.call_parts(c)
    if step is None or step['dep'] or tu.body(step) is None or len(cargs) != len(step['params']):
        return None
    env = {}
    for prm, av in zip(step['params'], cargs):
        env[prm['id']] = nf(tu, av)
    if start != L:
        if start == U:
            return ('init', 'the odometer starts at upper instead of lower')
        return None
    # stages of the step function
    sts = tu.kids(tu.body(step))
    stages = []
    i = 0
    inc_of = lambda t: (t[2] if t[0] == 'un' and t[1] == '++' else t[2][0] if t[0] == 'op' and t[1] == '+=' and t[2][1] == ('int', 1) else None)
    while i < len(sts):
        st = sts[i]
        if st.get('kind') == 'IfStmt':
            parts = [x for x in st.get('inner', []) if isinstance(x, dict) and x.get('kind')]
            th = parts[1] if len(parts) == 2 else None
            while th is not None and th.get('kind') == 'CompoundStmt' and len(tu.kids(th)) == 1:
                th = tu.kids(th)[0]
            if th is None or th.get('kind') != 'ReturnStmt' or not tu.kids(th) or drop_casts(nf(tu, tu.kids(th)[0], env)) != ('int', 1):
                return None
            cnd = drop_casts(nf(tu, parts[0], env))
            if i + 1 >= len(sts):
                return None
            rs = drop_casts(nf(tu, sts[i + 1], env))
            if not (rs[0] == 'op' and rs[1] == '=' and len(rs[2]) == 2):
                return None
            stages.append((cnd, rs[2][0], rs[2][1]))
            i += 2
        elif st.get('kind') == 'ReturnStmt' and i == len(sts) - 1 and tu.kids(st):
            stages.append((drop_casts(nf(tu, tu.kids(st)[0], env)), None, None))
            i += 1
        else:
            return None
    if len(stages) != 3 or stages[-1][1] is not None:
        return None
    for k, (cnd, rst, rval) in enumerate(stages):
        want = 'xyz'[k]
        if not (cnd[0] == 'op' and cnd[1] in ('<', '<=', '>', '>=', '!=') and len(cnd[2]) == 2):
            return None
        a, b = cnd[2]
        rel = cnd[1]
        if inc_of(b) is not None:
            a, b, rel = b, a, {'<': '>', '>': '<', '<=': '>=', '>=': '<=', '!=': '!='}[rel]
        digit = inc_of(a)
        if digit is None or not (digit[0] == 'mem' and digit[1] == ivref):
            return None
        comp = digit[2]
        if comp != want:
            return ('order', 'digit %d of the odometer (0 = fastest) advances component %s; the flattened order is x fastest, then y, then z'
                    % (k, comp))
        if rel == '<=':
            return ('bound', 'the %s digit keeps running while ++%s <= upper.%s: it includes the upper bound of [lower, upper)' % (comp, comp, comp))
        if rel != '<':
            return ('bound', 'the %s digit is tested with `%s`' % (comp, rel))
        if not (b[0] == 'mem' and b[1] == U):
            if b[0] == 'mem' and b[1] == L:
                return ('bound', 'the %s digit is bounded by lower.%s' % (comp, b[2]))
            if b[0] == 'op' and b[1] in ('-', '+') and len(b[2]) == 2 and ('mem', U, comp) in b[2] and any(x[0] == 'int' and x[1] for x in b[2]):
                return ('bound', 'the %s digit runs while ++%s < %s: the bound is off by a constant, so the last (or an extra) %s of the '
                        'region is %s' % (comp, comp, show(b), {'x': 'column', 'y': 'row', 'z': 'slice'}[comp],
                                          'skipped' if b[1] == '-' else 'visited'))
            return None
        if b[2] != comp:
            return ('component', 'the %s digit is bounded by upper.%s' % (comp, b[2]))
        if rst is not None:
            if rst != ('mem', ivref, comp):
                if rst[0] == 'mem' and rst[1] == ivref:
                    return ('wrap', 'after the %s digit overflows, component %s is reset instead of %s' % (comp, rst[2], comp))
                return None
            if rval != ('mem', L, comp):
                if rval == ('int', 0) or (rval[0] == 'mem' and rval[1] in (L, U)):
                    return ('wrap', 'the %s digit wraps to %s instead of lower.%s: rows after the first start at the wrong coordinate'
                            % (comp, show(rval), comp))
                return None
    return True


def early_out(tu, st, lo, hi):
    """`if (C) return;` in front of the loop nest: True if C implies an empty region (in exact arithmetic), a message if C
    is a recognised wrong condition, None if not recognised"""
    inner = [x for x in st.get('inner', []) if isinstance(x, dict) and x.get('kind')]
    if len(inner) != 2:
        return None
    cond, then = inner
    while then.get('kind') == 'CompoundStmt' and len(tu.kids(then)) == 1:
        then = tu.kids(then)[0]
    if then.get('kind') != 'ReturnStmt' or tu.kids(then):
        return None
    L, U = ('ref', 'ParmVarDecl', lo), ('ref', 'ParmVarDecl', hi)

    def atom_ok(c):
        c = drop_casts(c)
        if c[0] != 'op' or c[1] not in ('<', '<=', '>', '>=', '=='):
            return None
        a, b = c[2] if len(c[2]) == 2 else (None, None)
        rel = c[1]
        if a is None:
            return None
        # product of the extent <= 0 / == 0
        for x, y, r in ((a, b, rel), (b, a, {'<': '>', '<=': '>=', '>': '<', '>=': '<=', '==': '=='}[rel])):
            if x[0] == 'call' and strip_targs(x[1]) in PRODUCTS and y == ('int', 0):
                arg = x[3][0] if x[3] else x[2]
                if arg == ('op', '-', (U, L)):
                    if r in ('<=', '==', '<'):
                        return True
                    return 'returns early when the cell count of the region is %s 0, i.e. for non-empty regions' % r
                if arg == ('op', '-', (L, U)):
                    return 'early-out tests the product of lower - upper: its sign is not the emptiness of [lower, upper)'
                return None
        # component comparison  upper.c <= lower.c
        if rel in ('>', '>='):
            a, b = b, a
            rel = {'>': '<', '>=': '<='}[rel]
        if rel in ('<', '<=') and a[0] == 'mem' and b[0] == 'mem':
            if a[1] == U and b[1] == L:
                if a[2] == b[2]:
                    return True
                return 'early-out compares upper.%s with lower.%s: different components' % (a[2], b[2])
            if a[1] == L and b[1] == U and a[2] == b[2]:
                return 'returns early when lower.%s %s upper.%s, i.e. for non-empty extents' % (a[2], rel, b[2])
        return None

    c = push_not(nf(tu, cond))
    parts = list(c[2]) if c[0] == 'op' and c[1] in ('||', '&&') else [c]
    res = [atom_ok(x) for x in parts]
    if any(r is None for r in res):
        return None
    for r in res:
        if r is not True:
            return r
    return True


def early_out_axes(tu, st, lo, hi):
    """components c for which the (accepted) early-out returns whenever upper.c <= lower.c"""
    inner = [x for x in st.get('inner', []) if isinstance(x, dict) and x.get('kind')]
    c = push_not(nf(tu, inner[0]))
    L, U = ('ref', 'ParmVarDecl', lo), ('ref', 'ParmVarDecl', hi)
    parts = list(c[2]) if c[0] == 'op' and c[1] == '||' else ([c] if not (c[0] == 'op' and c[1] == '&&') else [])
    out = set()
    for x in parts:
        x = drop_casts(x)
        if x[0] == 'op' and len(x[2]) == 2:
            a, b = x[2]
            rel = x[1]
            if rel == '>=':
                a, b, rel = b, a, '<='
            if rel == '<=' and a[0] == 'mem' and b[0] == 'mem' and a[1] == U and b[1] == L and a[2] == b[2]:
                out.add(a[2])
    return out


def flat_loop(tu, stmts, lo, hi, fun):
    """None: not the flattened form.  True: `for (i = 0; i < product of the extents; ++i) functor(lower + coordsOf(i, upper -
    lower))`.  (kind, message): the flattened form with a recognisable mistake."""
    L, U = ('ref', 'ParmVarDecl', lo), ('ref', 'ParmVarDecl', hi)
    env = {}
    loop = None
    for st in stmts:
        if st.get('kind') == 'DeclStmt':
            for d in tu.kids(st):
                if d.get('kind') == 'VarDecl' and tu.kids(d):
                    env[d['id']] = nf(tu, tu.kids(d)[-1], env)
                else:
                    return None
        elif st.get('kind') == 'ForStmt' and loop is None and st is stmts[-1]:
            loop = st
        else:
            return None
    if loop is None:
        return None
    parts = for_parts(tu, loop)
    if parts is None or parts[1] is not None or any(parts[i] is None for i in (0, 2, 3, 4)):
        return None
    init, _, cond, inc, body = parts
    vds = [d for d in tu.kids(init) if d.get('kind') == 'VarDecl'] if init.get('kind') == 'DeclStmt' else []
    if len(vds) != 1 or not tu.kids(vds[0]):
        return None
    v = vds[0]
    vref = ('ref', 'VarDecl', v.get('name'))
    if drop_casts(nf(tu, tu.kids(v)[-1], env)) != ('int', 0):
        return None
    c = drop_casts(nf(tu, cond, env))
    if not (c[0] == 'op' and c[1] in ('<', '>', '!=') and len(c[2]) == 2):
        return None
    a, b = c[2]
    if c[1] == '>':
        a, b = b, a
    if c[1] == '!=' and b == vref:
        a, b = b, a
    if a != vref:
        return None
    size = ('op', '-', (U, L))
    ext = lambda k: (('mem', size, k), ('op', '-', (('mem', U, k), ('mem', L, k))))
    trip_ok = False
    if b[0] == 'op' and b[1] == '*' and len(b[2]) == 3:
        left = list(b[2])
        for k in 'xyz':
            hit = [t for t in left if t in ext(k)]
            if hit:
                left.remove(hit[0])
        trip_ok = not left
    elif b[0] == 'call' and strip_targs(b[1]) in PRODUCTS + ('rkcommon::array3D::longProduct',):
        arg = b[3][0] if b[3] else b[2]
        trip_ok = arg == size
    if not trip_ok:
        return None
    ic = nf(tu, inc, env)
    if not ((ic[0] == 'un' and ic[1] == '++' and ic[2] == vref) or ic == ('op', '+=', (vref, ('int', 1)))):
        return None
    node = body
    while node is not None and node.get('kind') == 'CompoundStmt' and len(tu.kids(node)) == 1:
        node = tu.kids(node)[0]
    call = drop_casts(nf(tu, node, env))
    arg = None
    if call[0] == 'op' and call[1] == '()' and len(call[2]) == 2 and call[2][0] == ('ref', 'ParmVarDecl', fun):
        arg = call[2][1]
    elif call[0] == 'call' and call[2] == ('ref', 'ParmVarDecl', fun) and call[3]:
        arg = call[3][0]
    if arg is None:
        return None
    co = ('call', 'rkcommon::array3D::coordsOf', None, (vref, size))
    if arg == op_nf('+', [L, co]):
        return True
    if arg == co:
        return ('offset', 'flattened loop passes coordsOf(i, upper - lower) to the functor without adding lower')
    if arg == op_nf('+', [U, co]):
        return ('offset', 'flattened loop offsets the coordinates by upper instead of lower')
    return None


def contains_term(t, sub):
    if t == sub:
        return True
    return isinstance(t, tuple) and any(contains_term(x, sub) for x in t)


def is_functor_call(t, fun):
    """normal form of functor(...) on the parameter `fun`"""
    return isinstance(t, tuple) and ((t[0] == 'op' and t[1] == '()' and len(t[2]) >= 1 and t[2][0] == ('ref', 'ParmVarDecl', fun)) or
                                     (t[0] == 'call' and t[2] == ('ref', 'ParmVarDecl', fun)))


def find_functor_calls(t, fun, out):
    if is_functor_call(t, fun):
        out.append(t)
    if isinstance(t, tuple):
        for x in t:
            find_functor_calls(x, fun, out)
    return out


def visit_helper(tu, cn, env, fun, depth=0):
    """A call `helper(functor, idx, ...)` used as the innermost statement / in its condition: evaluate the (instantiated) helper body
    made of expression statements and one final return.  -> (normal forms of the functor invocations made, normal form of the value
    returned | None) or None when the body is anything else."""
    c = tu.callee_fn(cn)
    if c is None or c['dep'] or tu.body(c) is None or depth > 3:
        return None
    _, _, cargs = tu.call_parts(cn)
    if len(cargs) != len(c['params']):
        return None
    env2 = dict(env)
    for prm, av in zip(c['params'], cargs):
        env2[prm['id']] = nf(tu, av, env)
    calls, ret = [], None
    sts = tu.kids(tu.body(c))
    for i_, st in enumerate(sts):
        if st.get('kind') == 'ReturnStmt':
            if i_ != len(sts) - 1:
                return None
            if tu.kids(st):
                ret = nf(tu, tu.kids(st)[0], env2)
                find_functor_calls(ret, fun, calls)
        elif st.get('kind') in ('DeclStmt', 'IfStmt', 'ForStmt', 'WhileStmt', 'DoStmt', 'SwitchStmt', 'CompoundStmt'):
            return None
        else:
            t_ = nf(tu, st, env2)
            if not is_functor_call(t_, fun):
                return None
            calls.append(t_)
    return calls, ret


def range_helper_level(tu, node, env, level):
    """`helper(first, last, [&](int v) { BODY })` with an (instantiated) helper whose body is the single loop
    `for (int i = first; i < last; i++) body(i);`: one level of a loop nest, written through a 1D building block.
    -> (loop variable decl, init / cond / inc nodes of the helper's loop, env for them, vref, BODY, env for BODY) or None"""
    cn = tu.strip(node) if node is not None else None
    if cn is None or cn.get('kind') != 'CallExpr':
        return None
    c = tu.callee_fn(cn)
    if c is None or c['dep'] or tu.body(c) is None:
        return None
    _, _, cargs = tu.call_parts(cn)
    if len(cargs) != len(c['params']):
        return None
    lam = [(j, tu.strip(a_, casts=True)) for j, a_ in enumerate(cargs)]
    lam = [(j, a_) for j, a_ in lam if a_ is not None and a_.get('kind') == 'LambdaExpr']
    if len(lam) != 1:
        return None
    j, L = lam[0]
    hb = tu.kids(tu.body(c))
    while len(hb) == 1 and hb[0].get('kind') == 'CompoundStmt':
        hb = tu.kids(hb[0])
    if len(hb) != 1 or hb[0].get('kind') != 'ForStmt':
        return None
    parts = for_parts(tu, hb[0])
    if parts is None or parts[1] is not None or any(parts[i] is None for i in (0, 2, 3, 4)):
        return None
    init, _, cond, inc, hbody = parts
    vds = [d for d in tu.kids(init) if d.get('kind') == 'VarDecl'] if init.get('kind') == 'DeclStmt' else []
    if len(vds) != 1 or not tu.kids(vds[0]):
        return None
    v = vds[0]
    while hbody is not None and hbody.get('kind') == 'CompoundStmt' and len(tu.kids(hbody)) == 1:
        hbody = tu.kids(hbody)[0]
    call = tu.strip(hbody) if hbody is not None else None
    if call is None or call.get('kind') != 'CXXOperatorCallExpr':
        return None
    ks_ = tu.kids(call)
    if not tu.sd(call).get('q', '').endswith('::operator()') or len(ks_) != 3:
        return None
    obj, args = ks_[1], ks_[2:]
    if named_decl(tu, obj) != c['params'][j]['id'] or named_decl(tu, args[0]) != v['id']:
        return None
    # the lambda: one parameter, its body
    meth = [m_ for r_ in tu.kids(L) if r_.get('kind') == 'CXXRecordDecl' for m_ in tu.kids(r_)
            if m_.get('kind') == 'CXXMethodDecl' and m_.get('name') == 'operator()']
    if len(meth) != 1:
        return None
    lps = [p_ for p_ in tu.kids(meth[0]) if p_.get('kind') == 'ParmVarDecl']
    lbody = [b_ for b_ in tu.kids(L) if b_.get('kind') == 'CompoundStmt']
    if len(lps) != 1 or len(lbody) != 1:
        return None
    vref = ('ref', 'VarDecl', '%s#%d' % (lps[0].get('name') or v.get('name'), level))
    env2 = dict(env)
    for k_, (prm, av) in enumerate(zip(c['params'], cargs)):
        if k_ != j:
            env2[prm['id']] = nf(tu, av, env)
    env2[v['id']] = vref
    env3 = dict(env)
    env3[lps[0]['id']] = vref
    return v, cond, inc, env2, vref, lbody[0], env3, strip_targs(c['q']).split('::')[-1]


def check_for_each(ctx, tu):
    R = 'R-C17-4'
    n = 0
    for f in find_fns(tu, r'^rkcommon::array3D::for_each$'):
        params = f['params']
        inst = 'for_each %s' % f['fty'][:110]
        key = '%s|%s|for_each(%d)|' % (R, FE, len(params))
        # for_each(size, f) may contain the loop nest itself (lower corner fixed at the origin) instead of forwarding
        zero_lower = False
        if len(params) == 2 and 'vec_t<int, 3' in params[0]['ct'] and 'range_t' not in params[0]['ct']:
            b0 = [x for x in tu.kids(tu.body(f)) if x.get('kind') != 'IfStmt']
            zero_lower = len(b0) == 1 and b0[0].get('kind') == 'ForStmt'
        if len(params) == 3 or zero_lower:
            n += 1
            problems, und = [], []
            if zero_lower:
                lo, hi, fun = None, params[0]['name'], params[1]['name']
            else:
                lo, hi, fun = (p['name'] for p in params)
            comp_expected = ['z', 'y', 'x']
            cur = [st_ for st_ in tu.kids(tu.body(f))
                   if not (st_.get('kind') == 'DeclStmt' and tu.kids(st_) and
                           all(d_.get('kind') in ('TypeAliasDecl', 'TypedefDecl', 'StaticAssertDecl', 'UsingDecl') for d_ in tu.kids(st_)))]
            level = 0
            loopvars = {}
            # leading early-outs `if (C) return;` are fine when C implies that the region is empty
            covered = set()
            while len(cur) > 1 and cur[0].get('kind') == 'IfStmt':
                verdict = early_out(tu, cur[0], lo, hi)
                if verdict is None:
                    und.append('statement before the loop nest is not a recognised early-out for an empty region: %s' % tu.show(cur[0])[:120])
                    break
                if verdict is not True:
                    problems.append(('early-out', verdict))
                else:
                    covered |= early_out_axes(tu, cur[0], lo, hi)
                cur = cur[1:]
            odo = odometer_loop(tu, cur, lo, hi, fun) if not und else None
            if odo is not None:
                if odo is not True:
                    problems.append(odo)
                elif not (covered >= {'x', 'y', 'z'}):
                    problems.append(('empty-region', 'the do-while loop calls the functor at `lower` before anything is tested, and nothing returns '
                                     'early for an empty extent in %s: an empty region is visited' % ', '.join(sorted({'x', 'y', 'z'} - covered))))
                seen = set()
                for kind, why in problems:
                    if kind not in seen:
                        seen.add(kind)
                        ctx.violation(R, inst, why, tu.fn_loc(f), key=key + kind)
                if not problems:
                    ctx.ok(R, inst, 'odometer loop from lower: ++x, wrap to lower.x and carry into y, then into z, until z reaches upper.z; '
                           'empty extents return early on every axis', tu.fn_loc(f))
                continue
            flat = flat_loop(tu, cur, lo, hi, fun) if not und else None
            if flat is not None:
                n_flat = True
                if flat is not True:
                    problems.append(flat)
                elif covered >= {'x', 'y', 'z'}:
                    ctx.assume('R-C17-4: a flattened for_each is read with a cell count below 2^63')
                else:
                    missing = ', '.join(sorted({'x', 'y', 'z'} - covered))
                    problems.append(('empty-region', 'single loop over i < (ux-lx)*(uy-ly)*(uz-lz): the region is empty as soon as one extent '
                                     'is <= 0, but the product of the extents is positive when exactly two of them are negative (and nothing '
                                     'returns early for an empty extent in %s), so an inverted, empty region is visited with coordinates '
                                     'outside it' % missing))
                seen = set()
                for kind, why in problems:
                    if kind not in seen:
                        seen.add(kind)
                        ctx.violation(R, inst, why, tu.fn_loc(f), key=key + kind)
                if not problems:
                    ctx.ok(R, inst, 'flattened loop over the cell count with functor(lower + coordsOf(i, upper - lower)), empty extents '
                           'return early on every axis', tu.fn_loc(f))
                continue
            node = cur[0] if len(cur) == 1 else None
            if node is None and not und:
                und.append('body is not a single loop nest')
            env = {}
            helpers = []
            while node is not None:
                rh = range_helper_level(tu, node, env, level) if node.get('kind') != 'ForStmt' else None
                if node.get('kind') != 'ForStmt' and rh is None:
                    break
                if rh is not None:
                    # one level written through a 1D range helper taking the loop body as a lambda
                    v, cond, inc, cenv, vref, body, env_next, hname = rh
                    i0 = nf(tu, tu.kids(v)[-1], cenv)
                    if hname not in helpers:
                        helpers.append(hname)
                else:
                    parts = for_parts(tu, node)
                    if parts is None or parts[1] is not None or any(parts[i] is None for i in (0, 2, 3, 4)):
                        und.append('loop %d is not of the form for (init; cond; inc)' % level)
                        break
                    init, _, cond, inc, body = parts
                    vds = [d for d in tu.kids(init) if d.get('kind') == 'VarDecl'] if init.get('kind') == 'DeclStmt' else []
                    if len(vds) != 1 or not tu.kids(vds[0]):
                        und.append('loop %d does not declare exactly one initialised variable' % level)
                        break
                    v = vds[0]
                    i0 = nf(tu, tu.kids(v)[-1], env)
                    cenv, env_next = env, env
                    vref = ('ref', 'VarDecl', v.get('name'))
                want = comp_expected[level] if level < 3 else '?'
                if zero_lower:
                    # the component a loop runs over is the one its bound names (the lower corner is the constant 0)
                    cpre = nf(tu, cond, cenv)
                    cfrom = [x[2] for x in (cpre[2] if cpre[0] == 'op' and isinstance(cpre[2], tuple) else ())
                             if isinstance(x, tuple) and x and x[0] == 'mem' and x[1] == ('ref', 'ParmVarDecl', hi)]
                    if len(cfrom) != 1:
                        und.append('loop %d is not bounded by a component of the size' % level)
                        break
                    i0c = drop_casts(i0)
                    if i0c == ('int', 0):
                        i0 = ('mem', ('ref', 'ParmVarDecl', lo), cfrom[0])
                    elif i0c[0] == 'int':
                        problems.append(('init', 'loop %d starts at %d instead of 0' % (level, i0c[1])))
                        i0 = ('mem', ('ref', 'ParmVarDecl', lo), cfrom[0])
                    elif i0c[0] == 'mem' and i0c[1] == ('ref', 'ParmVarDecl', hi):
                        problems.append(('init', 'loop %d starts at size.%s instead of 0' % (level, i0c[2])))
                        i0 = ('mem', ('ref', 'ParmVarDecl', lo), cfrom[0])
                    else:
                        und.append('loop %d starts at %s' % (level, show(i0)))
                        break
                if not (i0[0] == 'mem' and i0[1] == ('ref', 'ParmVarDecl', lo)):
                    if i0[0] == 'mem' and i0[1] == ('ref', 'ParmVarDecl', hi):
                        problems.append(('init', 'loop %d starts at upper.%s instead of lower.%s' % (level, i0[2], want)))
                    else:
                        und.append('loop %d starts at %s' % (level, show(i0)))
                        break
                comp = i0[2]
                if level < 3 and comp != want:
                    problems.append(('order', 'loop %d (outermost = 0) runs over component %s; the canonical flattened order is '
                                     'outer z, then y, inner x' % (level, comp)))
                c = nf(tu, cond, cenv)
                bound = None
                if c[0] == 'op' and c[1] in ('<', '>', '<=', '>=', '!='):
                    a, b = c[2] if c[1] != '!=' else (c[2] + (None,))[:2]
                    rel = c[1]
                    if b == vref:
                        a, b = b, a
                        rel = {'<': '>', '>': '<', '<=': '>=', '>=': '<=', '!=': '!='}[rel]
                    if a == vref:
                        bound = b
                        if rel == '<=':
                            problems.append(('bound', 'loop over %s includes the upper bound (<=): the region is [lower, upper)' % comp))
                        elif rel == '!=':
                            problems.append(('bound', 'loop over %s tests != : an empty region with lower > upper never terminates' % comp))
                        elif rel != '<':
                            problems.append(('bound', 'loop over %s runs while %s' % (comp, show(c))))
                if bound is None:
                    und.append('loop condition %s' % show(c))
                    break
                if not (bound[0] == 'mem' and bound[1] == ('ref', 'ParmVarDecl', hi)):
                    if bound[0] == 'mem' and bound[1] == ('ref', 'ParmVarDecl', lo):
                        problems.append(('bound', 'loop over %s is bounded by lower.%s' % (comp, bound[2])))
                    else:
                        und.append('loop bound %s' % show(bound))
                        break
                elif bound[2] != comp:
                    problems.append(('component', 'loop variable starts at lower.%s but is bounded by upper.%s' % (comp, bound[2])))
                ic = nf(tu, inc, cenv)
                if not ((ic[0] == 'un' and ic[1] == '++' and ic[2] == vref) or
                        ic == ('op', '+=', (vref, ('int', 1)))):
                    if ic[0] in ('un', 'op') and vref in (ic[2] if isinstance(ic[2], tuple) else ()) or (ic[0] == 'un' and ic[2] == vref):
                        problems.append(('step', 'loop over %s advances by %s, not by one' % (comp, show(ic))))
                    else:
                        und.append('loop increment %s' % show(ic))
                        break
                loopvars[comp] = vref
                level += 1
                node = body
                env = env_next
                while node is not None and node.get('kind') == 'CompoundStmt' and len(tu.kids(node)) == 1:
                    node = tu.kids(node)[0]
                # the inner loop(s) may live in a helper that is called once per iteration of this loop
                hops = 0
                while node is not None and level < 3 and hops < 4:
                    cn = tu.strip(node)
                    if cn is None or cn.get('kind') != 'CallExpr':
                        break
                    if range_helper_level(tu, node, env, level) is not None:
                        break               # a 1D range helper with a lambda body: handled as a loop level above
                    callee = tu.callee_fn(cn)
                    if callee is None or callee['dep'] or tu.body(callee) is None:
                        break
                    _, _, cargs = tu.call_parts(cn)
                    if len(cargs) != len(callee['params']):
                        break
                    env2 = dict(env)
                    for prm, av in zip(callee['params'], cargs):
                        env2[prm['id']] = nf(tu, av, env)
                    inner = tu.kids(tu.body(callee))
                    if len(inner) != 1:
                        break
                    env = env2
                    node = inner[0]
                    helpers.append(strip_targs(callee['q']).split('::')[-1])
                    hops += 1
                    while node is not None and node.get('kind') == 'CompoundStmt' and len(tu.kids(node)) == 1:
                        node = tu.kids(node)[0]
            if not und:
                if level != 3:
                    und.append('loop nest has depth %d (expected 3) and its innermost statement %s is not a helper whose body could be followed'
                               % (level, tu.show(node)[:80] if node is not None else '?'))
                else:
                    call = nf(tu, node, env)
                    ok_call = False
                    if node is not None and node.get('kind') == 'IfStmt':
                        # `if (C) return / break;` as the innermost statement: the traversal is abandoned when C holds.  C may only
                        # depend on the invocation through a helper whose result is a constant; a C that tests what the functor
                        # returned ends the traversal early for callables that return a value.
                        parts_ = [x for x in node.get('inner', []) if isinstance(x, dict) and x.get('kind')]
                        then_ = parts_[1] if len(parts_) == 2 else None
                        while then_ is not None and then_.get('kind') == 'CompoundStmt' and len(tu.kids(then_)) == 1:
                            then_ = tu.kids(then_)[0]
                        if then_ is not None and then_.get('kind') in ('ReturnStmt', 'BreakStmt', 'GotoStmt') and not tu.kids(then_):
                            cnode = tu.strip(parts_[0], casts=True)
                            negs = 0
                            while cnode is not None and cnode.get('kind') == 'UnaryOperator' and cnode.get('opcode') == '!':
                                negs += 1
                                cnode = tu.strip(tu.kids(cnode)[0], casts=True)
                            calls_, ret_ = [], None
                            vh = visit_helper(tu, cnode, env, fun) if cnode is not None and cnode.get('kind') == 'CallExpr' else None
                            if vh is not None:
                                calls_, ret_ = vh
                            else:
                                ret_ = nf(tu, cnode, env) if cnode is not None else None
                                calls_ = find_functor_calls(ret_, fun, [])
                            rc_ = drop_casts(ret_) if ret_ is not None else None
                            if len(calls_) == 1 and rc_ is not None and rc_[0] == 'int' and bool(rc_[1]) == (negs % 2 == 1):
                                call = calls_[0]           # the condition is constantly false: the statement is the plain invocation
                            elif len(calls_) == 1 and rc_ is not None and contains_term(rc_, drop_casts(calls_[0])):
                                problems.append(('early-exit', 'the loop nest is left (%s) when the value returned by the functor converts to '
                                                 '%s: for_each visits every cell of the region whatever the callable returns - with a '
                                                 'callable that returns a value (a counter, a running sum, a pointer) the traversal now '
                                                 'ends at the first cell where that value is %s, and the remaining cells are never visited'
                                                 % (then_.get('kind').replace('Stmt', '').lower(), 'false' if negs % 2 else 'true',
                                                    '0 / null / false' if negs % 2 else 'non-zero')))
                                call = calls_[0]
                    if call[0] == 'op' and call[1] == '()' and len(call[2]) == 2:
                        callee, arg = call[2]
                        if callee == ('ref', 'ParmVarDecl', fun) and arg[0] == 'ctor' and len(arg[2]) == 3:
                            ok_call = True
                            for k, cname in enumerate('xyz'):
                                if arg[2][k] != loopvars.get(cname):
                                    problems.append(('argument', 'functor receives %s as its %s coordinate' % (show(arg[2][k]), cname)))
                    elif call[0] == 'call' and call[2] == ('ref', 'ParmVarDecl', fun):
                        arg = call[3][0] if call[3] else ('?',)
                        if arg[0] == 'ctor' and len(arg[2]) == 3:
                            ok_call = True
                            for k, cname in enumerate('xyz'):
                                if arg[2][k] != loopvars.get(cname):
                                    problems.append(('argument', 'functor receives %s as its %s coordinate' % (show(arg[2][k]), cname)))
                    if not ok_call:
                        und.append('innermost statement %s is not a single functor call with (ix, iy, iz)' % show(call))
            for u in und:
                ctx.undecided(R, inst, u, tu.fn_loc(f))
            seen = set()
            for kind, why in problems:
                if kind not in seen:
                    seen.add(kind)
                    ctx.violation(R, inst, why, tu.fn_loc(f), key=key + kind)
            if not und and not problems:
                ctx.ok(R, inst, 'for z in [%s) / y / x nest, functor(vec3i(ix, iy, iz)) once per cell%s'
                       % ('0, size.z' if zero_lower else 'lower.z, upper.z',
                          ' (inner loop in helper %s)' % ', '.join(helpers) if helpers else ''), tu.fn_loc(f))
        elif len(params) == 2:
            n += 1
            env, stmts, rets = fn_statements(tu, f)
            p0, p1 = ('ref', 'ParmVarDecl', params[0]['name']), ('ref', 'ParmVarDecl', params[1]['name'])
            if len(stmts) != 1 or rets:
                ctx.undecided(R, inst, 'body is not a single forwarding call', tu.fn_loc(f))
                continue
            c = nf(tu, stmts[0], env)
            if not (c[0] == 'call' and c[1] == 'rkcommon::array3D::for_each' and len(c[3]) == 3):
                ctx.undecided(R, inst, 'body %s is not a call of the three-argument for_each' % show(c), tu.fn_loc(f))
                continue
            a0, a1, a2 = c[3]
            isbox = 'box' in params[0]['ct'] or 'range_t' in params[0]['ct']
            if isbox:
                want0, want1 = ('mem', p0, 'lower'), ('mem', p0, 'upper')
            else:
                want0, want1 = None, p0
            zero = a0[0] == 'ctor' and len(a0[2]) in (1, 3) and all(x == ('int', 0) for x in a0[2])
            probs = []
            if isbox:
                if a0 != want0 or a1 != want1:
                    if a0 == want1 and a1 == want0:
                        probs.append('lower and upper of the box are exchanged')
                    elif a0[0] == 'mem' and a1[0] == 'mem' and a0[1] == p0 and a1[1] == p0:
                        probs.append('forwards (%s, %s) instead of (lower, upper)' % (a0[2], a1[2]))
                    else:
                        ctx.undecided(R, inst, 'forwards (%s, %s)' % (show(a0), show(a1)), tu.fn_loc(f))
                        continue
            else:
                if not zero or a1 != want1:
                    if a0[0] == 'ctor' and all(x[0] == 'int' for x in a0[2]) and a1 == want1:
                        probs.append('iteration starts at %s instead of (0, 0, 0)' % show(a0))
                    elif a0 == p0 and a1[0] == 'ctor':
                        probs.append('size is passed as the lower bound')
                    else:
                        ctx.undecided(R, inst, 'forwards (%s, %s)' % (show(a0), show(a1)), tu.fn_loc(f))
                        continue
            if a2 != p1:
                probs.append('does not forward its functor')
            if probs:
                ctx.violation(R, inst, probs[0], tu.fn_loc(f), key=key + 'forward')
            else:
                ctx.ok(R, inst, 'forwards %s' % ('(box.lower, box.upper)' if isbox else '((0,0,0), size)'), tu.fn_loc(f))
    ctx.floor(R, n, 4, 'for_each instantiations in %s (2 loop nests + 2 wrappers; 6 on the pinned tree)' % AST_DRIVER)


def named_decl(tu, n):
    """id of the declaration an expression names, looking through casts and std::forward / std::move"""
    for _ in range(4):
        n = tu.strip(n, casts=True) if n is not None else None
        if n is not None and n.get('kind') == 'CallExpr':
            s_, _, args = tu.call_parts(n)
            if strip_targs(s_.get('q', '')) in ('std::forward', 'std::move') and len(args) == 1:
                n = args[0]
                continue
        break
    if n is not None and n.get('kind') == 'DeclRefExpr':
        return n.get('referencedDecl', {}).get('id')
    return None


def callable_route(tu, c, pidx, depth=0):
    """What happens to the object bound to parameter pidx of the instantiated function c: -> (problems, undecided, invoked).
    The parameter must be of reference type (else the function works on a copy of the caller's object), and the body must invoke it,
    or hand it on by reference, without copying it into a local of object type first."""
    probs, und = [], []
    if c is None or tu.body(c) is None or pidx >= len(c.get('params', [])) or depth > 6:
        return probs, ['callee of the call that receives the functor could not be followed'], False
    prm = c['params'][pidx]
    nargs = len(c['params'])
    if not prm['ct'].rstrip().endswith('&'):
        probs.append(('functor-by-value', nargs, tu.fn_loc(c),
                      'for_each with %d parameters declares its functor parameter `%s` by value: for a callable passed as an lvalue the '
                      'template argument used to deduce to a reference (Functor &&), so the caller\'s own object was invoked; now its type '
                      'is %s, a copy is invoked once per cell and then discarded (it is not returned either), so a callable that keeps its '
                      'result in itself - a function object with members, a named mutable lambda - sees no visit at all, and the overloads '
                      'disagree with each other on the same region' % (nargs, prm['name'], prm['ct'])))
        return probs, und, False
    alias, copies = {prm['id']}, {}
    invoked = False
    for x in tu.walk(tu.body(c)):
        k = x.get('kind')
        if k == 'VarDecl' and tu.kids(x):
            src = named_decl(tu, tu.kids(x)[-1])
            init = tu.strip(tu.kids(x)[-1], casts=True)
            if src is None and init is not None and init.get('kind') in ('CXXConstructExpr', 'CXXTemporaryObjectExpr') and len(tu.kids(init)) == 1:
                src = named_decl(tu, tu.kids(init)[0])
            if src in alias:
                if (x.get('type') or {}).get('qualType', '').rstrip().endswith('&'):
                    alias.add(x['id'])
                else:
                    copies[x['id']] = x
            continue
        if k not in ('CallExpr', 'CXXOperatorCallExpr', 'CXXMemberCallExpr'):
            continue
        s_, obj, args = tu.call_parts(x)
        q = strip_targs(s_.get('q', ''))
        if q in ('std::forward', 'std::move'):
            continue
        if q.endswith('::operator()') and obj is not None:
            d = named_decl(tu, obj)
            if d in alias:
                invoked = True
            elif d in copies:
                probs.append(('functor-copied', nargs, tu.fn_loc(c),
                              'invokes `%s`, a local copy of its functor parameter, instead of the caller\'s object: what the callable '
                              'records in itself is lost' % copies[d].get('name')))
            continue
        for j, av in enumerate(args):
            d = named_decl(tu, av)
            if d in alias or d in copies:
                if d in copies:
                    probs.append(('functor-copied', nargs, tu.fn_loc(c),
                                  'hands `%s`, a local copy of its functor parameter, on to %s instead of the caller\'s object'
                                  % (copies[d].get('name'), q.split('::')[-1])))
                    continue
                c2 = tu.callee_fn(x)
                p2, u2, i2 = callable_route(tu, c2, j, depth + 1)
                probs += p2
                und += u2
                invoked = invoked or i2
    return probs, und, invoked


def check_for_each_callable(ctx, tu):
    """R-C17-4 (callable identity): for_each visits the region *with the caller's callable*.  The driver hands a named object to each
    overload with deduced template arguments; the instance chosen must take it by reference and pass it by reference down to the
    call in the loop nest."""
    R = 'R-C17-4'
    fs = [f for f in tu.functions.values() if f['q'] == 'rkverif_visit_lvalue' and tu.body(f) is not None]
    if not fs:
        ctx.broken('%s: driver function rkverif_visit_lvalue is missing from %s' % (R, AST_DRIVER))
        return
    f = fs[0]
    vid = f['params'][-1]['id']
    n = 0
    for x in tu.walk(tu.body(f)):
        if x.get('kind') != 'CallExpr':
            continue
        s_, _, args = tu.call_parts(x)
        if strip_targs(s_.get('q', '')) != 'rkcommon::array3D::for_each':
            continue
        def names_v(av):
            if named_decl(tu, av) == vid:
                return True
            e_ = tu.strip(av, casts=True)      # a by-value parameter is initialised by a copy construction from v
            return e_ is not None and e_.get('kind') == 'CXXConstructExpr' and len(tu.kids(e_)) == 1 and named_decl(tu, tu.kids(e_)[0]) == vid
        js = [j for j, av in enumerate(args) if names_v(av)]
        if len(js) != 1:
            continue
        n += 1
        c = tu.callee_fn(x)
        inst = 'for_each with %d arguments called with an lvalue callable' % len(args)
        probs, und, invoked = callable_route(tu, c, js[0])
        seen = set()
        for kind, nargs, loc, why in probs:
            if (kind, nargs) not in seen:
                seen.add((kind, nargs))
                ctx.violation(R, inst, why, loc, key='%s|%s|for_each(%d)|%s' % (R, FE, nargs, kind))
        if probs:
            continue
        if und or not invoked:
            ctx.undecided(R, inst, '; '.join(und) or 'no invocation of the functor parameter found along the calls', tu.fn_loc(c) if c else FE)
        else:
            ctx.ok(R, inst, 'the functor parameter is a reference at every level (%s) and the loop nest invokes that object'
                   % (c['params'][js[0]]['ct']), tu.fn_loc(c))
    ctx.floor(R, n, 3, 'for_each overloads called with an lvalue callable by %s' % AST_DRIVER)


def check_iterator_lifetime(ctx, tu):
    """R-C17-4 (lifetime): a multidim_index_iterator that keeps the *address* of a constructor argument must never be built
    from a temporary and then returned: the value of ++it / --it / begin() / end() would refer to a destroyed object"""
    R = 'R-C17-4'
    ITER = 'rkcommon::multidim_index_iterator'
    ctors = [f for f in tu.functions.values() if not f['dep'] and f.get('ctor') and strip_targs(f['q']).startswith(ITER + '::')]
    retains = {}          # ctor id -> set of parameter indices whose address (or reference) is stored in the object
    for _ in range(3):
        for f in ctors:
            top = tu.node(f['id'])
            pidx = {p_['id']: i for i, p_ in enumerate(f['params'])}
            got = set(retains.get(f['id'], set()))
            for x in (top.get('inner', []) if top else []):
                if not (isinstance(x, dict) and x.get('kind') == 'CXXCtorInitializer'):
                    continue
                ks = tu.kids(x)
                if not ks:
                    continue
                e = tu.strip(ks[0], casts=True)
                if x.get('anyInit'):
                    fty = ''
                    # member of pointer / reference type initialised with &param or param (reference member)
                    if e.get('kind') == 'UnaryOperator' and e.get('opcode') == '&':
                        r_ = tu.strip(tu.kids(e)[0], casts=True)
                        if r_.get('kind') == 'DeclRefExpr' and r_.get('referencedDecl', {}).get('id') in pidx:
                            got.add(pidx[r_['referencedDecl']['id']])
                else:
                    # delegating / base constructor: a parameter passed on to a retaining parameter
                    if e.get('kind') in ('CXXConstructExpr', 'CXXTemporaryObjectExpr'):
                        c = tu.callee_fn(e)
                        if c is not None and c['id'] in retains:
                            for j, av in enumerate(tu.kids(e)):
                                r_ = tu.strip(av, casts=True)
                                if j in retains[c['id']] and r_ is not None and r_.get('kind') == 'DeclRefExpr' and \
                                        r_.get('referencedDecl', {}).get('id') in pidx:
                                    got.add(pidx[r_['referencedDecl']['id']])
            if got:
                retains[f['id']] = got
    n = 0
    for f in tu.functions.values():
        if f['dep'] or tu.body(f) is None:
            continue
        q0 = strip_targs(f['q'])
        if not (q0.startswith(ITER + '::') or q0.startswith('rkcommon::multidim_index_sequence::')) or f.get('ctor'):
            continue
        rets = [x for x in tu.walk(tu.body(f)) if x.get('kind') == 'ReturnStmt' and tu.kids(x)]
        if not rets:
            continue
        n += 1
        inst = 'lifetime of the iterator returned by %s %s' % (f['q'].replace('rkcommon::', ''), f['fty'][:50])
        bad = None
        for rt in rets:
            for x in tu.walk(rt):
                if x.get('kind') not in ('CXXConstructExpr', 'CXXTemporaryObjectExpr') or 'id' not in x:
                    continue
                c = tu.callee_fn(x)
                if c is None or c['id'] not in retains:
                    continue
                for j, av in enumerate(tu.kids(x)):
                    if j in retains[c['id']] and av.get('kind') == 'MaterializeTemporaryExpr':
                        src = tu.strip(av, casts=True)
                        bad = (x, av, src, c['params'][j]['name'])
        if bad:
            x, av, src, pname = bad
            ctx.violation(R, inst, 'the returned iterator is constructed from the temporary `%s` (type %s), and its constructor stores the '
                          'address of that argument (parameter `%s`): the temporary is destroyed at the end of the return statement, so '
                          'the value of this call refers to a dead object (*++it, it = ++it, auto next = ++it read freed stack memory)'
                          % (tu.show(src)[:80], av.get('type', {}).get('qualType', '?'), pname), tu.loc(x),
                          key='%s|%s|%s|dangling-temporary' % (R, SEQ, pat(tu, f)))
        elif retains:
            ctx.ok(R, inst, 'no returned iterator is built from a temporary whose address it keeps', tu.fn_loc(f), nontrivial=False)
    if not retains:
        ctx.ok(R, 'iterator constructors', 'no constructor keeps the address of an argument (the iterator owns a copy of the extents)',
               SEQ, nontrivial=False)


def float_atoms(t):
    """atoms that convert between integers and floating point"""
    return [a for a in I.all_atoms(t) if re.match(r'^(fptoui|fptosi|uitofp|sitofp)', a.func.__name__)]


def check_iterators(ctx, ir):
    R = 'R-C17-4'
    n = 0
    key = lambda fn, d: '%s|%s|%s|%s' % (R, SEQ, fn, d)
    cache = {}
    dimoffs2, dimoffs3 = (0, 8), (0, 8, 16)

    def coherence(nd, cur, s, inst, which):
        """cache == reshape(current_index) after a mutator, given that it held before"""
        if nd not in cache:
            return
        outs, sigma, reshape_at = cache[nd]
        c = sym('it[%d]' % cur)
        try:
            written = [str(v) for v in outs if str(v) in s.slots()]
            stale, undec = [], []
            moved = None
            total = sp.Mul(*[sym('it[%d]' % o) for o in layout[nd][0]])
            for p in s.paths:
                ps = s.path_slots(p)
                newcur = I.scalar_term(ps['it[%d]' % cur]) if ('it[%d]' % cur) in ps else c
                if sp.expand(newcur - c) != 0:
                    moved = sp.expand(newcur - c)
                want = reshape_at(newcur)
                for v, w in zip(outs, want):
                    slot = str(v)
                    if slot in ps:
                        got = I.scalar_term(ps[slot]).xreplace(sigma)
                        for g2, t2 in I.cases(got, p.guard):
                            if not I.equal(t2, w) and not I.equal_under(list(g2), t2, w):
                                undec.append('%s becomes %s; cannot relate it to reshape(current_index) = %s' % (slot, t2, w))
                    elif sp.expand(newcur - c) != 0:
                        if slot not in written:
                            stale.append(slot)
                        elif I.consistent(list(p.guard) + [I.ilit('ne', total, 0)]):
                            undec.append('%s is not updated on the path %s' % (slot, ' & '.join(map(str, p.guard))))
            stale = sorted(set(stale))
            if stale:
                ctx.violation(R, inst, '%s moves current_index (by %s) but leaves the cached coordinates %s, which operator* returns, '
                              'unchanged: *it after %s is still the previous coordinate' % (which, moved, ', '.join(stale),
                                                                                        'it++' if 'int' in which else '++it'),
                              SEQ, key=key('multidim_index_iterator::operator++', 'stale-cache'))
            elif undec:
                ctx.undecided(R, inst, 'coordinate cache: ' + undec[0], SEQ)
            else:
                ctx.ok(R, inst + ' keeps the coordinate cache', 'cache == reshape(current_index) is preserved (paths with an empty '
                       'extent excepted)', SEQ)
        except (Undecided, KeyError) as e:
            ctx.undecided(R, inst, 'coordinate cache: %s' % e, SEQ)

    layout = {}
    for nd, dimoffs in ((2, (0, 8)), (3, (0, 8, 16))):
        dims = S('dims', dimoffs)
        total = sp.Mul(*dims)
        # layout of the iterator object (not assumed): position member from current(), extent members from end()
        inst = 'multidim_index_iterator<%d> layout' % nd
        sc = ir.summary(R, inst, 'K_current%d' % nd, SEQ)
        se = ir.summary(R, inst, 'K_end%d' % nd, SEQ)
        if sc is None or se is None:
            continue
        try:
            cs_ = sc.value('ret')
            mm = re.match(r'^it\[(\d+)\]$', str(cs_)) if cs_.is_Symbol else None
            if not mm:
                ctx.undecided(R, inst, 'current() returns %s, not a stored member' % cs_, SEQ)
                continue
            cur = int(mm.group(1))
            itoffs = []
            for k in range(nd):
                hits = sorted(int(re.match(r'^out\[(\d+)\]$', sl_).group(1)) for sl_ in se.slots()
                              if re.match(r'^out\[(\d+)\]$', sl_) and int(re.match(r'^out\[(\d+)\]$', sl_).group(1)) != cur
                              and len(se.values(sl_)) == len(se.paths) and all(t == dims[k] for _, t in se.values(sl_)))
                if not hits:
                    raise Undecided('end() does not store extent %d of the sequence in the iterator' % k)
                itoffs.append(hits[0])
            itoffs = tuple(itoffs)
        except (Undecided, KeyError) as e:
            ctx.undecided(R, inst, str(e), SEQ)
            continue
        layout[nd] = (itoffs, cur)
        # Object invariant: members that begin() and end() - the only sources of iterators - both fill with the same function of the
        # extents (cached strides, products, ...), and that no mutator writes.  Members of an existing iterator are read as that
        # function of its extent members when its operations are compared with reshape().
        inv = {}
        try:
            sb_ = ir.summary(R, inst, 'K_begin%d' % nd, SEQ)
            to_it = {dims[k_]: sym('it[%d]' % itoffs[k_]) for k_ in range(nd)}
            for sl_ in se.slots():
                mo = re.match(r'^out\[(\d+)\]$', sl_)
                if not mo or int(mo.group(1)) in itoffs + (cur,) or sb_ is None or sl_ not in sb_.slots():
                    continue
                ve, vb = se.values(sl_), sb_.values(sl_)
                if len(ve) == len(se.paths) and len(vb) == len(sb_.paths) and len({t for _, t in ve} | {t for _, t in vb}) == 1:
                    t_ = ve[0][1]
                    if t_.free_symbols <= set(dims) and not I.all_atoms(t_):
                        inv['it[%d]' % int(mo.group(1))] = t_.xreplace(to_it)
            for mut in ('K_preinc%d' % nd, 'K_postinc%d' % nd):
                sm_ = ir.summary(R, inst, mut, SEQ) if inv else None
                if sm_ is not None:
                    for k_ in list(inv):
                        if k_ in sm_.slots() and not all(I.equal(t, inv[k_]) for _, t in sm_.values(k_)):
                            del inv[k_]          # a mutator changes it: not an invariant
        except (Undecided, KeyError):
            inv = {}
        iopts = dict(inputs=(lambda nm_, ty_, _inv=dict(inv): _inv.get(nm_))) if inv else {}
        if inv:
            ctx.assume('R-C17-4: members of a multidim_index_iterator<%d> that begin() and end() both derive from the extents (%s) and no '
                       'mutator writes are read as that function of the extents' % (nd, ', '.join('%s = %s' % kv for kv in sorted(inv.items()))))
        for which, want, txt in (('begin', sp.Integer(0), '0'), ('end', total, 'total_indices()')):
            inst = 'index_sequence_%dD::%s' % (nd, which)
            s = ir.summary(R, inst, 'K_%s%d' % (which, nd), SEQ)
            if s is None:
                continue
            n += 1
            try:
                ok = True
                for k, o in enumerate(itoffs):
                    if not I.equal(s.value('out[%d]' % o), dims[k]):
                        ctx.violation(R, inst, 'iterator extent %d is %s, not the extent of the sequence' % (k, s.value('out[%d]' % o)),
                                      SEQ, key=key('multidim_index_sequence::' + which, 'dims'))
                        ok = False
                if ok:
                    decide_equal(ctx, R, inst, SEQ, key('multidim_index_sequence::' + which, 'position'), s.value('out[%d]' % cur), want,
                                 'iterator over the same extents at position ' + txt, 'start position')
            except (Undecided, KeyError) as e:
                ctx.undecided(R, inst, str(e), SEQ)
        # operator* == reshape(current)
        inst = 'multidim_index_iterator<%d>::operator*' % nd
        s = ir.summary(R, inst, 'K_deref%d' % nd, SEQ, **iopts)
        r = ir.summary(R, inst, 'K_reshape%d' % nd, SEQ)
        if s is not None and r is not None:
            n += 1
            try:
                m = {sym('i'): sym('it[%d]' % cur)}
                for k_, o in enumerate(dimoffs):
                    m[sym('dims[%d]' % o)] = sym('it[%d]' % itoffs[k_])
                bad = None
                for o in dimoffs:
                    slot = 'out[%d]' % o
                    if not I.equal(s.value(slot), r.value(slot).xreplace(m)):
                        bad = (slot, s.value(slot), r.value(slot).xreplace(m))
                own = {sym('it[%d]' % o) for o in tuple(itoffs) + (cur,)}
                outs = [s.value('out[%d]' % o) for o in dimoffs]
                if bad and all(v.is_Symbol and str(v).startswith('it[') and v not in own for v in outs) and len(set(outs)) == len(outs):
                    # operator* returns stored members: a cache of the coordinates.  That is right exactly if every mutator keeps
                    # cache == reshape(current_index); the obligations are checked with each mutator below.
                    cache[nd] = (outs, {v: r.value('out[%d]' % o).xreplace(m) for v, o in zip(outs, dimoffs)},
                                 lambda newcur, _r=r, _m=m: [_r.value('out[%d]' % o).xreplace(_m).xreplace({sym('it[%d]' % cur): newcur})
                                                             for o in dimoffs])
                    ctx.ok(R, inst, 'returns the cached coordinates %s; coherence with reshape(current_index) is an obligation of every '
                           'mutator (checked for ++)' % ', '.join(map(str, outs)), SEQ)
                elif bad and (float_atoms(bad[1]) or float_atoms(bad[2])):
                    ctx.undecided(R, inst, 'component %s is computed through floating-point conversions (%s); not comparable with '
                                  'reshape(current) here - see R-C17-3 for reshape itself' % (bad[0], float_atoms(bad[1] + bad[2])[0]), SEQ)
                elif bad:
                    ctx.violation(R, inst, 'component %s is %s, but reshape(current) gives %s' % bad, SEQ,
                                  key=key('multidim_index_iterator::operator*', 'reshape'))
                else:
                    ctx.ok(R, inst, 'equals reshape(current_index) over the iterator\'s own extents', SEQ)
            except (Undecided, KeyError) as e:
                ctx.undecided(R, inst, str(e), SEQ)
        # ++
        c = sym('it[%d]' % cur)
        inst = 'multidim_index_iterator<%d>::operator++()' % nd
        s = ir.summary(R, inst, 'K_preinc%d' % nd, SEQ, **iopts)
        if s is not None:
            n += 1
            try:
                probs = []
                if not I.equal(s.value('it[%d]' % cur), c + 1):
                    probs.append('pre-increment changes the position by %s' % sp.expand(s.value('it[%d]' % cur) - c))
                if not I.equal(s.value('out[%d]' % cur), c + 1):
                    probs.append('pre-increment returns an iterator at current%+d' % int(sp.expand(s.value('out[%d]' % cur) - c))
                                 if sp.expand(s.value('out[%d]' % cur) - c).is_Integer else 'returned position %s' % s.value('out[%d]' % cur))
                for o in itoffs:
                    if not I.equal(s.value('out[%d]' % o), sym('it[%d]' % o)):
                        probs.append('returned iterator has extent %s at offset %d' % (s.value('out[%d]' % o), o))
                if probs:
                    ctx.violation(R, inst, probs[0], SEQ, key=key('multidim_index_iterator::operator++', 'pre'))
                else:
                    ctx.ok(R, inst, 'position + 1, returned iterator at the new position over the same extents', SEQ)
            except (Undecided, KeyError) as e:
                ctx.undecided(R, inst, 'pre-increment not written on every path or slot missing: %s' % e, SEQ)
            coherence(nd, cur, s, inst, 'operator++()')
        inst = 'multidim_index_iterator<%d>::operator++(int)' % nd
        s = ir.summary(R, inst, 'K_postinc%d' % nd, SEQ, **iopts)
        if s is not None:
            n += 1
            try:
                if I.equal(s.value('it[%d]' % cur), c + 1):
                    ctx.ok(R, inst, 'position + 1', SEQ)
                else:
                    ctx.violation(R, inst, 'post-increment changes the position by %s' % sp.expand(s.value('it[%d]' % cur) - c), SEQ,
                                  key=key('multidim_index_iterator::operator++', 'post'))
            except (Undecided, KeyError) as e:
                ctx.violation(R, inst, 'post-increment does not update the position (%s)' % e, SEQ,
                              key=key('multidim_index_iterator::operator++', 'post')) if isinstance(e, KeyError) else \
                    ctx.undecided(R, inst, str(e), SEQ)
            coherence(nd, cur, s, inst, 'operator++(int)')
    # != / == decide on the position when all other members agree
    for name, positive in (('K_eq3', True), ('K_ne3', False)):
        inst = 'multidim_index_iterator<3>::operator%s' % ('==' if positive else '!=')
        s = ir.summary(R, inst, name, SEQ)
        if s is None or 3 not in layout:
            continue
        n += 1
        try:
            cur = layout[3][1]
            seen_syms = set()
            for g, t in s.values('ret'):
                seen_syms |= t.free_symbols
                for l in g:
                    seen_syms |= l.free_symbols
            offs = sorted({int(mo.group(1)) for z in seen_syms for mo in [re.match(r'^(?:it|other)\[(\d+)\]$', str(z))] if mo} - {cur})
            same = [I.ilit('eq', sym('it[%d]' % o), sym('other[%d]' % o)) for o in offs]
            poseq = I.ilit('eq', sym('it[%d]' % cur), sym('other[%d]' % cur))
            probs = []
            for g, t in s.values('ret'):
                for g2, v in I.cases(t, g, assume=same):
                    G = list(g2) + same
                    if not I.consistent(G):
                        continue
                    if v not in (0, 1):
                        raise Undecided('result %s' % v)
                    if not simple_guard(G):
                        raise Undecided('comparison through %s' % ' & '.join(map(str, g2)))
                    says_equal = (v == 1) == positive
                    if says_equal and I.consistent(G + [I.neg(poseq)]):
                        probs.append('reports equality although the positions may differ (case %s)' % ' & '.join(map(str, g2)))
                    if not says_equal and I.consistent(G + [poseq]):
                        probs.append('reports inequality although all other members and the positions are equal (case %s)' % ' & '.join(map(str, g2)))
            if probs:
                ctx.violation(R, inst, probs[0], SEQ, key=key('multidim_index_iterator::operator==', 'position'))
            else:
                ctx.ok(R, inst, 'for equal extents: %s exactly when the positions are equal' % ('true' if positive else 'false'), SEQ)
        except Undecided as e:
            ctx.undecided(R, inst, str(e), SEQ)
    ctx.floor(R, n, 12, 'begin/end/*/++ for 2D and 3D, ==/!= for 3D')


# ============================================================================================
#  R-C17-5  adaptors
# ============================================================================================
def delegate_field(tu, f):
    r = tu.records.get(f.get('recid'))
    if not r:
        return None, None, None
    dele = [x['name'] for x in r['fields'] if 'shared_ptr' in x['ct'] and 'vector' not in x['ct']]
    vecs = [x['name'] for x in r['fields'] if 'shared_ptr' not in x['ct'] and 'vec_t<int, 3' in x['ct']]
    boxes = [x['name'] for x in r['fields'] if 'range_t' in x['ct'] or 'box' in x['ct']]
    slices = [x['name'] for x in r['fields'] if 'vector' in x['ct']]
    return (dele[0] if len(dele) == 1 else None), (vecs + boxes), (slices[0] if len(slices) == 1 else None)


SHIFT_FORM = {}      # class -> ('modulo' | 'wrap', location of get()): which range of the stored shift get() can wrap


def one_period_wrap(e):
    """(i, n) if e is `i < 0 ? i + n : (i >= n ? i - n : i)` (either test first, comparisons in any spelling): the wrap that undoes
    exactly one period"""
    def cond(c, i_hint=None):
        # -> ('neg', i) for i < 0 ; ('big', i, n) for i >= n
        c = drop_casts(c)
        if c[0] == 'un' and c[1] == '!':
            r = cond(c[2])
            return None
        if c[0] != 'op' or c[1] not in ('<', '>', '<=', '>=') or len(c[2]) != 2:
            return None
        a, b = c[2]
        rel = c[1]
        if rel in ('>', '>='):
            a, b, rel = b, a, {'>': '<', '>=': '<='}[rel]
        if rel == '<' and b == ('int', 0):
            return ('neg', a)
        if rel == '<=' and a != ('int', 0) and b != ('int', 0):
            return ('big', b, a)         # n <= i
        return None
    e = drop_casts(e)
    if e[0] != '?:' or len(e) != 4:
        return None
    c1 = cond(e[1])
    if c1 is None:
        return None
    if c1[0] == 'neg':
        i = c1[1]
        inner = drop_casts(e[3])
        if inner[0] == '?:' and len(inner) == 4:
            c2 = cond(inner[1])
            if c2 and c2[0] == 'big' and c2[1] == i:
                n = c2[2]
                if drop_casts(e[2]) == op_nf('+', [i, n]) and drop_casts(inner[2]) == ('op', '-', (i, n)) and drop_casts(inner[3]) == i:
                    return (i, n)
        return None
    i, n = c1[1], c1[2]
    inner = drop_casts(e[3])
    if inner[0] == '?:' and len(inner) == 4:
        c2 = cond(inner[1])
        if c2 and c2[0] == 'neg' and c2[1] == i and drop_casts(e[2]) == ('op', '-', (i, n)) and \
                drop_casts(inner[2]) == op_nf('+', [i, n]) and drop_casts(inner[3]) == i:
            return (i, n)
    return None


def clamp_bounds(c, x):
    """(lo, hi) if the canonical min/max term c is max(min(x, hi), lo) or min(max(x, lo), hi), else None"""
    if not (isinstance(c, tuple) and c and c[0] in ('max', 'min') and len(c[1]) == 2):
        return None
    other = 'min' if c[0] == 'max' else 'max'
    for inner, bound in ((c[1][0], c[1][1]), (c[1][1], c[1][0])):
        if isinstance(inner, tuple) and inner and inner[0] == other and len(inner[1]) == 2 and x in inner[1]:
            b2 = inner[1][0] if inner[1][1] == x else inner[1][1]
            return (bound, b2) if c[0] == 'max' else (b2, bound)
    return None


def member_writes(tu, body):
    """members of *this assigned / incremented in a function body: name -> node of the first store"""
    written = {}

    def note(l_, x):
        l_ = tu.strip(l_) if l_ is not None else None
        if l_ is not None and l_.get('kind') == 'MemberExpr' and tu.kids(l_) and tu.is_this(tu.kids(l_)[0]):
            written.setdefault(l_.get('name'), x)
    for x in tu.walk(body) if body else []:
        k = x.get('kind')
        if k in ('BinaryOperator', 'CompoundAssignOperator') and x.get('opcode', '').endswith('=') and \
                x.get('opcode') not in ('==', '!=', '<=', '>=') and tu.kids(x):
            note(tu.kids(x)[0], x)
        elif k == 'UnaryOperator' and x.get('opcode') in ('++', '--') and tu.kids(x):
            note(tu.kids(x)[0], x)
        elif k == 'CXXOperatorCallExpr' and tu.kids(x):
            q_ = strip_targs(tu.sd(x).get('q', ''))
            if re.search(r'operator(=|\+=|-=|\*=|/=|\+\+|--|\|=|&=)$', q_):
                ks_ = tu.kids(x)
                note(ks_[1] if len(ks_) > 1 else None, x)
    return written


LOCKS = re.compile(r'lock_guard|unique_lock|scoped_lock|mutex|spin_?lock', re.I)


def check_get_is_readonly(ctx, tu, f, R, inst, key):
    """get() is a const query of an immutable view: any number of threads may sample the same object.  A store into a member of
    the object (possible in a const function only for `mutable` members) that is neither atomic nor made under a lock is a data
    race, and a value kept in several members (a key and what it resolved to) is torn by interleaved stores.
    -> True when a violation was reported"""
    body = tu.body(f)
    wr = member_writes(tu, body)
    if not wr:
        return False
    rec = tu.records.get(f.get('recid')) or {}
    ftype = {f_['name']: f_.get('type') or f_.get('ct') or '' for f_ in rec.get('fields', [])}
    plain = sorted(m for m in wr if 'atomic' not in ftype.get(m, ''))
    locked = any(LOCKS.search((x.get('type') or {}).get('qualType', '')) for x in tu.walk(body) if x.get('kind') == 'VarDecl')
    if not plain or locked:
        ctx.undecided(R, inst, 'get() stores into the member(s) %s under a lock / as atomics: not decided' % ', '.join(sorted(wr)), tu.fn_loc(f))
        return True
    # the stored members must also feed the result (a cache); a member that is only written (a counter) cannot change the cell returned
    lhs_ids = set()
    reads = set()
    for x in tu.walk(body):
        k = x.get('kind')
        ks_ = tu.kids(x)
        l_ = None
        if k in ('BinaryOperator', 'CompoundAssignOperator') and x.get('opcode', '').endswith('=') and \
                x.get('opcode') not in ('==', '!=', '<=', '>=') and ks_:
            l_ = tu.strip(ks_[0])
        elif k == 'UnaryOperator' and x.get('opcode') in ('++', '--') and ks_:
            l_ = tu.strip(ks_[0])
        elif k == 'CXXOperatorCallExpr' and len(ks_) > 1 and re.search(r'operator(=|\+=|-=|\*=|/=|\+\+|--|\|=|&=)$',
                                                                       strip_targs(tu.sd(x).get('q', ''))):
            l_ = tu.strip(ks_[1])
        if l_ is not None and l_.get('kind') == 'MemberExpr':
            lhs_ids.add(l_.get('id'))
    for x in tu.walk(body):
        if x.get('kind') == 'MemberExpr' and x.get('name') in plain and tu.kids(x) and tu.is_this(tu.kids(x)[0]) and x.get('id') not in lhs_ids:
            reads.add(x.get('name'))
    if not reads:
        ctx.undecided(R, inst, 'get() stores into the member(s) %s but never reads them: not a cache, effect on the result not decided'
                      % ', '.join(plain), tu.fn_loc(f))
        return True
    cls = inst.split('<')[0]
    ctx.violation(R, inst, 'the const query get() stores into the member%s %s of its own object (mutable, not atomic, no lock held): the '
                  'views are immutable and are sampled by several threads at once, so the stores race%s; get() has to compute the cell '
                  'from its argument and the constructor-time members only'
                  % ('s' if len(plain) > 1 else '', ', '.join('`%s`' % m for m in plain),
                     ' - with the remembered result spread over %d members, a reader can pair `%s` written by one thread with `%s` written '
                     'by another and then returns the cell of a different %s than its definition names, also for every later call that '
                     'hits the cached key' % (len(plain), plain[0], plain[1], 'slice' if cls == 'MultiSliceArray3D' else 'location')
                     if len(plain) > 1 else ''),
                  tu.loc(wr[plain[0]]), key=key + 'unsynchronised-cache')
    return True


FLOAT_TYPES = {'float': 24, 'double': 53, 'long double': 64}          # significand bits
INT_TYPES_ = {'char': (8, True), 'signed char': (8, True), 'unsigned char': (8, False), 'short': (16, True), 'unsigned short': (16, False),
              'int': (32, True), 'unsigned int': (32, False), 'long': (64, True), 'unsigned long': (64, False),
              'long long': (64, True), 'unsigned long long': (64, False), 'bool': (1, False)}
VALUE_CASTS = ('IntegralCast', 'IntegralToFloating', 'FloatingToIntegral', 'FloatingCast', 'IntegralToBoolean', 'FloatingToBoolean')


def scalar_type(ct):
    ct = re.sub(r'\b(const|volatile)\b', '', ct or '').replace('&', '').strip()
    ct = re.sub(r'\s+', ' ', ct)
    return ct if ct in FLOAT_TYPES or ct in INT_TYPES_ else None


def represents(T, S):
    """can the scalar type T hold every value of the scalar type S exactly?  (None: not both recognised scalar types)"""
    if T is None or S is None:
        return None
    if T == S:
        return True
    if S in INT_TYPES_:
        sb, ss = INT_TYPES_[S]
        vb = sb - 1 if ss else sb
        if T in INT_TYPES_:
            tb, ts = INT_TYPES_[T]
            return (tb - 1 if ts else tb) >= vb and (ts or not ss)
        return FLOAT_TYPES[T] >= vb
    if T in FLOAT_TYPES:
        return FLOAT_TYPES[T] >= FLOAT_TYPES[S]
    return False


def reaches_get(tu, n, env, depth=0):
    if n is None or depth > 12:
        return False
    for x in tu.walk(n):
        if x.get('kind') == 'CXXMemberCallExpr' and strip_targs(tu.sd(x).get('q', '')).endswith('Array3D::get'):
            return True
        if x.get('kind') == 'DeclRefExpr' and x.get('referencedDecl', {}).get('id') in env:
            if reaches_get(tu, env[x['referencedDecl']['id']], env, depth + 1):
                return True
    return False


def helper_result(tu, c, args, env):
    """(return expression, env) of a small non-dependent helper: parameters bound to the argument expressions, initialised locals
    recorded, one return at the end; None for any other body"""
    body = tu.body(c) if c is not None else None
    if body is None or c['dep'] or len(c.get('params', [])) != len(args):
        return None
    env = dict(env)
    for prm, av in zip(c['params'], args):
        env[prm['id']] = av
    sts = tu.kids(body)
    for i, st in enumerate(sts):
        if st.get('kind') == 'DeclStmt':
            for d in tu.kids(st):
                if d.get('kind') != 'VarDecl' or not tu.kids(d):
                    return None
                env[d['id']] = tu.kids(d)[-1]
        elif st.get('kind') == 'ReturnStmt' and i == len(sts) - 1 and tu.kids(st):
            return tu.kids(st)[0], env
        elif st.get('kind') in ('ParenExpr', 'NullStmt'):
            continue
        else:
            return None
    return None


def conversion_chain(tu, n, env):
    """Follow the value of expression n down to the Array3D::get call it is computed from.
    -> (get call node, [scalar types the value is converted to, innermost first], [clamping calls passed], reason it stopped | None)"""
    types, clamps = [], []
    for _ in range(200):
        if n is None:
            return None, types, clamps, 'empty expression'
        k = n.get('kind')
        ks = tu.kids(n)
        if k in ('ExprWithCleanups', 'MaterializeTemporaryExpr', 'ParenExpr', 'CXXBindTemporaryExpr', 'ConstantExpr') and ks:
            n = ks[0]
            continue
        if k in ('ImplicitCastExpr', 'CStyleCastExpr', 'CXXStaticCastExpr', 'CXXFunctionalCastExpr') and ks:
            ck = n.get('castKind')
            if ck in VALUE_CASTS:
                ty = scalar_type(tu.sd(n).get('ct') or (n.get('type') or {}).get('qualType'))
                if ty is None:
                    return None, types, clamps, 'conversion to %s' % (tu.sd(n).get('ct') or '?')
                types.append(ty)
            elif ck not in ('NoOp', 'LValueToRValue'):
                return None, types, clamps, 'cast of kind %s' % ck
            n = ks[-1]
            continue
        if k == 'DeclRefExpr':
            d = n.get('referencedDecl', {}).get('id')
            if d in env:
                n = env[d]
                continue
            return None, types, clamps, 'reads %s' % n.get('referencedDecl', {}).get('name')
        if k == 'CXXMemberCallExpr' and strip_targs(tu.sd(n).get('q', '')).endswith('Array3D::get'):
            types.reverse()
            return n, types, clamps, None
        if k == 'CallExpr':
            s_, _, args = tu.call_parts(n)
            q = strip_targs(s_.get('q', ''))
            if q in MINMAX or q == 'rkcommon::math::clamp':
                dep = [a_ for a_ in args if reaches_get(tu, a_, env)]
                if len(dep) != 1 or (q == 'rkcommon::math::clamp' and dep[0] is not args[0]):
                    return None, types, clamps, 'call of %s' % q
                clamps.append(q.split('::')[-1])
                n = dep[0]
                continue
            hr = helper_result(tu, tu.callee_fn(n), args, env)
            if hr is None:
                return None, types, clamps, 'call of %s' % q
            n, env = hr
            continue
        return None, types, clamps, 'expression of kind %s' % k
    return None, types, clamps, 'too deep'


def check_accessor_get(ctx, tu, f, R, inst, key, act, where):
    """Array3DAccessor<in_t, out_t>::get(where) is (out_t)actual->get(where): the cell converted once, directly.  A conversion that
    first passes through a type unable to hold every in_t value (and other than out_t itself) returns a different value for the cells
    that type cannot hold."""
    GET = 'rkcommon::array3D::Array3D::get'
    loc = tu.fn_loc(f)
    hr = helper_result(tu, f, [None] * len(f.get('params', [])), {})
    if hr is None:
        ctx.undecided(R, inst, 'body is not a return preceded by initialised locals', loc)
        return
    ret, env = hr
    env = {k_: v_ for k_, v_ in env.items() if v_ is not None}
    g, types, clamps, why = conversion_chain(tu, ret, env)
    if g is None:
        ctx.undecided(R, inst, 'returns %s: the value is not traced back to a get() of another array (%s)' % (tu.show(ret)[:80], why), loc)
        return
    call = drop_casts(nf(tu, g, {}))
    if not (call[0] == 'call' and call[1] == GET and call[2] == act and call[3] == (where,)):
        ctx.undecided(R, inst, 'converts %s' % show(call), loc)
        return
    in_t = scalar_type(tu.sd(g).get('ct') or (g.get('type') or {}).get('qualType'))
    out_t = scalar_type(f['fty'].split('(')[0])
    if in_t is None or out_t is None:
        ctx.undecided(R, inst, 'cell types %s -> %s are not both arithmetic types' % (tu.sd(g).get('ct'), f['fty'].split('(')[0].strip()), loc)
        return
    seq = list(types)
    if not seq or seq[-1] != out_t:
        seq.append(out_t)
    bad = None
    for i, T in enumerate(seq[:-1]):
        if represents(T, in_t):
            continue
        if T == out_t and all(represents(T2, out_t) for T2 in seq[i + 1:]):
            break
        bad = T
        break
    if bad is not None:
        bits = lambda T: ('%d significant bits' % FLOAT_TYPES[T]) if T in FLOAT_TYPES else \
            ('%d value bits' % (INT_TYPES_[T][0] - (1 if INT_TYPES_[T][1] else 0)))
        ex = ''
        if in_t in INT_TYPES_ and bad in FLOAT_TYPES:
            ex = ' (e.g. the cell %d becomes %d; the largest values round up past the range of the source type)' \
                 % (2 ** FLOAT_TYPES[bad] + 1, 2 ** FLOAT_TYPES[bad])
        elif in_t in FLOAT_TYPES and bad in INT_TYPES_:
            ex = ' (the fraction is dropped and large magnitudes do not fit)'
        ctx.violation(R, inst, 'the cell (%s) is converted to %s before it is converted to %s: %s has %s, %s needs %s, so every cell value '
                      'that %s cannot hold is altered on the way%s; the accessor is the single conversion (out_t)actual->get(where)%s'
                      % (in_t, bad, out_t, bad, bits(bad), in_t, bits(in_t), bad, ex,
                         ' - chain: %s' % ' -> '.join([in_t] + seq) if len(seq) > 2 else ''), loc, key=key + 'lossy-intermediate')
    elif clamps:
        ctx.undecided(R, inst, 'the cell passes through %s on its way (%s): a saturating conversion, equal to the cast only for cells inside '
                      'the bounds - not decided' % (' / '.join(clamps), ' -> '.join([in_t] + seq)), loc)
    else:
        ctx.ok(R, inst, 'conversion of actual->get(where)%s' % (' (%s)' % ' -> '.join([in_t] + seq) if len(seq) > 1 else ''), loc)


def check_adaptors(ctx, tu):
    R = 'R-C17-5'
    n = 0
    GET = 'rkcommon::array3D::Array3D::get'

    def one_return(f, inst):
        env, stmts, rets = fn_statements(tu, f)
        if not stmts and len(rets) == 1:
            return nf(tu, rets[0], env)
        # local declarations and conditional assignments in front of the return: evaluate them into one term
        b_ = tu.body(f)
        sts_ = []
        for st in (tu.kids(b_) if b_ else []):
            if st.get('kind') in ('ParenExpr', 'NullStmt'):
                x_ = tu.strip(st)
                if x_ is not None and x_.get('kind') == 'ConditionalOperator':
                    continue             # assert(...)
            sts_.append(st)
        r_ = eval_body(tu, sts_, {}, 0) if sts_ else None
        if r_ is None:
            ctx.undecided(R, inst, 'body is not a return preceded by declarations / conditional assignments', tu.fn_loc(f))
        return r_

    for f in find_fns(tu, r'^rkcommon::array3D::(IndexShiftedArray3D|SubBoxArray3D|Array3DAccessor|MultiSliceArray3D|ActualArray3D)<.*>::'
                          r'(get|set|size|numElements)$'):
        cls = strip_targs(f['q']).split('::')[-2]
        mname = f['q'].split('::')[-1]
        inst = f['q'].replace('rkcommon::array3D::', '')
        key = '%s|%s|%s::%s|' % (R, A3D, cls, mname)
        dele, vecs, slices = delegate_field(tu, f)
        this = ('this',)
        act = ('deref', ('mem', this, dele)) if dele else None
        where = ('ref', 'ParmVarDecl', f['params'][0]['name']) if f['params'] else None

        def sizes():
            out = [('call', 'rkcommon::array3D::%s::size' % cls, this, ())]
            if act:
                out.append(('call', 'rkcommon::array3D::Array3D::size', act, ()))
            return out

        if cls == 'ActualArray3D':
            if mname == 'set':
                n += 1
                env, stmts, rets = fn_statements(tu, f)
                # bookkeeping calls on *this that do not touch the cell storage (e.g. a change notification) may accompany the store
                def bookkeeping(st):
                    e_ = tu.strip(st)
                    if e_ is None or e_.get('kind') != 'CXXMemberCallExpr':
                        return False
                    _, o_, _a = tu.call_parts(e_)
                    c_ = tu.callee_fn(e_)
                    if o_ is None or not tu.is_this(o_) or c_ is None or tu.body(c_) is None:
                        return False
                    return not any(x_.get('kind') == 'MemberExpr' and x_.get('name') == 'value' for x_ in tu.walk(tu.body(c_)))
                stmts = [st for st in stmts if not bookkeeping(st)]
                if len(stmts) != 1 or rets:
                    ctx.undecided(R, inst, 'body is not a single assignment', tu.fn_loc(f))
                    continue
                t = drop_casts(nf(tu, stmts[0], env))
                val = ('ref', 'ParmVarDecl', f['params'][1]['name'])
                szs = sizes() + [('mem', this, 'dims')]
                good = [('op', '=', (('index', ('mem', this, 'value'), ('call', 'rkcommon::array3D::longIndex', None, (where, z))), val)) for z in szs]
                good += [('op', '=', (('index', ('mem', this, 'value'), ('call', 'rkcommon::array3D::ActualArray3D::indexOf', this, (where,))), val))]
                swapped = [('op', '=', (('index', ('mem', this, 'value'), ('call', 'rkcommon::array3D::longIndex', None, (z, where))), val)) for z in szs]
                # indexOf(where) appears inlined (non-virtual single-return member); its formula is decided by R-C17-3
                for g in tu.functions.values():
                    if g.get('recid') == f.get('recid') and g['q'].endswith('::indexOf') and len(g['params']) == 1:
                        e2, st2, rt2 = fn_statements(tu, g)
                        if not st2 and len(rt2) == 1:
                            e2[g['params'][0]['id']] = where
                            good.append(('op', '=', (('index', ('mem', this, 'value'), drop_casts(nf(tu, rt2[0], e2))), val)))
                if t in good:
                    ctx.ok(R, inst, 'value[longIndex(where, size())] = t', tu.fn_loc(f))
                elif t in swapped:
                    ctx.violation(R, inst, 'writes value[longIndex(size(), where)]: coordinate and extent are exchanged', tu.fn_loc(f), key=key + 'index')
                elif t[0] == 'op' and t[1] == '=' and t[2][0][0] == 'index' and t[2][0][2] in (where, ('mem', where, 'x')):
                    ctx.violation(R, inst, 'writes value[%s]: not the linear index of the cell' % show(t[2][0][2]), tu.fn_loc(f), key=key + 'index')
                else:
                    ctx.undecided(R, inst, 'statement %s not recognised' % show(t), tu.fn_loc(f))
            continue
        if mname == 'set':
            continue        # the adaptors' set() throw; not part of the property
        n += 1
        if mname == 'get' and check_get_is_readonly(ctx, tu, f, R, inst, key):
            continue
        if mname == 'get' and cls == 'Array3DAccessor':
            check_accessor_get(ctx, tu, f, R, inst, key, act, where)
            continue
        t = one_return(f, inst)
        if t is None:
            continue
        tc = drop_casts(t)
        loc = tu.fn_loc(f)
        if mname == 'numElements':
            if cls == 'SubBoxArray3D':
                ctx.ok(R, inst, 'computed from clipBox.size(); value decided by R-C17-3', loc, nontrivial=False)
            elif cls == 'MultiSliceArray3D':
                want = op_nf('*', [('call', 'rkcommon::array3D::Array3D::numElements', ('deref', ('index', ('mem', this, slices), ('int', 0))), ()),
                                   ('call', 'std::vector::size', ('mem', this, slices), ())])
                if tc == want:
                    ctx.ok(R, inst, 'slice[0]->numElements() * slice.size()', loc)
                else:
                    ctx.undecided(R, inst, 'returns %s' % show(t), loc)
            else:
                want = ('call', 'rkcommon::array3D::Array3D::numElements', act, ())
                if tc == want:
                    ctx.ok(R, inst, 'delegates to actual->numElements()', loc)
                else:
                    ctx.undecided(R, inst, 'returns %s' % show(t), loc)
            continue
        if mname == 'size':
            if cls in ('IndexShiftedArray3D', 'Array3DAccessor'):
                if tc == ('call', 'rkcommon::array3D::Array3D::size', act, ()):
                    ctx.ok(R, inst, 'delegates to actual->size()', loc)
                else:
                    ctx.undecided(R, inst, 'returns %s' % show(t), loc)
            elif cls == 'SubBoxArray3D':
                box = [v for v in vecs if v]
                if any(tc == ('call', 'rkcommon::math::range_t::size', ('mem', this, b), ()) for b in box):
                    ctx.ok(R, inst, 'clipBox.size()', loc)
                else:
                    ctx.undecided(R, inst, 'returns %s' % show(t), loc)
            else:
                s0 = ('call', 'rkcommon::array3D::Array3D::size', ('deref', ('index', ('mem', this, slices), ('int', 0))), ())
                want = ('ctor', 'rkcommon::math::vec_t', (('mem', s0, 'x'), ('mem', s0, 'y'), ('call', 'std::vector::size', ('mem', this, slices), ())))
                if tc == want:
                    ctx.ok(R, inst, '(slice[0]->size().x, slice[0]->size().y, slice.size())', loc)
                else:
                    ctx.undecided(R, inst, 'returns %s' % show(t), loc)
            continue
        # ---- get
        call = tc
        if not (call[0] == 'call' and call[1] == GET and len(call[3]) == 1):
            ctx.undecided(R, inst, 'returns %s, not a get() of another array' % show(t), loc)
            continue
        target, arg = call[2], call[3][0]
        if cls == 'IndexShiftedArray3D':
            shift = [('mem', this, v) for v in vecs]
            good = [('op', '%', (op_nf('+', [where, z, sh]), z2)) for z in sizes() for z2 in sizes() for sh in shift]
            if target != act:
                ctx.undecided(R, inst, 'delegates to %s' % show(target), loc)
            elif arg in good:
                SHIFT_FORM[cls] = ('modulo', loc)
                ctx.ok(R, inst, 'actual->get((where + size() + shift) % size())', loc)
            elif any(arg == ('op', '%', (op_nf('+', [where, sh]), z)) for z in sizes() for sh in shift):
                ctx.violation(R, inst, 'reads cell (where + shift) % size(): negative for a negative shift, so the wrapped cell is '
                              'clamped instead of wrapped', loc, key=key + 'wrap')
            elif any(arg == op_nf('+', [where, z, sh]) or arg == op_nf('+', [where, sh]) for z in sizes() for sh in shift):
                ctx.violation(R, inst, 'reads cell %s without wrapping it into the extent' % show(arg), loc, key=key + 'wrap')
            elif any(arg == ('op', '%', (('op', '-', (op_nf('+', [where, z]), sh)), z2)) for z in sizes() for z2 in sizes() for sh in shift):
                ctx.violation(R, inst, 'shifts in the opposite direction: %s' % show(arg), loc, key=key + 'direction')
            elif arg == where:
                ctx.violation(R, inst, 'ignores the shift', loc, key=key + 'shift')
            elif arg[0] == 'ctor' and len(arg[2]) == 3 and all(one_period_wrap(x) for x in arg[2]):
                wr = [one_period_wrap(x) for x in arg[2]]
                good_i = [any(wr[j][0] == ('mem', op_nf('+', [where, sh]), c_) for sh in shift) for j, c_ in enumerate('xyz')]
                good_n = [any(wr[j][1] == ('mem', z, c_) for z in sizes()) for j, c_ in enumerate('xyz')]
                if all(good_i) and all(good_n):
                    SHIFT_FORM[cls] = ('wrap', loc)
                    ctx.ok(R, inst, 'actual->get(wrap(where + shift)) with a single conditional +-size per axis: the wrap of one period, '
                           'valid for -size <= shift <= size (the stored shift is checked against that range)', loc)
                else:
                    ctx.undecided(R, inst, 'one-period wrap of %s by %s' % (show(wr[0][0]), show(wr[0][1])), loc)
            else:
                ctx.undecided(R, inst, 'reads cell %s' % show(arg), loc)
        elif cls == 'SubBoxArray3D':
            boxes = [v for v in vecs]
            lows = [('mem', ('mem', this, b), 'lower') for b in boxes]
            ups = [('mem', ('mem', this, b), 'upper') for b in boxes]
            if target != act:
                ctx.undecided(R, inst, 'delegates to %s' % show(target), loc)
            elif any(arg == op_nf('+', [where, lo]) for lo in lows):
                ctx.ok(R, inst, 'actual->get(where + clipBox.lower)', loc)
            elif any(arg == op_nf('+', [where, up]) for up in ups):
                ctx.violation(R, inst, 'offsets by clipBox.upper instead of clipBox.lower', loc, key=key + 'offset')
            elif any(arg == ('op', '-', (where, lo)) for lo in lows):
                ctx.violation(R, inst, 'subtracts clipBox.lower instead of adding it', loc, key=key + 'offset')
            elif arg == where:
                ctx.violation(R, inst, 'ignores the clip box origin', loc, key=key + 'offset')
            else:
                ctx.undecided(R, inst, 'reads cell %s' % show(arg), loc)
        elif cls == 'Array3DAccessor':
            if target == act and arg == where:
                ctx.ok(R, inst, 'conversion of actual->get(where)', loc)
            else:
                ctx.undecided(R, inst, 'returns %s' % show(t), loc)
        elif cls == 'MultiSliceArray3D':
            nsl = ('call', 'std::vector::size', ('mem', this, slices), ())
            z = ('mem', where, 'z')
            clampz = ('call', 'rkcommon::math::clamp', None, (z, ('int', 0), ('op', '-', (nsl, ('int', 1)))))
            want_t = ('deref', ('index', ('mem', this, slices), clampz))
            xy0 = ('ctor', 'rkcommon::math::vec_t', (('mem', where, 'x'), ('mem', where, 'y'), ('int', 0)))
            if target != want_t and mm(target) == mm(want_t):
                target = want_t          # the same clamp spelled with min / max / conditional assignments (possibly in a helper)
            if target == want_t and arg == xy0:
                ctx.ok(R, inst, 'slice[clamp(where.z, 0, slice.size() - 1)]->get(vec3i(where.x, where.y, 0))', loc)
            elif target == want_t and arg == where:
                ctx.violation(R, inst, 'passes `where` (with its z) on to the slice instead of vec3i(where.x, where.y, 0): the cell read is '
                              '(x, y, z) of slice z, which is (x, y, 0) only if the slice happens to collapse z itself', loc, key=key + 'cell')
            elif target[0] == 'deref' and target[1][0] == 'index' and target[1][1] == ('mem', this, slices) and \
                    clamp_bounds(mm(target[1][2]), mm(z)) not in (None, (('int', 0), mm(('op', '-', (nsl, ('int', 1)))))):
                lo_, hi_ = clamp_bounds(mm(target[1][2]), mm(z))
                ctx.violation(R, inst, 'clamps the slice index to [%s, %s] instead of [0, slice.size() - 1]' % (show(lo_), show(hi_)), loc,
                              key=key + 'clamp')
            elif target[0] == 'deref' and target[1][0] == 'index' and target[1][1] == ('mem', this, slices) and \
                    isinstance(mm(target[1][2]), tuple) and mm(target[1][2])[0] in ('min', 'max') and len(mm(target[1][2])[1]) == 2 and \
                    mm(z) in mm(target[1][2])[1] and clamp_bounds(mm(target[1][2]), mm(z)) is None:
                one = mm(target[1][2])
                other_ = one[1][0] if one[1][1] == mm(z) else one[1][1]
                ctx.violation(R, inst, 'the slice index %s(where.z, %s) is bounded on one side only: %s' % (one[0], show(other_),
                              'a negative z indexes before the first slice' if one[0] == 'min' else 'a z beyond the stack indexes past the last slice'),
                              loc, key=key + 'clamp')
            elif target[0] == 'deref' and target[1][0] == 'index' and target[1][1] == ('mem', this, slices):
                ix = target[1][2]
                if ix == z:
                    ctx.violation(R, inst, 'indexes slice[where.z] without clamping', loc, key=key + 'clamp')
                elif ix[0] == 'call' and ix[1] == 'rkcommon::math::clamp' and ix[3][0] == z and (ix[3][1] != ('int', 0) or ix[3][2] != ('op', '-', (nsl, ('int', 1)))):
                    ctx.violation(R, inst, 'clamps the slice index to [%s, %s] instead of [0, slice.size() - 1]'
                                  % (show(ix[3][1]), show(ix[3][2])), loc, key=key + 'clamp')
                elif ix[0] == 'call' and ix[1] == 'rkcommon::math::clamp' and ix[3][0] in (('mem', where, 'x'), ('mem', where, 'y')):
                    ctx.violation(R, inst, 'selects the slice by %s instead of where.z' % show(ix[3][0]), loc, key=key + 'axis')
                elif target == want_t and arg[0] == 'ctor' and len(arg[2]) == 3 and set(arg[2][:2]) == {('mem', where, 'x'), ('mem', where, 'y')} \
                        and arg[2][0] != ('mem', where, 'x'):
                    ctx.violation(R, inst, 'passes (%s) to the slice: x and y are exchanged' % ', '.join(show(a) for a in arg[2]), loc, key=key + 'axis')
                else:
                    ctx.undecided(R, inst, 'returns %s' % show(t), loc)
            else:
                ctx.undecided(R, inst, 'returns %s' % show(t), loc)
    ctx.floor(R, n, 14, 'get/size/numElements of 4 adaptors + ActualArray3D::set (x element types)')


# ============================================================================================
#  R-C17-5 (continued): the shift stored by IndexShiftedArray3D is inside the period get() can wrap
# ============================================================================================
INF_PERIODS = 10 ** 9


def shift_range(tu, n, env, field, depth=0):
    """(lo, hi): the value of a vec3i expression as a multiple of size(), component-wise bounds; a user-supplied shift
    parameter and the stored shift of another shifted array are taken to lie in [-1, 1] * size.  None = not recognised."""
    n = tu.strip(n, casts=True)
    if n is None or depth > 12:
        return None
    k = n.get('kind')
    ks = tu.kids(n)
    R = lambda x, e=env: shift_range(tu, x, e, field, depth + 1)
    if k == 'DeclRefExpr':
        rd = n.get('referencedDecl', {})
        if rd.get('id') in env:
            return env[rd['id']]
        if rd.get('kind') == 'ParmVarDecl' and 'vec_t<int, 3' in tu.sd(n).get('ct', ''):
            return (-1, INF_PERIODS)      # a user-supplied shift: not below -size (documented), unbounded above
        d = tu.node(rd.get('id'))
        if d is not None and d.get('kind') == 'VarDecl' and tu.kids(d):
            return R(tu.kids(d)[-1])
        return None
    if k == 'MemberExpr':
        return (-1, 1) if n.get('name') == field else None
    if k == 'IntegerLiteral':
        return (0, 0) if n.get('value') == '0' else None
    if k in ('CXXConstructExpr', 'CXXTemporaryObjectExpr', 'InitListExpr'):
        args = [x for x in ks if x.get('kind') != 'CXXDefaultArgExpr']
        if len(args) == 1:
            return R(args[0])
        if args and all(tu.strip(x, casts=True).get('kind') == 'IntegerLiteral' and tu.strip(x, casts=True).get('value') == '0' for x in args):
            return (0, 0)
        return None
    if k == 'ConditionalOperator':
        a, b = R(ks[1]), R(ks[2])
        return None if a is None or b is None else (min(a[0], b[0]), max(a[1], b[1]))
    if k in ('CXXOperatorCallExpr', 'CallExpr', 'CXXMemberCallExpr'):
        sd, obj, args = tu.call_parts(n)
        name = strip_targs(sd.get('q', '')).split('::')[-1]
        allargs = ([obj] if obj is not None and k == 'CXXOperatorCallExpr' else []) + list(args)
        if k == 'CXXOperatorCallExpr' and name in ('operator+', 'operator-') and len(allargs) == 2:
            a, b = R(allargs[0]), R(allargs[1])
            if a is None or b is None:
                return None
            return (a[0] + b[0], a[1] + b[1]) if name == 'operator+' else (a[0] - b[1], a[1] - b[0])
        if k == 'CXXOperatorCallExpr' and name == 'operator-' and len(allargs) == 1:
            a = R(allargs[0])
            return None if a is None else (-a[1], -a[0])
        if k == 'CXXOperatorCallExpr' and name == 'operator%' and len(allargs) == 2:
            d = tu.strip(allargs[1], casts=True)
            if d is not None and strip_targs(tu.sd(d).get('q', '')).endswith('::size'):
                return (-1, 1)         # remainder of a division by size(): strictly inside one period
            return None
        c = tu.callee_fn(n)
        if c is not None and not c['dep'] and tu.body(c) is not None and len(c.get('params', [])) == len(args):
            env2 = {}
            for prm, av in zip(c['params'], args):
                r = R(av)
                if r is not None:
                    env2[prm['id']] = r
            rets = [x for x in tu.walk(tu.body(c)) if x.get('kind') == 'ReturnStmt' and tu.kids(x)]
            out = None
            for rt in rets:
                r = shift_range(tu, tu.kids(rt)[0], env2, field, depth + 1)
                if r is None:
                    return None
                out = r if out is None else (min(out[0], r[0]), max(out[1], r[1]))
            return out
        return None
    return None


def check_adaptor_ownership(ctx, tu):
    """R-C17-5 (ownership): an adaptor names cells of the arrays it was built from; it must hold them itself (shared_ptr / a copy of
    the slice table).  A member of reference type is bound to an object of the caller: when the caller changes or destroys that
    object the adaptor names other cells, or none."""
    R = 'R-C17-5'
    n = 0
    seen = set()
    for r in tu.records.values():
        cls = (r.get('tmpl') or r.get('q') or '').split('::')[-1]
        if cls not in ('IndexShiftedArray3D', 'SubBoxArray3D', 'Array3DAccessor', 'MultiSliceArray3D', 'Array3DRepeater') or not r.get('fields'):
            continue
        if r.get('q') in seen:
            continue
        seen.add(r.get('q'))
        n += 1
        inst = 'ownership of the members of %s' % cls
        refs = [f_ for f_ in r['fields'] if f_['ct'].rstrip().endswith('&')]
        ptrs = [f_ for f_ in r['fields'] if f_['ct'].rstrip().endswith('*')]
        if refs:
            f_ = refs[0]
            ctx.violation(R, inst, 'member `%s` has the reference type `%s`: the adaptor refers to an object of whoever constructed it '
                          'instead of owning it - if that object is modified, reused or destroyed after construction the adaptor silently '
                          'names other cells (or dangles); the adaptors hold what they wrap by value (shared_ptr, a copy of the table)'
                          % (f_['name'], f_['type']), A3D, key='%s|%s|%s|reference-member' % (R, A3D, cls))
        elif ptrs:
            ctx.undecided(R, inst, 'member `%s` is a raw pointer (%s): ownership not decided' % (ptrs[0]['name'], ptrs[0]['type']), A3D)
        else:
            ctx.ok(R, inst, 'members %s are held by value' % ', '.join(f_['name'] for f_ in r['fields']), A3D, nontrivial=False)
    ctx.floor(R, n, 4, 'adaptor classes instantiated by %s' % AST_DRIVER)


def check_shift_range(ctx, tu):
    R = 'R-C17-5'
    n = 0
    for f in tu.functions.values():
        if f['dep'] or not f.get('ctor') or f.get('ctor') in ('copy', 'move') or not f['params']:
            continue
        if strip_targs(f['q']).split('::')[-2:] != ['IndexShiftedArray3D', 'IndexShiftedArray3D']:
            continue
        _, vecs, _ = delegate_field(tu, f)
        vecs = [v for v in vecs]
        if len(vecs) != 1:
            ctx.undecided(R, f['q'], 'cannot identify the shift member', tu.fn_loc(f))
            continue
        field = vecs[0]
        top = tu.node(f['id'])
        init = None
        for x in (top.get('inner', []) if top else []):
            if isinstance(x, dict) and x.get('kind') == 'CXXCtorInitializer' and (x.get('anyInit') or {}).get('name') == field:
                ks = tu.kids(x)
                init = ks[0] if ks else None
        n += 1
        inst = '%s constructor: range of the stored shift' % f['q'].replace('rkcommon::array3D::', '').rsplit('::', 1)[0]
        key = '%s|%s|IndexShiftedArray3D::IndexShiftedArray3D|shift-range' % (R, A3D)
        if init is None:
            ctx.undecided(R, inst, 'no initialiser for member %s' % field, tu.fn_loc(f))
            continue
        r = shift_range(tu, init, {}, field)
        form = SHIFT_FORM.get('IndexShiftedArray3D', ('modulo', None))
        if r is not None and form[0] == 'wrap' and r[0] >= -1 and r[1] > 1:
            ctx.violation(R, inst, 'get() wraps with a single conditional add / subtract of size() per axis (i < 0 ? i + n : i >= n ? i - n : i), '
                          'which undoes exactly one period, but the stored shift `%s` is not reduced: it can exceed size() (any shift >= '
                          '-size() was handled by the modulo form), and then where + shift - size() is still >= size() and is clamped by the '
                          'inner get() instead of wrapped; either reduce the shift modulo size() when it is stored or wrap with %%'
                          % tu.show(init)[:100], form[1] or tu.loc(init), key='%s|%s|IndexShiftedArray3D::get|one-period-wrap' % (R, A3D))
            continue
        hi_ok = 1 if form[0] == 'wrap' else INF_PERIODS * 4
        if r is None:
            ctx.undecided(R, inst, 'initialiser %s of %s is not a recognised combination of shifts' % (tu.show(init)[:100], field), tu.fn_loc(f))
        elif r[0] < -1 or r[1] > hi_ok:
            ctx.violation(R, inst, 'the stored shift `%s` ranges over [%s, %s] * size() (each user-supplied or stored shift is at least '
                          '-size); get() wraps with (where + size() + shift) %% size(), which is the mathematical modulo only '
                          'for shift >= -size(): below that the C++ remainder is negative and the inner get() clamps it to 0 instead of '
                          'wrapping - the sum has to be reduced modulo size() before it is stored'
                          % (tu.show(init)[:100], r[0], 'inf' if r[1] >= INF_PERIODS else r[1]),
                          tu.loc(init), key=key)
        else:
            ctx.ok(R, inst, 'stored shift %s is at least -size()%s: inside the range get() wraps correctly'
                   % (tu.show(init)[:80], ' and at most size()' if form[0] == 'wrap' else ''), tu.fn_loc(f))
    ctx.floor(R, n, 1, 'IndexShiftedArray3D constructors instantiated by %s' % AST_DRIVER)


# ============================================================================================
#  R-C17-6  getValueRange accumulates with the join of the range lattice
# ============================================================================================
INT_TYPES = {'char': (8, True), 'signed char': (8, True), 'unsigned char': (8, False), 'short': (16, True), 'unsigned short': (16, False),
             'int': (32, True), 'unsigned int': (32, False), 'long': (64, True), 'unsigned long': (64, False),
             'long long': (64, True), 'unsigned long long': (64, False), 'bool': (1, False)}


def monotone_conversion(src, dst):
    """True / False / None: is the value conversion src -> dst order preserving for all values of src?"""
    if src == dst:
        return True
    fl = ('float', 'double', 'long double')
    if src in INT_TYPES and dst in fl:
        return True
    if src in fl and dst in fl:
        return True
    if src in INT_TYPES and dst in INT_TYPES:
        sb, ss = INT_TYPES[src]
        db, ds = INT_TYPES[dst]
        if ds:
            return db > sb or (db == sb and ss)
        return (not ss) and db >= sb
    return None


def check_whole_volume_range(ctx, tu, f, R):
    """getValueRange() of the base class must be computed from the current cells: the base class is shared by the adaptors, whose
    cells change when *another* object (the array they wrap) is written, so a result kept in the object is stale for them"""
    inst = f['q'].replace('rkcommon::array3D::', '') + '()'
    key = '%s|%s|Array3D::getValueRange()|' % (R, A3D)
    body = tu.body(f)
    written = {}
    for x in tu.walk(body):
        if x.get('kind') in ('BinaryOperator', 'CompoundAssignOperator') and x.get('opcode', '').endswith('=') and \
                x.get('opcode') not in ('==', '!=', '<=', '>=') and tu.kids(x):
            l_ = tu.strip(tu.kids(x)[0])
            if l_ is not None and l_.get('kind') == 'MemberExpr' and tu.kids(l_) and tu.is_this(tu.kids(l_)[0]):
                written[l_.get('name')] = x
        if x.get('kind') == 'CXXOperatorCallExpr' and strip_targs(tu.sd(x).get('q', '')).endswith('operator='):
            ks_ = tu.kids(x)
            l_ = tu.strip(ks_[1]) if len(ks_) > 1 else None
            if l_ is not None and l_.get('kind') == 'MemberExpr' and tu.kids(l_) and tu.is_this(tu.kids(l_)[0]):
                written[l_.get('name')] = x
    returned = set()
    for x in tu.walk(body):
        if x.get('kind') == 'ReturnStmt' and tu.kids(x):
            for y in tu.walk(x):
                if y.get('kind') == 'MemberExpr' and tu.kids(y) and tu.is_this(tu.kids(y)[0]):
                    returned.add(y.get('name'))
    cached = sorted(returned & set(written))
    if cached:
        views = sorted({strip_targs(g['q']).split('::')[-2] for g in tu.functions.values()
                        if not g['dep'] and g['q'].endswith('::get') and delegate_field(tu, g)[0]})
        ctx.violation(R, inst, 'returns the member `%s`, which an earlier call of this function stored (memoised result): the base class is '
                      'also the base of the views %s, whose cells are those of *another* array - writing that array does not invalidate the '
                      'view\'s cached range, so a later query returns bounds of values that are no longer there; the range has to be '
                      'recomputed from get() on every query' % (cached[0], ', '.join(views) or '(adaptors)'), tu.loc(written[cached[0]]),
                      key=key + 'memoised')
        return
    env, stmts, rets = fn_statements(tu, f)
    if not stmts and len(rets) == 1:
        t = drop_casts(nf(tu, rets[0], env))
        zero = lambda z: z[0] == 'ctor' and all(a_ == ('int', 0) for a_ in z[2]) and len(z[2]) in (1, 3)
        if t[0] == 'call' and strip_targs(t[1]).endswith('Array3D::getValueRange') and len(t[3]) == 2 and zero(t[3][0]) and \
                t[3][1] in (('call', 'rkcommon::array3D::Array3D::size', ('this',), ()),):
            ctx.ok(R, inst, 'getValueRange(vec3i(0), size()) recomputed on every call', tu.fn_loc(f))
            return
    ctx.undecided(R, inst, 'whole-volume overload is not `return getValueRange(vec3i(0), size())`', tu.fn_loc(f))


def check_value_range_override(ctx, tu, f, R):
    """an adaptor that answers getValueRange itself must still bound the values its own get() returns"""
    cls = strip_targs(f['q']).split('::')[-2]
    inst = f['q'].replace('rkcommon::array3D::', '')
    key = '%s|%s|%s::getValueRange|' % (R, A3D, cls)
    env, stmts, rets = fn_statements(tu, f)
    if stmts or len(rets) != 1:
        ctx.undecided(R, inst, 'override is not a single return statement', tu.fn_loc(f))
        return
    t = nf(tu, rets[0], env)
    b, e = (('ref', 'ParmVarDecl', p_['name']) for p_ in f['params'])
    if t[0] == 'call' and strip_targs(t[1]) == 'rkcommon::array3D::Array3D::getValueRange' and t[2] == ('this',) and t[3] == (b, e):
        ctx.ok(R, inst, 'forwards to the generic implementation, which visits the adaptor\'s own get()', tu.fn_loc(f))
        return
    dele, _, _ = delegate_field(tu, f)
    inner = ('call', 'rkcommon::array3D::Array3D::getValueRange', ('deref', ('mem', ('this',), dele)), (b, e)) if dele else None
    tc = drop_casts(t)
    if inner is not None and tc[0] == 'ctor' and tc[1].endswith('range_t') and len(tc[2]) == 2 and \
            tc[2][0] == ('mem', inner, 'lower') and tc[2][1] == ('mem', inner, 'upper'):
        r = tu.records.get(f.get('recid')) or {}
        targs = [a_.get('t') for a_ in r.get('targs', []) if 't' in a_]
        if len(targs) == 2:
            mono = monotone_conversion(targs[0], targs[1])
            if mono is True:
                ctx.ok(R, inst, 'converts the two bounds of the wrapped array\'s range; the conversion %s -> %s is order preserving'
                       % (targs[0], targs[1]), tu.fn_loc(f))
            elif mono is False:
                ctx.violation(R, inst, 'returns (out_t)lower, (out_t)upper of the wrapped array\'s range, but the cells this adaptor returns are '
                              '(out_t)value and the conversion %s -> %s is not order preserving (it wraps): the converted bounds neither '
                              'bound the converted values nor are they tight (the interval can even be inverted); valid only for monotone '
                              'conversions' % (targs[0], targs[1]), tu.loc(rets[0]), key=key + 'bounds-conversion')
            else:
                ctx.undecided(R, inst, 'bounds conversion %s -> %s: monotonicity not known' % (targs[0], targs[1]), tu.fn_loc(f))
            return
    ctx.undecided(R, inst, 'override returns %s' % show(t), tu.fn_loc(f))


def functor_value_range(tu, f, body):
    """getValueRange that accumulates in a member of a local functor object handed to for_each (`Extender e{*this, get(begin)};
    for_each(begin, end, e); return e.range;`).  -> None (not this shape) | ('ok' | 'violation' | 'undecided', text[, key])"""
    ret = None
    for st in tu.kids(body):
        if st.get('kind') == 'ReturnStmt' and tu.kids(st):
            e = tu.strip(tu.kids(st)[0], casts=True)
            while e is not None and e.get('kind') == 'CXXConstructExpr' and len(tu.kids(e)) == 1:
                e = tu.strip(tu.kids(e)[0], casts=True)
            ret = e
    if ret is None or ret.get('kind') != 'MemberExpr' or not tu.kids(ret):
        return None
    fld = ret.get('name')
    base = tu.strip(tu.kids(ret)[0])
    if base is None or base.get('kind') != 'DeclRefExpr' or 'range_t<' not in tu.sd(ret).get('ct', ret.get('type', {}).get('qualType', '')):
        return None
    obj = tu.node(base.get('referencedDecl', {}).get('id'))
    rec = tu.records_by_type.get(tu.sd(base).get('ct', '').replace('const ', '').strip())
    if obj is None or obj.get('kind') != 'VarDecl' or rec is None:
        return ('undecided', 'the result is member %s of `%s`, whose class is not in the analysed sources' % (fld, base.get('referencedDecl', {}).get('name')))
    # seed: how is the member initialised?
    seed = 'unknown'
    init = tu.strip(tu.kids(obj)[-1]) if tu.kids(obj) else None
    names = [x['name'] for x in rec.get('fields', [])]
    if init is not None and init.get('kind') == 'InitListExpr' and fld in names and len(tu.kids(init)) == len(names):
        e = tu.kids(init)[names.index(fld)]
        ctors = [x for x in tu.walk(e) if x.get('kind') in ('CXXConstructExpr', 'CXXTemporaryObjectExpr') and 'range_t' in tu.sd(x).get('q', '')]
        for c in ctors:
            args = [a for a in tu.kids(c) if a.get('kind') != 'CXXDefaultArgExpr']
            if len(args) == 1 and 'range_t' in tu.sd(tu.strip(args[0])).get('ct', tu.strip(args[0]).get('type', {}).get('qualType', '')):
                continue
            seed = 'empty' if not args else ('point' if len(args) == 1 and 'EmptyTy' not in args[0].get('type', {}).get('qualType', '') else
                                             'empty' if len(args) == 1 else 'unknown')
    # is the object handed to a parallel construct?
    shared = None
    for x in tu.walk(body):
        if x.get('kind') in ('CallExpr', 'CXXMemberCallExpr') and 'id' in x:
            cq = strip_targs(tu.sd(x).get('q', ''))
            if any(y.get('kind') == 'DeclRefExpr' and y.get('referencedDecl', {}).get('id') == obj['id'] for y in tu.walk(x)):
                if cq.startswith('rkcommon::tasking::') or cq.startswith('tbb::') or cq in ('std::async', 'std::thread::thread'):
                    shared = cq
    # updates of the member inside the functor's own methods
    extends = others = 0
    locked = True
    for g in tu.functions.values():
        if g.get('recid') != rec['id'] or tu.body(g) is None or g.get('ctor') or g.get('dtor'):
            continue
        for x in tu.walk(tu.body(g)):
            if x.get('kind') == 'CXXMemberCallExpr' and strip_targs(tu.sd(x).get('q', '')).endswith('range_t::extend'):
                _, o_, _a = tu.call_parts(x)
                o_ = tu.strip(o_) if o_ is not None else None
                if o_ is not None and o_.get('kind') == 'MemberExpr' and o_.get('name') == fld:
                    extends += 1
            if x.get('kind') == 'BinaryOperator' and x.get('opcode') in ('=', '+=', '-='):
                l_ = tu.strip(tu.kids(x)[0])
                while l_ is not None and l_.get('kind') == 'MemberExpr' and l_.get('name') != fld and tu.kids(l_):
                    l_ = tu.strip(tu.kids(l_)[0])
                if l_ is not None and l_.get('kind') == 'MemberExpr' and l_.get('name') == fld:
                    others += 1
    if shared:
        return ('undecided', 'the accumulating functor is handed to %s: concurrent updates of its member are not analysed in this shape' % shared)
    if extends and not others:
        return ('ok', 'accumulates in member `%s` of a local functor object passed to for_each; every visited value goes through '
                'range_t::extend (min / max on both bounds); seed: %s' % (fld, seed))
    return ('undecided', 'member `%s` of the functor is updated by something other than range_t::extend' % fld)


def z_slab_region(tu, call, a0, a1, pb, pe, env):
    """for_each over the z-layer (begin.x, begin.y, z) .. (end.x, end.y, z + 1) with z = begin.z + k, executed for every k of a
    tasking::parallel_for(end.z - begin.z, ...): together the layers are exactly [begin, end)"""
    if not (a0[0] == 'ctor' and a1[0] == 'ctor' and len(a0[2]) == 3 and len(a1[2]) == 3):
        return False
    if a0[2][:2] != (('mem', pb, 'x'), ('mem', pb, 'y')) or a1[2][:2] != (('mem', pe, 'x'), ('mem', pe, 'y')):
        return False
    Z = a0[2][2]
    if a1[2][2] != op_nf('+', [Z, ('int', 1)]):
        return False
    # enclosing parallel construct and its index parameter
    p_ = call
    lam = None
    for _ in range(40):
        q_ = tu.par(p_)
        if q_ is None:
            return False
        if q_.get('kind') == 'LambdaExpr':
            lam = q_
        if q_.get('kind') == 'CallExpr' and strip_targs(tu.sd(q_).get('q', '')).startswith('rkcommon::tasking::parallel_for') and lam is not None:
            _, _, pargs = tu.call_parts(q_)
            if len(pargs) != 2:
                return False
            cnt = drop_casts(nf(tu, pargs[0], env))
            if cnt != ('op', '-', (('mem', pe, 'z'), ('mem', pb, 'z'))):
                return False
            op_fn = tu.functions.get(tu.sd(lam).get('op'))
            if op_fn is None or len(op_fn.get('params', [])) != 1:
                return False
            k_ = ('ref', 'ParmVarDecl', op_fn['params'][0]['name'])
            return Z == op_nf('+', [('mem', pb, 'z'), k_])
        p_ = q_
    return False


def full_range_shortcut(tu, f, body, skip, rv):
    """the update of the running range is skipped when a flag is set: accepted when the flag means `the range already spans
    every value of the element type` with the true extremes of that type.  -> ('ok' | 'violation' | 'undecided', text[, key])"""
    st, cond, upd = skip
    c = tu.strip(cond, casts=True)
    if c is None or c.get('kind') != 'DeclRefExpr':
        return ('undecided', 'the update `%s` is skipped when `%s` holds: not a recognised full-range shortcut' % (tu.show(upd)[:50], tu.show(cond)[:60]))
    flag = c.get('referencedDecl', {}).get('id')
    env = {}
    for d_ in tu.walk(body):
        if d_.get('kind') == 'VarDecl' and 'id' in d_ and d_['id'] not in env and tu.kids(d_) and tu.kids(d_)[-1].get('kind') != 'LambdaExpr' \
                and 'range_t<' not in d_.get('type', {}).get('qualType', ''):
            env[d_['id']] = nf(tu, tu.kids(d_)[-1], env)
    assigns = [x for x in tu.walk(body) if x.get('kind') == 'BinaryOperator' and x.get('opcode') == '=' and 'id' in x and
               (tu.strip(tu.kids(x)[0]) or {}).get('kind') == 'DeclRefExpr' and tu.strip(tu.kids(x)[0]).get('referencedDecl', {}).get('id') == flag]
    if len({x['id'] for x in assigns}) != 1:
        return ('undecided', 'the skip flag `%s` is assigned in %d places' % (c.get('referencedDecl', {}).get('name'), len({x['id'] for x in assigns})))
    rhs = tu.kids(assigns[0])[1]
    conj = []

    def split(e):
        e0 = tu.strip(e, casts=True)
        if e0 is not None and e0.get('kind') == 'BinaryOperator' and e0.get('opcode') == '&&':
            for k_ in tu.kids(e0):
                split(k_)
        else:
            conj.append(e0)
    split(rhs)
    r = tu.records.get(f.get('recid')) or {}
    T = ([a_.get('t') for a_ in r.get('targs', []) if 't' in a_] or ['?'])[0]
    integral = T in INT_TYPES
    floating = T in ('float', 'double', 'long double')
    vname = ('ref', 'VarDecl', rv.get('name'))
    sides = {}
    for e0 in conj:
        if e0 is None:
            return ('undecided', 'skip condition not recognised')
        if tu.sd(e0).get('cv') == '0':
            return ('ok', 'the shortcut is compiled out for this element type')
        if tu.sd(e0).get('cv') not in (None, '0'):
            continue            # a compile-time true conjunct
        t = drop_casts(nf(tu, e0, env))
        negd = False
        if t[0] == 'un' and t[1] == '!':
            negd, t = True, t[2]
        if t[0] != 'op' or t[1] not in ('<', '<=', '>', '>=') or len(t[2]) != 2:
            return ('undecided', 'conjunct `%s` of the skip condition is not a comparison of a bound with a limit' % tu.show(e0)[:60])
        a, b = t[2]
        rel = t[1]
        if rel in ('>', '>='):
            a, b, rel = b, a, {'>': '<', '>=': '<='}[rel]
        if negd:          # !(a < b) == b <= a ;  !(a <= b) == b < a
            a, b, rel = b, a, '<=' if rel == '<' else '<'
        # now  a rel b  with rel in {<, <=}
        if a == ('mem', vname, 'lower'):
            sides['lower'] = (b, rel)
        elif b == ('mem', vname, 'upper'):
            sides['upper'] = (a, rel)
        else:
            return ('undecided', 'conjunct `%s` does not bound lower from above or upper from below' % tu.show(e0)[:60])
    if set(sides) != {'lower', 'upper'}:
        return ('undecided', 'the skip condition does not test both bounds')

    def limit(t):
        sign = 1
        if t[0] == 'un' and t[1] == '-':
            sign, t = -1, t[2]
        if t[0] == 'call' and strip_targs(t[1]).startswith('std::numeric_limits::'):
            return sign, strip_targs(t[1]).split('::')[-1]
        return None
    lo_, hi_ = limit(sides['lower'][0]), limit(sides['upper'][0])
    if lo_ is None or hi_ is None:
        return ('undecided', 'the limits of the skip condition are not numeric_limits values')
    lo_ok = (integral and lo_ in ((1, 'min'), (1, 'lowest'))) or (floating and lo_ == (-1, 'infinity'))
    hi_ok = (integral and hi_ == (1, 'max')) or (floating and hi_ == (1, 'infinity'))
    if lo_ok and hi_ok:
        return ('ok', 'scan stops once the range spans the whole value type')
    if floating and not lo_ok:
        what = {(1, 'min'): 'numeric_limits<%s>::min() is the smallest positive normal value (about 1.2e-38), not the lowest value' % T,
                (1, 'lowest'): 'numeric_limits<%s>::lowest() is not below -infinity, which a cell may hold' % T}.get(lo_, 'that is not the lowest value of %s' % T)
        return ('violation', 'the scan stops as soon as lower <= %s%s() and upper >= %s(): %s, so for element type %s the rest of the region '
                'is skipped although a later cell can still lower the minimum - the returned range then does not contain every value of the '
                'region (for the integral element types the same shortcut is exact)'
                % ('-' if lo_[0] < 0 else '', lo_[1], hi_[1], what, T), 'skip-not-full-range')
    if floating and not hi_ok:
        return ('violation', 'the scan stops once upper >= numeric_limits<%s>::%s(), which is not the largest value a cell can hold (+infinity): '
                'later larger cells are skipped' % (T, hi_[1]), 'skip-not-full-range')
    return ('undecided', 'limits %s / %s for element type %s' % (lo_, hi_, T))


def check_value_range(ctx, tu):
    R = 'R-C17-6'
    ctx.describe(R, 'getValueRange: after each visited value t the running range satisfies lower <= t <= upper (extend(), two independent '
                    'tests, or if / else-if on a range that already holds a value)')
    n = 0
    for f in find_fns(tu, r'^rkcommon::array3D::\w+<.*>::getValueRange$'):
        if len(f['params']) == 0 and strip_targs(f['q']).split('::')[-2] == 'Array3D':
            check_whole_volume_range(ctx, tu, f, R)
            continue
        if len(f['params']) != 2:
            continue
        if strip_targs(f['q']).split('::')[-2] != 'Array3D':
            check_value_range_override(ctx, tu, f, R)
            continue
        n += 1
        inst = '%s' % f['q'].replace('rkcommon::array3D::', '')
        key = '%s|%s|Array3D::getValueRange|' % (R, A3D)
        body = tu.body(f)
        # the region that is scanned must be the one that was asked for: get() is virtual and only some arrays clamp
        env_r = {}
        region_bad = region_und = region_shrunk = None
        for d_ in tu.walk(body):
            if d_.get('kind') == 'VarDecl' and 'id' in d_ and d_['id'] not in env_r and tu.kids(d_) and \
                    'range_t<' not in d_.get('type', {}).get('qualType', '') and tu.kids(d_)[-1].get('kind') != 'LambdaExpr':
                env_r[d_['id']] = nf(tu, tu.kids(d_)[-1], env_r)
        pb, pe = (('ref', 'ParmVarDecl', p_['name']) for p_ in f['params'])
        for x in tu.walk(body):
            if x.get('kind') == 'CallExpr' and strip_targs(tu.sd(x).get('q', '')) == 'rkcommon::array3D::for_each' and 'id' in x:
                _, _, fargs = tu.call_parts(x)
                if len(fargs) != 3:
                    continue
                a0, a1 = drop_casts(nf(tu, fargs[0], env_r)), drop_casts(nf(tu, fargs[1], env_r))
                if (a0, a1) == (pb, pe):
                    continue
                if z_slab_region(tu, x, a0, a1, pb, pe, env_r):
                    continue
                def const_vec(t_):
                    if isinstance(t_, tuple) and t_ and t_[0] == 'ctor' and len(t_[2]) in (1, 3) and all(c_[0] == 'int' for c_ in t_[2]):
                        v_ = [c_[1] for c_ in t_[2]]
                        return v_ * 3 if len(v_) == 1 else v_
                    return None
                off_lo = None
                if a0[0] == 'op' and a0[1] == '+' and len(a0[2]) == 2 and pb in a0[2]:
                    off_lo = const_vec([t_ for t_ in a0[2] if t_ != pb][0] if a0[2][0] != a0[2][1] else None)
                if off_lo is not None and a1 == pe and all(c_ >= 0 for c_ in off_lo) and any(c_ > 0 for c_ in off_lo):
                    region_shrunk = (x, a0, a1, off_lo)
                    continue
                txt = repr((a0, a1))
                if '::size' in txt or "'max'" in txt or "'min'" in txt or 'math::max' in txt or 'math::min' in txt or 'clamp' in txt:
                    region_bad = (x, a0, a1)
                else:
                    region_und = (x, a0, a1)
        if region_shrunk is not None:
            x, a0, a1, off_lo = region_shrunk
            ax = 'xyz'[[i_ for i_, c_ in enumerate(off_lo) if c_ > 0][0]]
            ctx.violation(R, inst, 'scans for_each(%s, %s): the box [begin + (%s), end) instead of the requested region [begin, end) - moving the '
                          'lower corner of a box removes a whole slab of it, every cell with %s < begin.%s + %d in every row, not just the cell '
                          '`begin` the range was seeded with; a minimum or maximum lying in that slab (outside the seed cell) is not bounded by '
                          'the result' % (show(a0)[:70], show(a1)[:40], ', '.join(map(str, off_lo)), ax, ax, max(off_lo)),
                          tu.loc(x), key=key + 'region-shrunk')
            continue
        if region_bad is not None:
            x, a0, a1 = region_bad
            ctx.violation(R, inst, 'scans for_each(%s, %s) instead of the requested region [begin, end): the region is restricted to the '
                          'extent of the array on the ground that get() clamps, but get() is virtual and the shifted / sub-box views do not '
                          'clamp (they wrap resp. offset), so for a region reaching beyond the extent values of the region are left out '
                          'and the result no longer bounds them' % (show(a0)[:70], show(a1)[:70]), tu.loc(x), key=key + 'region-clamped')
            continue
        def ok_(msg):
            # a decided update rule does not make up for a scan over an unrecognised region
            if region_und is not None:
                ctx.undecided(R, inst, 'scans for_each(%s, %s): not recognisably the requested region [begin, end)'
                              % (show(region_und[1])[:60], show(region_und[2])[:60]), tu.fn_loc(f))
            else:
                ctx.ok(R, inst, msg, tu.fn_loc(f))
        # the running range: a local of type range_t
        rv = None
        ranges = {}
        for st in tu.walk(body):
            if st.get('kind') == 'VarDecl' and 'range_t<' in st.get('type', {}).get('qualType', '') and 'id' in st:
                ranges.setdefault(st['id'], st)
                if rv is None:
                    rv = st
        # the running range is the local that is returned
        for st in tu.kids(body):
            if st.get('kind') == 'ReturnStmt' and tu.kids(st):
                for x in tu.walk(st):
                    if x.get('kind') == 'DeclRefExpr' and x.get('referencedDecl', {}).get('id') in ranges:
                        rv = ranges[x['referencedDecl']['id']]
        if rv is None:
            verdict = functor_value_range(tu, f, body)
            if verdict is None:
                ctx.undecided(R, inst, 'no local range_t found', tu.fn_loc(f))
            elif verdict[0] == 'ok':
                ok_(verdict[1])
            elif verdict[0] == 'violation':
                ctx.violation(R, inst, verdict[1], tu.fn_loc(f), key=key + verdict[2])
            else:
                ctx.undecided(R, inst, verdict[1], tu.fn_loc(f))
            continue
        seed = 'empty'
        seed_var = rv
        for _ in range(4):      # `range_t v = first;` : the seed is that of the range it is copied from
            e0 = tu.strip(tu.kids(seed_var)[-1], casts=True) if tu.kids(seed_var) else None
            while e0 is not None and e0.get('kind') in ('CXXConstructExpr',) and len(tu.kids(e0)) == 1:
                e0 = tu.strip(tu.kids(e0)[0], casts=True)
            if e0 is not None and e0.get('kind') == 'DeclRefExpr' and e0.get('referencedDecl', {}).get('id') in ranges:
                seed_var = ranges[e0['referencedDecl']['id']]
            else:
                break
        ctors = [x for x in (tu.walk(tu.kids(seed_var)[-1]) if tu.kids(seed_var) else []) if x.get('kind') in ('CXXConstructExpr', 'CXXTemporaryObjectExpr')
                 and 'range_t' in tu.sd(x).get('q', '')]
        for c in ctors:
            args = [a for a in tu.kids(c) if a.get('kind') != 'CXXDefaultArgExpr']
            if len(args) == 1 and 'range_t' in tu.sd(tu.strip(args[0])).get('ct', tu.strip(args[0]).get('type', {}).get('qualType', '')):
                continue          # copy / move of the inner temporary
            if not args:
                seed = 'empty'
            elif len(args) == 1 and 'EmptyTy' in args[0].get('type', {}).get('qualType', ''):
                seed = 'empty'
            elif len(args) == 1:
                seed = 'point'     # range_t(const T &t): lower = upper = t
            else:
                seed = 'unknown'
        vref = rv['id']
        is_v = lambda e: (tu.strip(e) or {}).get('kind') == 'DeclRefExpr' and tu.strip(e).get('referencedDecl', {}).get('id') in ranges
        is_result = lambda e: (tu.strip(e) or {}).get('kind') == 'DeclRefExpr' and tu.strip(e).get('referencedDecl', {}).get('id') == vref
        bound_of = lambda e: (tu.strip(e).get('name') if (tu.strip(e) or {}).get('kind') == 'MemberExpr' and tu.kids(tu.strip(e))
                              and is_v(tu.kids(tu.strip(e))[0]) else None)
        seen = set()
        extends, assigns, ifs = [], [], []
        for x in tu.walk(body):
            if 'id' not in x or x['id'] in seen:
                continue
            seen.add(x['id'])
            if x.get('kind') == 'CXXMemberCallExpr' and strip_targs(tu.sd(x).get('q', '')).endswith('range_t::extend'):
                _, obj, _a = tu.call_parts(x)
                if obj is not None and is_v(obj):
                    extends.append(x)
            if x.get('kind') == 'BinaryOperator' and x.get('opcode') == '=' and bound_of(tu.kids(x)[0]):
                assigns.append(x)
            if x.get('kind') == 'IfStmt':
                ifs.append(x)
        # updates of the result from inside a callable handed to the tasking system run concurrently: they need a lock
        racy = None
        locked = 0
        for x in extends + assigns:
            tgt = tu.call_parts(x)[1] if x.get('kind') == 'CXXMemberCallExpr' else tu.kids(tu.strip(tu.kids(x)[0]))[0]
            if not is_result(tgt):
                continue
            chain = []
            p_ = x
            for _ in range(60):
                q_ = tu.par(p_)
                if q_ is None:
                    break
                chain.append((q_, p_))
                p_ = q_
            par_lambda = None
            for q_, child in chain:
                if q_.get('kind') == 'LambdaExpr':
                    # is this lambda an argument of a parallel construct?
                    up = q_
                    for _ in range(6):
                        up2 = tu.par(up)
                        if up2 is None:
                            break
                        if up2.get('kind') in ('CallExpr', 'CXXMemberCallExpr'):
                            cq = strip_targs(tu.sd(up2).get('q', ''))
                            if cq.startswith('rkcommon::tasking::') or cq.startswith('tbb::') or cq in ('std::async', 'std::thread::thread'):
                                par_lambda = (q_, cq)
                            break
                        up = up2
                    if par_lambda:
                        break
            if par_lambda is None:
                continue
            lam = par_lambda[0]
            has_lock = False
            for q_, child in chain:
                if q_ is lam:
                    break
                if q_.get('kind') == 'CompoundStmt':
                    for st in tu.kids(q_):
                        if st is child or st.get('id') == child.get('id'):
                            break
                        if st.get('kind') == 'DeclStmt' and any(re.search(r'\b(lock_guard|unique_lock|scoped_lock)<', d_.get('type', {}).get('qualType', ''))
                                                               for d_ in tu.kids(st) if d_.get('kind') == 'VarDecl'):
                            has_lock = True
            if has_lock:
                locked += 1
            elif racy is None:
                racy = (x, par_lambda[1])
        # an update that is skipped under some condition leaves cells of the region out, unless the condition proves that no
        # later cell can change the range
        skip = None
        for x in extends + assigns:
            tgt = tu.call_parts(x)[1] if x.get('kind') == 'CXXMemberCallExpr' else tu.kids(tu.strip(tu.kids(x)[0]))[0]
            if not is_result(tgt):
                continue
            p_ = x
            for _ in range(40):
                q_ = tu.par(p_)
                if q_ is None or q_.get('kind') in ('LambdaExpr', 'CXXMethodDecl', 'FunctionDecl', 'ForStmt', 'WhileStmt'):
                    break
                if q_.get('kind') == 'CompoundStmt':
                    for st in tu.kids(q_):
                        if st is p_ or st.get('id') == p_.get('id'):
                            break
                        if st.get('kind') == 'IfStmt':
                            parts_ = [y for y in st.get('inner', []) if isinstance(y, dict) and y.get('kind')]
                            th_ = parts_[1] if len(parts_) > 1 else None
                            while th_ is not None and th_.get('kind') == 'CompoundStmt' and len(tu.kids(th_)) == 1:
                                th_ = tu.kids(th_)[0]
                            if th_ is not None and th_.get('kind') in ('ReturnStmt', 'ContinueStmt', 'BreakStmt'):
                                skip = (st, parts_[0], x)
                p_ = q_
        if skip is not None and racy is None:
            verdict = full_range_shortcut(tu, f, body, skip, rv)
            if verdict[0] == 'violation':
                ctx.violation(R, inst, verdict[1], tu.loc(skip[0]), key=key + verdict[2])
                continue
            if verdict[0] == 'undecided':
                ctx.undecided(R, inst, verdict[1], tu.loc(skip[0]))
                continue
        if racy is not None:
            x, cq = racy
            ctx.violation(R, inst, 'the result range `%s` is updated by `%s` inside a callable passed to %s without holding a lock: tasks run '
                          'concurrently, the update is a read-modify-write of both bounds (lower = min(lower, .), upper = max(upper, .)), '
                          'so two tasks merging at the same time lose one contribution and the returned range no longer bounds every value'
                          % (rv.get('name'), tu.show(x)[:60], cq.split('::')[-1]), tu.loc(x), key=key + 'unsynchronised-merge')
            continue
        if extends and not assigns:
            ok_('every visited value goes through range_t::extend (min / max on both bounds); seed: %s%s'
                   % (seed, '; %d merge(s) into the shared result under a lock' % locked if locked else ''))
            continue
        if not assigns:
            ctx.undecided(R, inst, 'no update of the running range found', tu.fn_loc(f))
            continue

        def branch_assign(st):
            """(bound name, value nf) if the statement (possibly a one-statement block) is `v.bound = t`"""
            while st is not None and st.get('kind') == 'CompoundStmt' and len(tu.kids(st)) == 1:
                st = tu.kids(st)[0]
            e = tu.strip(st) if st is not None else None
            if e is not None and e.get('kind') == 'BinaryOperator' and e.get('opcode') == '=':
                b = bound_of(tu.kids(e)[0])
                if b:
                    return b, nf(tu, tu.kids(e)[1])
            return None

        def cond_ok(c, bound, val):
            c = drop_casts(nf(tu, c))
            vb = None
            if c[0] == 'op' and c[1] in ('<', '>') and len(c[2]) == 2:
                a, b = c[2]
                if c[1] == '>':
                    a, b = b, a
                # a < b
                tgt = ('mem', ('ref', 'VarDecl', rv.get('name')), bound)
                if bound == 'lower' and a == val and b == tgt:
                    return True
                if bound == 'upper' and a == tgt and b == val:
                    return True
            return False

        form = None
        for i1 in ifs:
            parts = [x for x in i1.get('inner', []) if isinstance(x, dict) and x.get('kind')]
            if len(parts) < 2:
                continue
            a1 = branch_assign(parts[1])
            if a1 is None or not cond_ok(parts[0], a1[0], a1[1]):
                continue
            other = 'upper' if a1[0] == 'lower' else 'lower'
            if len(parts) == 3:
                e = parts[2]
                while e.get('kind') == 'CompoundStmt' and len(tu.kids(e)) == 1:
                    e = tu.kids(e)[0]
                if e.get('kind') == 'IfStmt':
                    p2 = [x for x in e.get('inner', []) if isinstance(x, dict) and x.get('kind')]
                    a2 = branch_assign(p2[1]) if len(p2) == 2 else None
                    if a2 and a2[0] == other and a2[1] == a1[1] and cond_ok(p2[0], a2[0], a2[1]):
                        form = ('else-if', a1[0], i1)
            elif len(parts) == 2:
                # an independent sibling test for the other bound
                for i2 in ifs:
                    if i2 is i1:
                        continue
                    p2 = [x for x in i2.get('inner', []) if isinstance(x, dict) and x.get('kind')]
                    a2 = branch_assign(p2[1]) if len(p2) == 2 else None
                    if a2 and a2[0] == other and a2[1] == a1[1] and cond_ok(p2[0], a2[0], a2[1]) and tu.par(i1) is tu.par(i2):
                        form = form or ('independent', a1[0], i1)
        if form is None or len(assigns) != 2 or extends:
            ctx.undecided(R, inst, 'the update of the running range is not a recognised min/max form', tu.fn_loc(f))
        elif form[0] == 'independent':
            ok_('both bounds are tested independently for every value; seed: %s' % seed)
        elif seed == 'point':
            ok_('if / else-if update on a range seeded with a value (lower <= upper holds, so a new minimum cannot exceed upper)')
        elif seed == 'empty':
            ctx.violation(R, inst, 'the running range starts empty (lower = +inf > upper = -inf) and is updated by `if (t < lower) lower = t; '
                          'else if (upper < t) upper = t;`: the else-branch is skipped whenever t lowers the minimum, which is only harmless '
                          'while lower <= upper - the first value visited sets lower only, so a maximum located in the first cell is lost '
                          '(upper can even stay -inf): the result does not bound the values of the region', tu.loc(form[2]),
                          key=key + 'else-if-empty-seed')
        else:
            ctx.undecided(R, inst, 'if / else-if update with a seed whose bounds are not known to be ordered', tu.fn_loc(f))
    ctx.floor(R, n, 1, 'Array3D<T>::getValueRange(begin, end) instantiations in %s' % AST_DRIVER)


def simple_guard(lits):
    """every literal compares operands that are constants or linear in a single input (x, dx - 1, 0): for such guards the
    order theory of irnorm.consistent is complete, so a guard it accepts is satisfiable"""
    if not I.in_order_vocabulary(lits):
        return False
    for l in lits:
        pp = I._lit_parts(l)
        if pp is None:
            continue
        for x in (pp[1], pp[2]):
            fs = x.free_symbols
            if len(fs) > 1 or I.all_atoms(x):
                return False
            if fs and sp.Poly(x, *fs).total_degree() > 1:
                return False
    return True


def check_get_clamps(ctx, ir, adims_by):
    """every path and select case of the address computed by get() against the per-axis definition
    clamp(c, 0, dims.c - 1) for all three axes at once (27 region combinations)"""
    R = 'R-C17-5'
    for name, tyname, stride, tn in (('K_get', 'f32', 4, 'float'), ('K_get_d', 'f64', 8, 'double')):
        inst = 'ActualArray3D<%s>::get clamping' % tn
        s = ir.summary(R, inst, name, A3D, **ir.get_opts(tn))
        adims = (adims_by or {}).get(tn)
        if s is None or adims is None:
            continue
        try:
            offs = get_offsets(s, tyname)
            idx = S('idx', (0, 4, 8))
            names = 'xyz'
            A = []
            c = []
            for k in range(3):
                A += [I.ilit('sle', 0, adims[k] - 1), I.ilit('slt', adims[k] - 1, adims[k])]
                c.append(I.mk_sel(I.ilit('slt', idx[k], 0), sp.Integer(0),
                                  I.mk_sel(I.ilit('slt', adims[k] - 1, idx[k]), adims[k] - 1, idx[k])))
            want = stride * lin(c, adims)
            okk, cex = I.equal_guarded([(g, off) for g, _, off in offs], [((), want)], assume=A)
            if okk:
                ctx.ok(R, inst, '%d path(s): in every combination of below / inside / above per axis the cell read is '
                       '(clamp(x,0,dx-1), clamp(y,0,dy-1), clamp(z,0,dz-1))' % len(offs), A3D)
                continue
            ga, ta, gb, tb = cex
            if I.opaque_atoms(ta):
                ctx.undecided(R, inst, 'address %s contains an unproved narrowing' % ta, A3D)
                continue
            if not simple_guard(list(ga) + list(gb)):
                # the mismatching case is only known to be reachable when its guard consists of per-axis comparisons; one other
                # shape is recognised as wrong: the raw coordinates are used under a range test on the *linear index* alone
                Lraw, Ncanon = lin(idx, adims), adims[0] * adims[1] * adims[2]
                dep = [l for l in ga if l.free_symbols & set(idx)]
                lin_tests = []
                for l in dep:
                    pp = I._lit_parts(l)
                    okl = False
                    if pp is not None and pp[0] in ('ult', 'ule', 'slt', 'sle'):
                        for u, v in ((pp[1], pp[2]), (pp[2], pp[1])):
                            r = sp.cancel(u / Lraw)
                            if r.is_Rational and r > 0 and sp.expand(v - r * Ncanon) == 0:
                                okl = True
                    lin_tests.append(okl)
                alias = sp.expand(lin([idx[0] + adims[0], idx[1] - 1, idx[2]], adims) - Lraw) == 0
                if dep and all(lin_tests) and I.equal(ta, stride * Lraw) and alias:
                    ctx.violation(R, inst, 'on the path where the range test `%s` on the *linear index* succeeds the address is computed '
                                  'from the unclamped coordinate (byte offset %s): a linear index inside [0, dx*dy*dz) does not mean that '
                                  'the coordinate is inside the extent - x + dx*(y + dy*z) is the same for (x + dx, y - 1, z) and '
                                  '(x, y, z), so e.g. x = dx on row y reads cell (0, y+1, z) instead of the clamped cell (dx-1, y, z)'
                                  % (' & '.join(map(str, dep)), sp.expand(ta)), A3D,
                                  key='%s|%s|ActualArray3D::get|linear-index-test' % (R, A3D),
                                  path=['path of get(): %s' % ' & '.join(map(str, ga)), 'offset on that path: %s' % sp.expand(ta),
                                        'definition (component-wise clamp), case %s: %s' % (' & '.join(map(str, gb)), sp.expand(tb))])
                else:
                    ctx.undecided(R, inst, 'a path condition of get() is not a plain per-axis coordinate comparison (%s); cannot tell '
                                  'whether the mismatching case is reachable' % ' & '.join(map(str, ga)), A3D)
                continue
            region = []
            G = list(ga) + list(gb) + A
            for k in range(3):
                if not I.consistent(G + [I.ilit('sle', 0, idx[k])]):
                    region.append('%s < 0' % names[k])
                elif not I.consistent(G + [I.ilit('sle', idx[k], adims[k] - 1)]):
                    region.append('%s > d%s-1' % (names[k], names[k]))
                elif not I.consistent(G + [I.ilit('slt', idx[k], 0)]) and not I.consistent(G + [I.ilit('slt', adims[k] - 1, idx[k])]):
                    region.append('%s inside' % names[k])
            uns = any((I._lit_parts(l_) or ('',))[0] in ('ult', 'ule') for l_ in ga)
            ctx.violation(R, inst, 'for coordinates with %s the byte offset is %s, but the clamped cell is at %s: a coordinate outside the '
                          'extent is not clamped to [0, dims-1]%s' % (', '.join(region) or 'guard ' + ' & '.join(map(str, ga)),
                                                                    sp.expand(ta), sp.expand(tb),
                                                                    ' (the bound is tested on the coordinate converted to an unsigned type, '
                                                                    'where a negative coordinate is a huge value and lands on the far face)'
                                                                    if uns else ''), A3D,
                          key='%s|%s|ActualArray3D::get|clamp' % (R, A3D),
                          path=['path/case of get(): %s' % ' & '.join(map(str, ga)), 'case of the definition: %s' % ' & '.join(map(str, gb)),
                                'offset found   : %s' % sp.expand(ta), 'offset expected: %s' % sp.expand(tb)])
        except Undecided as e:
            ctx.undecided(R, inst, str(e), A3D)


# ============================================================================================
def run(ctx):
    ctx.describe('R-C17-1', 'no product/sum of two variable operands in the index functions is evaluated in a type narrower than 64 bits')
    ctx.describe('R-C17-2', 'flatten(reshape(i)) == i and longIndex(coordsOf(i,d),d) == i as polynomial identities with Div/Mod atoms')
    ctx.describe('R-C17-3', 'all linear-index formulas are x + dx*(y + dy*z), reshape/coordsOf its Div/Mod decomposition, counts are dx*dy*dz')
    ctx.describe('R-C17-4', 'for_each is the canonical z,y,x loop nest over [lower,upper); iterator begin/end/*/++/!= are 0/total/reshape/+1/position')
    ctx.describe('R-C17-5', 'adaptors delegate to the cell their definition names; ActualArray3D::get clamps, set writes longIndex(where,size())')
    ctx.assume('integer arithmetic is read modulo 2^N; nsw/nuw flags (absence of signed overflow UB) are taken at their word')
    ctx.assume('R-C17-2 (array3D): extents and the index are non-negative')
    ctx.assume('distinct pointer arguments of a driver address disjoint objects')
    SHIFT_FORM.clear()
    jobs = [dict(unit=AST_DRIVER, config='TBB')]
    tu = ctx.front.parse_many(jobs)[0]
    ir = IR(ctx)
    check_typing(ctx, tu)
    check_left_inverse(ctx, ir)
    adims = check_formulas(ctx, ir)
    check_for_each(ctx, tu)
    check_for_each_callable(ctx, tu)
    check_iterator_lifetime(ctx, tu)
    check_iterators(ctx, ir)
    check_adaptors(ctx, tu)
    check_adaptor_ownership(ctx, tu)
    check_shift_range(ctx, tu)
    check_value_range(ctx, tu)
    check_get_clamps(ctx, ir, adims)
    if ctx.tier == 'thorough':
        tu2 = ctx.front.parse(AST_DRIVER, 'TBB', std='gnu++17')
        check_typing(ctx, tu2)
        check_for_each(ctx, tu2)
        check_adaptors(ctx, tu2)
        check_shift_range(ctx, tu2)
        check_value_range(ctx, tu2)
    ctx.extra['ir_units'] = [{'unit': IR_DRIVER, 'config': 'TBB+SIMD -DNDEBUG'}]
    from rkstatic import selftest
    selftest.run(ctx)
