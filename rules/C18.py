"""C18 - string, URL, path and argument helpers satisfy their decomposition laws.

Most of C18 is a statement about the *values* of strings and cannot be decided statically as a whole.
Decided here are structural clauses that are genuine necessary conditions of it (DESIGN.md section 5, C18):

  R-C18-1  FileName: every use of the position of the last '.' as an extension boundary is reached only on
           paths on which that position was compared with the last path separator (typestate, path-sensitive;
           the belief "a dot before the last separator is not an extension dot" is the one name()/setExt() hold);
           every sibling locates the extension dot with the same kind of search (first / last '.') as ext() and
           draws the same boundary for a dot that is the first character of the last component (dot < start / <=).
  R-C18-2  token filter: every branch condition on the token length that dominates a push_back of a token in
           tokenize / split(char) / split(set) is implied by `length >= 1` (relational normal form).
  R-C18-3  SI ladder of prettyDouble / prettyNumber: threshold == divisor == value of the printed suffix,
           rungs descend gap-free by 10^3 down to 'k', sub-unit rungs mirrored up to 'm'; the tested value is
           |input|, the printed one the signed input; a range handed to another ladder function (prettyDouble ->
           prettyNumber) contributes that function's rungs, and a float-to-integer conversion of the magnitude on the
           way must be bounded from above by the tests that dominate it.  Rungs are if / else-if tests, a helper that runs part of the
           ladder, or the rows of a constant table walked by a range-for (values resolved through parameters, locals
           set once and table fields).
  R-C18-4  PseudoURL::getValue: last duplicate wins (ascending scan of the whole list without exit on a match,
           every match overwrites the record), no match throws; hasParam is any-match.  Decided together with the
           constructor's store scheme (R-C18-9): if every append is made only when no entry of that name exists and
           the entry is otherwise overwritten in place with the token's value, the list holds one entry per name and
           a first-match lookup is accepted; if some token form still appends unconditionally, a first-match
           lookup is reported naming that form.
  R-C18-5  the ArgumentList member owns copies of the argument text (std::string elements, not pointers into argv);
           removeArgs shift loop and count update, ArgumentList constructor range, ArgumentList::remove erase
           count and position, parseAndRemove advances iff nothing was consumed.
  R-C18-6  longestBeginningMatch bounds std::mismatch by the shorter length; beginsWith compares the match
           length with the length of the prefix argument.  A word-at-a-time front loop is accepted when a word is read
           only while offset + W <= min(sizes), equal words advance by W, and differing words return offset +
           ctz(w1 ^ w2) / 8 (rounding down; `(ctz + c) / 8` is reported).
  R-C18-7  (also) a string delimiter is read the same way by every search of a tokeniser: as a set of characters
           (find_first_of / find_first_not_of) or as one separator string (find); mixing both is reported.
  R-C18-7  (also) a token start that is assigned the result of a search (and so can be npos) is used only behind a
           test against npos, or behind a successful search that started from it.
  R-C18-7  tokenizer loop shape: a token runs from the token start to the found delimiter, the search for the
           delimiter starts at the token start, the next token starts right behind the delimiter; split(char)
           reads with getline(stream(input), token, delimiter parameter).
  R-C18-8  cut points: FileName path/base cut behind the last separator, ext/dropExt/name/setExt cut at the dot;
           PseudoURL constructor skips "://" by its own length and cuts name=value around the first '=' (both cuts must
           be found, in the constructor or a helper; a value taken as field [1] of split(component, '=') is reported);
           the uncut component is stored as a name only where the delimiter was not found.

  R-C18-9  PseudoURL::params keeps URL order: only appended to (one append per token, tokens 1..n ascending, token 0
           is the file name), never handed to an operation that reorders or overwrites it (std::sort, unique, ...);
           positive example in witness/c18_param_order.cpp.
  R-C18-10 a rung that prints <integer>.<integer> prints a fraction that fits its digits: interval of the fraction
           expression over the unsigned input with the constant unit of the call site (positive example in the witness).

  R-C18-11 FileName normal form: every function that writes the private string is a constructor / helper (by reference or
           by value) that strips all trailing separators after storing its input AND after converting foreign
           separators (loop or find_last_not_of form), or only copies another
           FileName's string; appending a separator to the private string outside such a function is reported.
  R-C18-12 purity: no function reachable from the anchored helpers writes a non-const object with static storage
           duration (function-local static, namespace scope); thread_local / atomic / mutex state is not decided;
           positive example in witness/c18_param_order.cpp.
  R-C18-13 the printed text fits: for every size-limited print in prettyDouble / prettyNumber (or a file-local helper they
           call) the longest text of the format - sign if the printed value can be negative, integer digits of the largest
           magnitude that reaches the call after rounding to the printed precision (bounded by the comparisons with constants
           on the branch edges every path takes, else by the type), decimals, suffix, terminator - is at most the limit, and
           a limit larger than the destination array is not needed.  Bounds that rest on an unrecognised guard: undecided.

Equivalent shapes: running indices of a loop (dst = where; ...; dst++ next to src++) are rewritten in terms of the
loop index before distances are compared; vector::assign(first, last) stands for the push_back loop; an iterator loop
`for (it = c.begin() [++]; it != c.end(); ++it)` for an index loop; emplace_back(s, pos, n) / std::string(s, pos, n)
for push_back(s.substr(pos, n)); std::find_if over rbegin()..rend() with the name predicate for "last match",
over begin()..end() for "first match" (accepted only if the constructor stores one entry per name); std::any_of for
hasParam.  Floors count tokeniser functions, not push sites.

More equivalent shapes (refactor batch 5): `i != bound` loops walked upwards by 1 whose start is known not to exceed the
bound (pointer walks `cur != end` over [av + 1, av + ac)); a count update that is skipped only on `howMany == 0`; a
tokeniser that hands its arguments to a worker in the same file (tokenize -> tokenizeFrom(str, start, ...), the scan may
start at a caller-given offset); cuts written as assign(src, 0, pos) / std::string(src, pos) / std::string(first, last) on
iterators found by std::find, a delimiter kept in a const array, and the remainder handed on as a returned offset.

A ladder written as a counting loop with a running unit (unit *= 1000, suffix from a constant table indexed by the loop
index) is unrolled over its constant trip count: the same divisor / threshold / suffix obligations per rung, and the
bound must not wrap in its integer type (`input < unit * 1000` for the last unit) -- `input / unit < 1000` does not.
An accessor computed on the temporary returned by another one (dropExt().base()) is decided with the boundary class
of ext(): the temporary is re-normalised by the constructor.

Layered accessors (refactor batch 6): positions found inside the last component (base(), or a helper that is handed it)
are kept apart from positions in the whole name ('DB' vs 'D'); `filename.size() - (base.size() - dot)` and
`path().size() + dot` turn one into the other, `path().size()` is the start of the last component; a helper result that
may be npos is split into both cases where it is obtained.  beginsWith may be `input.compare(0, prefix.size(), prefix) == 0`
(early `return false` only for a longer prefix); the prefix-length loop may sit in longestBeginningMatch itself.

Searches that are not std::string members (refactor batch 7): `std::find(first, last, c)` over iterators or pointers is a
find whose "not found" value is `last`; a scan helper `while (pos < s.size() && set.contains(s[pos]) == flag) ++pos;
return pos;` over a verified bool[256] character-class table stands for find_first_not_of (flag true) / find_first_of
(flag false) with "not found" = s.size(); tokens may be built from an iterator pair (`emplace_back(first, stop)`).  A
tokeniser may hand (offset, length) to a visitor instead of pushing: the emissions are checked like pushes, a caller whose
lambda does `tokens.push_back(str.substr(offset, length))` is that tokeniser.  The URL constructor may be driven by the
same walk (another instance of the template checked under R-C18-2/7): R-C18-8 looks into the lambda (cuts over the
pointer range [data()+offset, +length), remainder given as `separator + 3`), R-C18-9 decides the store order from the
flag idiom (a bool local, false at first: first call takes the file name and stores nothing, every later call stores
exactly once, on every path of the lambda).

Round 8: removeArgs may close the gap by alternatives on separate branches - the tail shifted down (sources
[where+howMany, ac), upwards walk) or the front slid up (sources [0, where), destination = source + howMany, which must be
walked downwards, followed by `av += howMany`); an upwards walk of the front slide, a missing / misplaced advance of av and
wrong ranges are recognised wrong.  FileName: a sibling may ask ext() (contract checked on ext() itself): "" without
extension dot, name[dot+1, end) with one - which is empty, too, when the name ends in its extension dot; `.empty()` /
`.size()` of the result, `size() - ext().size() [- 1]`, `filename.back() == '.'` / `filename[pos] == '.'` are followed, so a
return reached with "extension dot present, ext() empty" that does not cut at the dot is reported with that cause.

Refactor batch 8: tokenize may return what another tokeniser returns (`pieces = split(str, std::string(1, delim))`, every
piece appended by insert(tokens.end(), begin, end) or a push loop): the delegation is an R-C18-7 instance (insert at begin(),
keepDelim = true are recognised wrong) and the splitter is checked in its place.  FileName: a file-local helper that is handed
the name and returns a string cut out of it (withoutExt) is summarised per return into (string, dot state, separator state)
and spliced into the caller's typestate; operator+ may assemble the member directly if the part behind the separator is the
string of a FileName that every path has tested to be non-empty (.empty() / size() / == "") and nothing follows it.

Round 9: a tokeniser may hand (string, begin, end | offset, length, vector) to a file-local push helper: the call is a token
emission, the helper's own tests are an R-C18-2 instance; a branch that decides whether the push is reached and compares the
token with an element of the output vector (tokens.back() == token) is recognised wrong (repeated tokens must be kept).
params may be grouped by name with std::stable_sort and a names-only comparator (std::sort: not stable, recognised wrong);
getValue may then take the entry in front of std::upper_bound (same comparator, key pair(name, ..), absent iff bound == begin
or the name in front differs), hasParam std::binary_search.  parseAndRemove scanning from the back is recognised wrong
(an option owns the arguments behind it).

Refactor batch 9: the SI prefix may be chosen by counting how many entries of a strictly sorted constant threshold table the
magnitude reaches (`k = counter(|v|); if (k > 0) print(v / SCALE[k-1], SUFFIX[k-1])`): one R-C18-3 rung per table entry
(unsorted table, index k instead of k-1, scale / suffix / threshold mismatches are recognised wrong).  FileName accessors may
read a struct of marks filled by one hand-written backward scan (marks_scan: exactly `for (i = s.size(); i-- > 0;)`, break at
the separator after storing its index, the first '.' met stored once): the fields get the values the find_last_of pairs plus
`dot > sep` give (forked into found / npos at the call), one-line const methods of the struct are evaluated in place.  A
scan without the "still npos" guard leaves the FIRST dot of the component (R-C18-1 dot-search-first), one without the break
the last dot of the whole name (dot-unguarded); any other loop shape is not summarised (undecided through the floors).  A
constructor that delegates to another non-copy constructor counts as normalised by that one (R-C18-11).

Round 10: R-C18-14 (joining): a path separator goes behind the string of a FileName (`filename + path_sep`, or `t += filename;
t += path_sep`) only where a branch edge on every path says that string is not empty - the empty left operand is neutral.
R-C18-6: quick rejects in front of the real test of beginsWith: `return false` on "first characters differ" is sound only
where the prefix is known to be non-empty (prefix[0] of an empty prefix is the NUL); sound rejects are set aside, the rest of
the function is checked as before.

Helpers: file-local / private helpers are followed with parameters mapped (FileName position helpers are
summarised into the typestate, a prefix-length index loop stands for std::mismatch, a lookup helper that scans
from the back and returns the first hit stands for last-duplicate-wins, name=value cutting may live in a helper).

Not decided: split / re-join laws as statements over all strings, split(..., keepDelim=true), FileName
normalisation in the constructors, addExt/operator+/operator-, the URL round trip as a whole, printed precision of
prettyDouble, lowerCase/upperCase.
"""
import math
import re
from fractions import Fraction

from rkstatic.x_expr import Normalizer, Poly, Rel, nnf

LEVEL = 'other'
EXPLANATION = (
    "Static analysis of the clang AST/CFG of the string helpers: a path-sensitive typestate analysis decides that "
    "FileName uses the last '.' as an extension boundary only after comparing it with the last separator; "
    "relational normal forms of the branch conditions that dominate each token push_back decide that no "
    "non-empty token is filtered out (tokenize, both split forms) and a def-use shape analysis decides that a "
    "token spans exactly start..delimiter; the SI ladders of prettyDouble/prettyNumber are extracted rung by rung "
    "and compared with the SI table; loop-shape rules decide last-duplicate-wins in PseudoURL::getValue, the "
    "shift loop of removeArgs, the erase count of ArgumentList::remove and the advance rule of parseAndRemove; "
    "normal forms of the iterator arithmetic decide the bound of longestBeginningMatch; a who-may-write scan over every "
    "access to PseudoURL::params decides that the list is only appended to in token order and never reordered; an "
    "interval evaluation decides that an integer-printed fraction fits its digit count. Not decided: the "
    "split/re-join laws as statements over all strings, keepDelim, constructor normalisation, printed precision.")

NPOS_V = 2 ** 64 - 1
A_NPOS = ('npos',)
P_NPOS = Poly.atom(A_NPOS)

INT_CT = {'bool', 'char', 'signed char', 'unsigned char', 'short', 'unsigned short', 'int', 'unsigned int', 'long',
          'unsigned long', 'long long', 'unsigned long long'}
FIND_DELIM = ('find', 'find_first_of')
FIND_NONDELIM = ('find_first_not_of',)
FIND_LAST = ('find_last_of', 'rfind')
FIND_ALL = FIND_DELIM + FIND_NONDELIM + FIND_LAST + ('find_last_not_of',)


def plain_ct(ct):
    return (ct or '').replace('const ', '').replace(' const', '').replace('&', '').strip()


def top_const(ct):
    """is the object itself const (not merely a pointer / reference to const)?"""
    t = (ct or '').strip()
    # template arguments do not matter for the qualification of the object itself
    depth, outer = 0, []
    for ch in t:
        if ch == '<':
            depth += 1
        elif ch == '>':
            depth -= 1
        elif depth == 0:
            outer.append(ch)
    t = ''.join(outer).strip()
    if t.endswith('&') or t.endswith('*'):
        return False
    if '*' in t:
        return t.endswith('const')
    return t.startswith('const ') or t.endswith(' const')


def is_int_ct(ct):
    return plain_ct(ct) in INT_CT


def last_name(q):
    return (q or '').split('::')[-1]


# ====================================================================================================
#  per-function expression toolkit: definitions of locals, single-definition inlining, dominating guards
# ====================================================================================================
class FnX(Normalizer):
    def __init__(self, tu, f):
        Normalizer.__init__(self, tu)
        self.f = f
        self.g = tu.cfg(f)
        self.at = None
        self.params = {p['id']: p for p in f.get('params', [])}
        self.vars = {}
        self._edge_cache = {}
        self._collect()

    # ------------------------------------------------------------------ positions
    def pos_of(self, n):
        i = n['id'] if isinstance(n, dict) else n
        hops = 0
        while i is not None and hops < 60:
            w = self.g.where(i)
            if w:
                return w
            i = self.tu.parent.get(i)
            hops += 1
        return None

    def _succ_pos(self, p):
        b, i = p
        blk = self.g.blocks[b]
        if i < len(blk.el):
            return [(b, i + 1)]
        return [(s, 0) for s in blk.succ if s is not None]

    def reach(self, start, avoid=None):
        """positions reachable from `start` (inclusive) without expanding `avoid`"""
        seen = {start}
        stack = [start]
        while stack:
            p = stack.pop()
            if p == avoid:
                continue
            for q in self._succ_pos(p):
                if q not in seen:
                    seen.add(q)
                    stack.append(q)
        return seen

    def clean(self, a, u, varids):
        """no definition of any of `varids` can execute between position a (a definition / test that was just
        executed) and position u without a being executed again"""
        if a is None or u is None:
            return False
        after_a = (a[0], a[1] + 1)
        r1 = None
        for v in varids:
            info = self.vars.get(v)
            if info is None:
                continue
            if info['escaped']:
                return False
            for kind, node, pos in info['defs']:
                if pos is None:
                    return False
                if pos == a:
                    continue
                if r1 is None:
                    r1 = self.reach(after_a, avoid=a)
                if pos in r1:
                    r2 = self.reach((pos[0], pos[1] + 1), avoid=a)
                    if u in r2:
                        return False
        return True

    # ------------------------------------------------------------------ definitions of locals
    def _collect(self):
        tu = self.tu
        body = tu.body(self.f)
        if body is None:
            return
        for pid, p in self.params.items():
            self.vars[pid] = {'name': p.get('name'), 'ct': p.get('ct'), 'defs': [], 'escaped': False, 'param': True,
                              'init': None}
        for n in tu.walk(body):
            k = n.get('kind')
            if k == 'VarDecl':
                ty = n.get('type', {})
                init = tu.kids(n)[0] if n.get('init') and tu.kids(n) else None
                dpos = self.pos_of(n)
                if dpos is None and init is not None:
                    # `T a = .., b = ..;`: clang's CFG splits the statement into synthetic ones; the initialiser is an element
                    dpos = self.g.where(init.get('id')) if self.g is not None else None
                    if dpos is None and self.g is not None:
                        for y in tu.walk(init):
                            w = self.g.where(y.get('id'))
                            if w is not None and (dpos is None or w[0] == dpos[0] and w[1] > dpos[1]):
                                dpos = w
                self.vars[n['id']] = {'name': n.get('name'), 'ct': ty.get('desugaredQualType') or ty.get('qualType'),
                                      'defs': [('init', init, dpos)] if init is not None else [],
                                      'escaped': False, 'param': False, 'init': init}
        for n in tu.walk(body):
            if n.get('kind') != 'DeclRefExpr':
                continue
            d = n.get('referencedDecl', {}).get('id')
            v = self.vars.get(d)
            if v is None:
                continue
            if top_const(v['ct']) and not v['param']:
                continue        # a const local has its initialiser as only definition
            if v['param'] and (v['ct'] or '').startswith('const ') and (v['ct'] or '').rstrip().endswith('&') and \
                    '*' not in (v['ct'] or '').split('<')[0]:
                continue        # reference-to-const parameter: cannot be modified through this name
            p = tu.par(n)
            while p is not None and p.get('kind') == 'ParenExpr':
                n, p = p, tu.par(p)
            pk = p.get('kind') if p else None
            if pk == 'ImplicitCastExpr' and p.get('castKind') in ('LValueToRValue', 'NoOp'):
                continue
            if pk in ('BinaryOperator', 'CompoundAssignOperator') and tu.kids(p) and tu.kids(p)[0] is n:
                if pk == 'CompoundAssignOperator':
                    v['defs'].append(('compound', p, self.pos_of(p)))
                    continue
                if p.get('opcode') == '=':
                    v['defs'].append(('assign', tu.kids(p)[1], self.pos_of(p)))
                    continue
            if pk == 'UnaryOperator' and p.get('opcode') in ('++', '--'):
                v['defs'].append(('inc', p, self.pos_of(p)))
                continue
            if pk == 'CXXOperatorCallExpr' and '__normal_iterator' in (v['ct'] or '') and len(tu.kids(p)) >= 2 and tu.kids(p)[1] is n:
                onm = last_name(tu.sd(p).get('q'))
                if onm == 'operator=' and len(tu.kids(p)) == 3:
                    v['defs'].append(('assign', tu.kids(p)[2], self.pos_of(p)))
                    continue
                if onm in ('operator++', 'operator--'):
                    v['defs'].append(('inc', dict(p, opcode='++' if onm == 'operator++' else '--'), self.pos_of(p)))
                    continue
                if onm in ('operator*', 'operator->', 'operator==', 'operator!=', 'operator<', 'operator+', 'operator-', 'operator[]'):
                    continue
            if pk == 'MemberExpr' and not is_int_ct(v['ct']):
                # member call on a class-type local through a non-const path: may modify it
                if not top_const(v['ct']):
                    v['escaped'] = True
                continue
            if pk in ('BinaryOperator',) and p.get('opcode') in ('==', '!=', '<', '>', '<=', '>=', '+', '-', '*'):
                continue
            if pk == 'CallExpr' and tu.sd(p).get('q') in ('std::move', 'std::forward'):
                continue        # handing the value on; the local is not used as a token source afterwards
            if pk == 'CallExpr' and tu.sd(p).get('q') in ('std::make_pair', 'std::make_tuple'):
                continue        # copies an lvalue argument
            if pk == 'LambdaExpr':
                continue        # capture: the uses inside the lambda body are visited like any other use
            if pk == 'CXXMemberCallExpr' and last_name(tu.sd(p).get('q')) in ('emplace_back', 'emplace') and \
                    (is_int_ct(v['ct']) or '__normal_iterator' in (v['ct'] or '') or (v['ct'] or '').rstrip().endswith('*')):
                continue        # forwarded to a constructor that takes the number by value
            v['escaped'] = True

    def var_of(self, e):
        """(decl id, info) if e is (after stripping) a reference to a local / parameter"""
        e = self.tu.strip(e, casts=True)
        if e is not None and e.get('kind') == 'DeclRefExpr':
            d = e.get('referencedDecl', {}).get('id')
            if d in self.vars:
                return d, self.vars[d]
        return None, None

    def single_init(self, d):
        v = self.vars.get(d)
        if v is None or v['param'] or v['escaped'] or len(v['defs']) != 1 or v['defs'][0][0] != 'init' or v['init'] is None:
            return None
        return v['init']

    # ------------------------------------------------------------------ normal forms
    def const_of(self, n):
        cv = self.tu.sd(n).get('cv')
        if cv is None:
            return None
        try:
            c = int(cv)
        except ValueError:
            return None
        if c == NPOS_V:
            return P_NPOS
        return Poly.const(c)

    def is_npos_ref(self, n):
        q = self.tu.sd(n).get('q') or ''
        return n.get('kind') in ('MemberExpr', 'DeclRefExpr') and q.startswith('std::basic_string<') and q.endswith('::npos')

    def objkey(self, obj):
        tu = self.tu
        if obj is None:
            return ('this',)
        e = tu.strip(obj, casts=True)
        if e is None:
            return ('expr', None)
        k = e.get('kind')
        if k == 'DeclRefExpr':
            rd = e.get('referencedDecl', {})
            return ('var', rd.get('id'), rd.get('name'))
        if k == 'MemberExpr':
            ks = tu.kids(e)
            if not ks or tu.is_this(ks[0]):
                return ('field', ('this',), e.get('name'))
        if k == 'CXXThisExpr':
            return ('this',)
        if k == 'CXXOperatorCallExpr' and last_name(tu.sd(e).get('q')) in ('operator->', 'operator*') and len(tu.kids(e)) == 2:
            inner = self.objkey(tu.kids(e)[1])
            if inner[0] == 'var':
                return ('deref', inner)
        if k == 'UnaryOperator' and e.get('opcode') == '*' and tu.kids(e):
            inner = self.objkey(tu.kids(e)[0])
            if inner[0] == 'var':
                return ('deref', inner)
        return ('expr', e.get('id'))

    def is_copy_ctor(self, e):
        """CXXConstructExpr / CXXTemporaryObjectExpr that copies or moves an object of its own type"""
        if e.get('kind') not in ('CXXConstructExpr', 'CXXTemporaryObjectExpr'):
            return False
        ks = [k for k in self.tu.kids(e) if k.get('kind') != 'CXXDefaultArgExpr']
        if len(ks) != 1:
            return False
        m = re.match(r'^void \((.*)\)( noexcept)?$', e.get('ctorType', {}).get('qualType', ''))
        if not m:
            return False
        pt = plain_ct(m.group(1).replace('&&', ''))
        own = plain_ct(self.tu.sd(e).get('ct') or '')
        own_q = plain_ct(e.get('type', {}).get('qualType', ''))
        return pt in (own, own_q) or (pt and own and last_name(pt.split('<')[0]) == last_name(own.split('<')[0])
                                      and pt.split('<')[0].split('::')[-1] == own.split('<')[0].split('::')[-1]
                                      and ('<' not in pt or pt.split('<', 1)[1] == own.split('<', 1)[1]))

    def peel(self, e):
        """strip temporaries, copies / moves of the same type, std::move / std::forward"""
        tu = self.tu
        for _ in range(30):
            e = tu.strip(e, casts=True)
            if e is None:
                return None
            k = e.get('kind')
            if self.is_copy_ctor(e):
                e = [x for x in tu.kids(e) if x.get('kind') != 'CXXDefaultArgExpr'][0]
                continue
            if k == 'CallExpr' and tu.sd(e).get('q') in ('std::move', 'std::forward') and len(tu.kids(e)) == 2:
                e = tu.kids(e)[1]
                continue
            return e
        return e

    def leaf(self, n):
        tu = self.tu
        k = n.get('kind')
        sd = tu.sd(n)
        if k == 'DeclRefExpr':
            c = self.const_of(n)
            if c is not None:
                return c
            rd = n.get('referencedDecl', {})
            d = rd.get('id')
            if d in getattr(self, 'bind', {}):
                return self.bind[d]
            init = self.single_init(d)
            v = self.vars.get(d)
            if init is not None and self.at is not None and (is_int_ct(v['ct']) or '__normal_iterator' in (v['ct'] or '') or (v['ct'] or '').rstrip().endswith('*')):
                a = v['defs'][0][2]
                if a is not None:
                    save = self.at
                    self.at = a
                    try:
                        p = self.poly(init)
                    finally:
                        self.at = save
                    ats = p.atoms(deep=True)
                    ids = [x[1] for x in ats if isinstance(x, tuple) and x and x[0] == 'var']
                    opaque = any(isinstance(x, tuple) and x and x[0] in ('expr', 'unk') for x in ats)
                    if not opaque and self.clean(a, self.at, ids):
                        return p
            return Poly.atom(('var', d, rd.get('name')))
        if k == 'MemberExpr':
            c = self.const_of(n)
            if c is not None:
                return c
            ks = tu.kids(n)
            if not ks or tu.is_this(ks[0]):
                return Poly.atom(('field', ('this',), n.get('name')))
            return Poly.atom(('field', self.objkey(ks[0]), n.get('name')))
        if k == 'CXXMemberCallExpr':
            s, obj, args = tu.call_parts(n)
            name = last_name(s.get('q'))
            key = self.objkey(obj)
            if name in ('size', 'length') and not args:
                return Poly.atom(('size', key))
            if name in ('data', 'c_str') and not args and (s.get('q') or '').startswith('std::basic_string<'):
                return Poly.atom(('data', key))
            if name in ('begin', 'cbegin') and not args:
                return Poly.atom(('begin', key))
            if name in ('end', 'cend') and not args:
                return Poly.atom(('begin', key)) + Poly.atom(('size', key))
            if name == 'empty' and not args:
                return self.bool_value(('rel', Rel.make(Poly.atom(('size', key)), '==', 0)))
            return Poly.atom(('expr', n.get('id')))
        if k == 'CXXOperatorCallExpr':
            name = last_name(sd.get('q'))
            ks = tu.kids(n)[1:]
            if name in ('operator+', 'operator-') and len(ks) == 2 and '__normal_iterator' in (sd.get('q') or '') + (sd.get('ct') or ''):
                a, b = self.poly(ks[0]), self.poly(ks[1])
                return a + b if name == 'operator+' else a - b
            if name == 'operator-' and len(ks) == 2 and '__normal_iterator' in (tu.sd(ks[0]).get('ct') or ''):
                return self.poly(ks[0]) - self.poly(ks[1])
            if name in ('operator==', 'operator!=', 'operator<', 'operator<=', 'operator>', 'operator>=') and len(ks) == 2 and \
                    all('__normal_iterator' in (tu.sd(tu.strip(y, casts=True)).get('ct') or tu.sd(y).get('ct') or '') for y in ks):
                return self.bool_value(('rel', Rel.make(self.poly(ks[0]), name[8:], self.poly(ks[1]))))
            return Poly.atom(('expr', n.get('id')))
        if k == 'CallExpr':
            q = sd.get('q')
            args = tu.kids(n)[1:]
            if q in ('std::min', 'std::max') and len(args) == 2:
                ps = sorted((self.poly(a) for a in args), key=repr)
                if ps[0] == ps[1]:
                    return ps[0]
                return Poly.atom((last_name(q),) + tuple(ps))
            if q in ('std::move', 'std::forward') and len(args) == 1:
                return self.poly(args[0])
            if q in ('__builtin_ctz', '__builtin_ctzl', '__builtin_ctzll') and len(args) == 1:
                xo = tu.strip(args[0], casts=True)
                if xo is not None and xo.get('kind') == 'BinaryOperator' and xo.get('opcode') == '^':
                    vs = [self.var_of(y)[1]['name'] if self.var_of(y)[0] else None for y in tu.kids(xo)[:2]]
                    if all(vs):
                        return Poly.atom(('ctz',) + tuple(sorted(vs)))
            return Poly.atom(('expr', n.get('id')))
        if k in ('CXXConstructExpr', 'CXXTemporaryObjectExpr') and self.is_copy_ctor(n):
            return self.poly([x for x in tu.kids(n) if x.get('kind') != 'CXXDefaultArgExpr'][0])
        if k == 'CXXDefaultArgExpr':
            c = self.const_of(n)
            if c is not None:
                return c
        if k == 'CXXThisExpr':
            return Poly.atom(('this',))
        if k == 'BinaryOperator' and n.get('opcode') == '=':
            # value of an assignment expression: the variable just assigned
            return self.poly(tu.kids(n)[0])
        if k == 'ConditionalOperator':
            # `option && ... ? a : b` on a bool parameter: the clause analysed is the one with the option off
            c, t, fl = tu.kids(n)[:3]
            c0 = tu.strip(c, casts=True)
            while c0 is not None and c0.get('kind') == 'BinaryOperator' and c0.get('opcode') == '&&':
                c0 = tu.strip(tu.kids(c0)[0], casts=True)
            d, v = self.var_of(c0) if c0 is not None else (None, None)
            if d in self.params and plain_ct(v['ct']) == 'bool' and not v['defs']:
                self.option_notes = getattr(self, 'option_notes', set())
                self.option_notes.add(v['name'])
                return self.poly(fl)
        return None

    def poly(self, n):
        # compile-time constants recorded on a wrapper (implicit cast of `npos`, default arguments) win
        m = n
        for _ in range(12):
            if m is None:
                break
            k = m.get('kind')
            if k in ('ImplicitCastExpr', 'ParenExpr', 'ExprWithCleanups', 'MaterializeTemporaryExpr', 'ConstantExpr',
                     'CXXDefaultArgExpr', 'MemberExpr', 'DeclRefExpr'):
                c = self.const_of(m)
                if c is not None:
                    return c
                if self.is_npos_ref(m):
                    return P_NPOS
            if k in ('ImplicitCastExpr', 'ParenExpr', 'ExprWithCleanups', 'MaterializeTemporaryExpr', 'ConstantExpr'):
                ks = self.tu.kids(m)
                m = ks[0] if ks else None
                continue
            break
        return Normalizer.poly(self, n)

    def poly_at(self, n, at=None):
        save = self.at
        self.at = at if at is not None else self.pos_of(n)
        try:
            return self.poly(n)
        finally:
            self.at = save

    def cond_at(self, n, truth=True, at=None):
        save = self.at
        self.at = at if at is not None else self.pos_of(n)
        try:
            c = self.cond(n)
        finally:
            self.at = save
        return nnf(c if truth else ('not', c))

    # ------------------------------------------------------------------ dominating branch edges
    def _reach_block_without_edge(self, target, edge):
        g = self.g
        seen = {g.entry}
        stack = [g.entry]
        while stack:
            b = stack.pop()
            if b == target:
                return True
            for si, s in enumerate(g.blocks[b].succ):
                if s is None or (b, si) == edge:
                    continue
                if s not in seen:
                    seen.add(s)
                    stack.append(s)
        return target in seen

    def guards(self, pos):
        """[(cond node, truth, block)] of every two-way branch edge that every path to `pos` takes"""
        out = []
        tu = self.tu
        for b in self.g.blocks.values():
            if b.cond is None or len(b.succ) != 2:
                continue
            s0, s1 = b.succ
            if s0 is None or s1 is None or s0 == s1:
                continue
            for si in (0, 1):
                key = (pos[0], b.id, si)
                r = self._edge_cache.get(key)
                if r is None:
                    r = not self._reach_block_without_edge(pos[0], (b.id, si))
                    self._edge_cache[key] = r
                if r and not (b.id == pos[0]):
                    out.append((deciding_cond(tu, b, self.g), si == 0, b))
        return out

    def var_ids(self, *polys):
        out = []
        for p in polys:
            if p is None:
                continue
            for x in p.atoms(deep=True):
                if isinstance(x, tuple) and x and x[0] == 'var' and x[1] not in out:
                    out.append(x[1])
        return out


def deciding_cond(tu, blk, g=None):
    """the expression whose value decides the branch at the end of a block.  For the last block of a short-circuit
    chain clang names the whole `a || b`; if the right operand is evaluated in this very block, its value is the one
    decided here (the left operand was decided by an earlier branch).  If it is not (temporaries in the condition
    make clang re-join before branching), the whole expression is returned."""
    c = tu.node(blk.cond) if blk.cond else None
    for _ in range(20):
        s = tu.strip(c) if c is not None else None
        if s is not None and s.get('kind') == 'BinaryOperator' and s.get('opcode') in ('&&', '||'):
            rhs = tu.kids(s)[1]
            inner = tu.strip(rhs)
            here = False
            if g is not None:
                for cand in (rhs, inner):
                    w = g.where(cand.get('id')) if cand is not None else None
                    if w is not None and w[0] == blk.id:
                        here = True
            else:
                here = True
            if not here:
                return c
            c = rhs
            continue
        break
    return c


def fn_name(f):
    """pattern-level name for keys: qualified name without the rkcommon:: / utility:: prefixes"""
    return f['q'].replace('rkcommon::utility::', '').replace('rkcommon::', '')


def about(L, n):
    """(k, c) with L == k*n + c, k != 0 constant, c constant; else None"""
    ats = n.atoms(deep=False)
    if not ats:
        return None
    a = ats[0]
    ln = n.linear_in(a)
    lL = L.linear_in(a)
    if ln is None or lL is None or ln[0] == 0:
        return None
    k = lL[0] / ln[0]
    if k == 0:
        return None
    c = (L - n * k).as_const()
    if c is None:
        return None
    return k, c


def rels_of(nf):
    """flatten a conjunction in negation normal form into its leaves; None if it contains a disjunction"""
    if nf[0] == 'and':
        out = []
        for x in nf[1:]:
            r = rels_of(x)
            if r is None:
                return None
            out += r
        return out
    if nf[0] == 'or':
        return None
    return [nf]


# ====================================================================================================
#  searches that are not std::string members: std::find on iterators, a verified character-class scan helper
# ====================================================================================================
_CHARSET = {}
_SKIP = {}


def _uchar_index_of(tu, e):
    """decl id of the char variable v if e is static_cast<unsigned char>(v) / (unsigned char)v"""
    e0 = tu.strip(e)
    if e0 is None or e0.get('kind') not in ('CXXStaticCastExpr', 'CStyleCastExpr', 'CXXFunctionalCastExpr') or \
            plain_ct(tu.sd(e0).get('ct')) != 'unsigned char':
        return None
    inner = tu.strip(tu.kids(e0)[-1], casts=True) if tu.kids(e0) else None
    if inner is not None and inner.get('kind') == 'DeclRefExpr':
        return inner.get('referencedDecl', {}).get('id')
    return None


def charset_class(tu, recq):
    """is the class a set of characters: member table of bool indexed by (unsigned char), all false initially, set to true
    exactly for the characters of the constructor's string argument; contains(c) reads table[(unsigned char)c]"""
    key = (id(tu), recq)
    if key in _CHARSET:
        return _CHARSET[key]
    _CHARSET[key] = False
    rec = [r for r in tu.records.values() if r.get('q') == recq]
    if not rec:
        return False
    tables = [fl for fl in rec[0].get('fields', []) if re.match(r'^bool\s*\[\d+\]$', fl.get('ct') or '') and fl.get('hasinit')]
    if len(tables) != 1 or len(rec[0].get('fields', [])) != 1 or int(re.findall(r'\d+', tables[0]['ct'])[0]) < 256:
        return False
    fq = recq + '::' + tables[0]['name']
    ok_ctor = ok_contains = False
    for f in tu.functions.values():
        if f.get('rec') != recq or f['dep'] or tu.body(f) is None or f.get('implicit'):
            continue
        body = tu.body(f)
        writes = [n for n in tu.walk(body) if n.get('kind') in ('BinaryOperator', 'CompoundAssignOperator', 'UnaryOperator') and
                  n.get('opcode') in ('=', '|=', '&=', '^=', '++', '--') and
                  any(y.get('kind') == 'MemberExpr' and tu.sd(y).get('q') == fq for y in tu.walk(tu.kids(n)[0]))]
        if f.get('ctor') == 'other' and len(f.get('params', [])) == 1 and 'basic_string' in f['params'][0]['ct']:
            stmts = tu.kids(body)
            if len(stmts) != 1 or stmts[0].get('kind') != 'CXXForRangeStmt' or len(writes) != 1:
                return False
            fr_ = stmts[0]
            rng = [v for v in tu.walk(fr_) if v.get('kind') == 'VarDecl' and (v.get('name') or '').startswith('__range')]
            src = tu.strip(tu.kids(rng[0])[0], casts=True) if rng and tu.kids(rng[0]) else None
            lv = None
            for st in tu.kids(fr_):
                if st.get('kind') == 'DeclStmt':
                    for v2 in tu.kids(st):
                        if v2.get('kind') == 'VarDecl' and not (v2.get('name') or '').startswith('__'):
                            lv = v2
            w = writes[0]
            l, r = tu.kids(w)[:2]
            l0 = tu.strip(l)
            if src is None or src.get('referencedDecl', {}).get('id') != f['params'][0]['id'] or lv is None or w.get('opcode') != '=' or \
                    l0.get('kind') != 'ArraySubscriptExpr' or _uchar_index_of(tu, tu.kids(l0)[1]) != lv['id'] or \
                    tu.sd(tu.strip(r, casts=True)).get('cv') != '1':
                return False
            # the write is the whole loop body
            ok_ctor = True
        elif last_name(f['q']) == 'contains':
            stmts = tu.kids(body)
            if writes or len(stmts) != 1 or stmts[0].get('kind') != 'ReturnStmt' or len(f.get('params', [])) != 1 or not f.get('const'):
                return False
            e = tu.strip(tu.kids(stmts[0])[0], casts=False)
            e = tu.strip(e)
            if e is None or e.get('kind') != 'ArraySubscriptExpr' or _uchar_index_of(tu, tu.kids(e)[1]) != f['params'][0]['id'] or \
                    not any(y.get('kind') == 'MemberExpr' and tu.sd(y).get('q') == fq for y in tu.walk(tu.kids(e)[0])):
                return False
            ok_contains = True
        elif writes:
            return False
    _CHARSET[key] = ok_ctor and ok_contains
    return _CHARSET[key]


def skip_helper(tu, hf):
    """hf(input, pos, set, inSet) = first position >= pos whose character's membership in `set` differs from inSet, or
    input.size():   while (pos < input.size() && set.contains(input[pos]) == inSet) ++pos; return pos;
    -> dict(input=i, pos=j, set=k, flag=l) of parameter indices, or None"""
    key = (id(tu), hf['id'])
    if key in _SKIP:
        return _SKIP[key]
    _SKIP[key] = None
    ps = hf.get('params', [])
    if hf['dep'] or tu.body(hf) is None or hf.get('rec') or len(ps) != 4:
        return None
    role = {}
    for i, p in enumerate(ps):
        ct = p['ct']
        if 'basic_string' in ct and ct.startswith('const '):
            role['input'] = i
        elif plain_ct(ct) == 'bool':
            role['flag'] = i
        elif is_int_ct(ct):
            role['pos'] = i
        elif ct.startswith('const ') and charset_class(tu, plain_ct(ct)):
            role['set'] = i
    if len(role) != 4:
        return None
    x = FnX(tu, hf)
    pid = {k: ps[i]['id'] for k, i in role.items()}
    stmts = [s_ for s_ in tu.kids(tu.body(hf))]
    loops = [s_ for s_ in stmts if s_.get('kind') == 'WhileStmt']
    rets = [s_ for s_ in stmts if s_.get('kind') == 'ReturnStmt']
    if len(loops) != 1 or len(rets) != 1 or any(s_.get('kind') not in ('WhileStmt', 'ReturnStmt', 'DeclStmt') for s_ in stmts):
        return None
    cond, lbody = tu.kids(loops[0])[:2]
    c0 = tu.strip(cond, casts=True)
    if c0 is None or c0.get('kind') != 'BinaryOperator' or c0.get('opcode') != '&&':
        return None
    a, b = (tu.strip(y, casts=True) for y in tu.kids(c0)[:2])
    pos_at = x.pos_of(a)
    ra = x.cond_at(a, True, pos_at)
    POS, SIZE = Poly.atom(('var', pid['pos'], ps[role['pos']]['name'])), Poly.atom(('size', ('var', pid['input'], ps[role['input']]['name'])))
    if ra[0] != 'rel' or ra[1] != Rel.make(POS, '<', SIZE):
        return None
    if b is None or b.get('kind') != 'BinaryOperator' or b.get('opcode') != '==':
        return None
    sides = [tu.strip(y, casts=True) for y in tu.kids(b)[:2]]
    call = [y for y in sides if y.get('kind') == 'CXXMemberCallExpr' and last_name(tu.sd(y).get('q')) == 'contains']
    flag = [y for y in sides if x.var_of(y)[0] == pid['flag']]
    if len(call) != 1 or len(flag) != 1:
        return None
    s_, obj, args = tu.call_parts(call[0])
    if x.var_of(obj)[0] != pid['set'] or len(args) != 1:
        return None
    el = tu.strip(args[0], casts=True)
    if el is None or el.get('kind') not in ('CXXOperatorCallExpr', 'CXXMemberCallExpr') or last_name(tu.sd(el).get('q')) not in ('operator[]', 'at'):
        return None
    s2, o2, a2 = tu.call_parts(el)
    if x.var_of(o2)[0] != pid['input'] or not a2 or x.var_of(a2[0])[0] != pid['pos']:
        return None
    incs = [n for n in tu.walk(lbody) if n.get('kind') not in ('CompoundStmt', 'ImplicitCastExpr', 'ParenExpr', 'DeclRefExpr')]
    if len(incs) != 1 or incs[0].get('kind') != 'UnaryOperator' or incs[0].get('opcode') != '++' or x.var_of(tu.kids(incs[0])[0])[0] != pid['pos']:
        return None
    if len(x.vars[pid['pos']]['defs']) != 1 or x.var_of(tu.kids(rets[0])[0])[0] != pid['pos']:
        return None
    _SKIP[key] = role
    return role


# ====================================================================================================
#  R-C18-2 / R-C18-7  tokens
# ====================================================================================================
class TokenFn:
    """token pushes of one tokenizer function"""

    def __init__(self, tu, f):
        self.tu = tu
        self.f = f
        self.x = FnX(tu, f)
        self.nf = {}            # search call id -> value that means "not found" (npos, the end iterator, size())
        self.iter_tokens = set()

    # ---- classification of variables
    def find_call(self, e):
        """(name, srckey, args) if e is a std::string find-family call"""
        tu = self.tu
        x = self.x
        e = x.peel(e)
        if e is None:
            return None
        if e.get('kind') == 'CallExpr':
            q = tu.sd(e).get('q') or ''
            args = tu.kids(e)[1:]
            pos = x.pos_of(e)
            if q == 'std::find' and len(args) == 3:
                # std::find(first, last, delimiter): position of the next delimiter in [first, last), `last` if there is none
                last = x.poly_at(args[1], pos)
                key = None
                for a_ in last.atoms(deep=False):
                    if isinstance(a_, tuple) and a_[0] == 'begin' and last == Poly.atom(a_) + Poly.atom(('size', a_[1])):
                        key = a_[1]
                if key is not None:
                    self.nf[e['id']] = last
                    return 'find', key, [args[2], args[0]], e
                return None
            hf = tu.callee_fn(e)
            role = skip_helper(tu, hf) if hf is not None else None
            if role is not None and len(args) == 4:
                fl = x.poly_at(args[role['flag']], pos).as_int()
                sd_, sv_ = x.var_of(args[role['set']])
                init = x.single_init(sd_) if sd_ is not None else None
                ce = tu.strip(init, casts=True) if init is not None else None
                dl = None
                if ce is not None and ce.get('kind') in ('CXXConstructExpr', 'CXXTemporaryObjectExpr'):
                    ks = [y for y in tu.kids(ce) if y.get('kind') != 'CXXDefaultArgExpr']
                    if len(ks) == 1:
                        dl = ks[0]
                if fl in (0, 1) and dl is not None:
                    key = x.objkey(args[role['input']])
                    self.nf[e['id']] = Poly.atom(('size', key))
                    return ('find_first_not_of' if fl == 1 else 'find_first_of'), key, [dl, args[role['pos']]], e
            return None
        if e.get('kind') != 'CXXMemberCallExpr':
            return None
        s, obj, args = tu.call_parts(e)
        q = s.get('q') or ''
        if not q.startswith('std::basic_string<') or last_name(q) not in FIND_ALL:
            return None
        self.nf[e['id']] = P_NPOS
        return last_name(q), x.objkey(obj), args, e

    def nf_of(self, d):
        """the values that mean "nothing found" for the searches assigned to variable d"""
        out = []
        v = self.x.vars.get(d)
        for kind, node, pos in (v['defs'] if v else []):
            if kind in ('init', 'assign') and node is not None:
                fc = self.find_call(node)
                if fc is not None and self.nf.get(fc[3]['id']) is not None and self.nf[fc[3]['id']] not in out:
                    out.append(self.nf[fc[3]['id']])
        return out

    def found_var(self, d, loose_at=None):
        """list of (name, srckey, args, call, pos) of all init/assign definitions if every one is a find call; else None.
        With loose_at = a position: constant initialisers are ignored, provided a search definition dominates that
        position and nothing redefines the variable in between (size_t end = 0; ... end = find(...); use(end))"""
        v = self.x.vars.get(d)
        if v is None or v['param'] or v['escaped']:
            return None
        out = []
        skipped = False
        for kind, node, pos in v['defs']:
            if kind in ('init', 'assign'):
                if node is None:
                    return None
                fc = self.find_call(node)
                if fc is None:
                    if loose_at is not None and self.x.poly_at(node, pos).as_const() is not None:
                        skipped = True
                        continue
                    return None
                out.append(fc + (pos,))
        if skipped and not any(p_ is not None and self.x.g.dominates(p_, loose_at) and self.x.clean(p_, loose_at, [d])
                               for n_, k_, a_, c_, p_ in out):
            return None
        return out or None

    def pushes(self):
        tu = self.tu
        for b, i, n in self.x.g.stmts():
            if n.get('kind') != 'CXXMemberCallExpr':
                continue
            s, obj, args = tu.call_parts(n)
            q = s.get('q') or ''
            if not q.startswith('std::vector<') or last_name(q) not in ('push_back', 'emplace_back') or not args:
                continue
            if 'basic_string' not in q:
                continue
            if len(args) != 1 and not (last_name(q) == 'emplace_back' and len(args) in (2, 3)):
                continue
            yield n, obj, (args[0] if len(args) == 1 else list(args)), (b.id, i)
        # a token handed to a functor parameter:  visit(offset, length)
        fparams = [p['id'] for p in self.f.get('params', [])]
        for b, i, n in self.x.g.stmts():
            if n.get('kind') == 'CXXOperatorCallExpr' and last_name(tu.sd(n).get('q')) == 'operator()':
                ks = tu.kids(n)[1:]
                if len(ks) == 3 and self.x.var_of(ks[0])[0] in fparams and \
                        all(is_int_ct(tu.sd(tu.strip(y, casts=True)).get('ct') or tu.sd(y).get('ct')) for y in ks[1:]):
                    yield n, ks[0], ('visit', ks[1], ks[2]), (b.id, i)
        # a token handed to a file-local helper that pushes  str.substr(begin, end - begin)  /  str.substr(offset, length)
        for b, i, n in self.x.g.stmts():
            if n.get('kind') != 'CallExpr':
                continue
            hf = tu.callee_fn(n)
            if hf is None or hf['id'] == self.f['id'] or hf.get('rec') or hf['dep'] or tu.fn_file(hf) != tu.fn_file(self.f):
                continue
            eh = emit_helper(tu, hf)
            if eh is None:
                continue
            args = tu.kids(n)[1:]
            if len(args) != len(hf['params']):
                continue
            sa, va = args[eh['str']], args[eh['vec']]
            sd_, sv_ = self.x.var_of(sa)
            vd_, vv_ = self.x.var_of(va)
            if sd_ is None or vd_ is None or sd_ not in fparams or vd_ not in fparams:
                continue
            self.emit_helpers = getattr(self, 'emit_helpers', [])
            if hf not in self.emit_helpers:
                self.emit_helpers.append(hf)
            yield n, va, ('emit', args[eh['a']], args[eh['b']], eh['mode'], sa), (b.id, i)

    def token(self, arg, at):
        """describe the pushed token:
           ('substr', srckey, p, [(extra_conds, n or None)], call) | ('getline', var id, call) | None"""
        tu = self.tu
        x = self.x
        if isinstance(arg, tuple) and arg and arg[0] == 'visit':
            # visit(offset, length): the token is source.substr(offset, length) of the (only) string parameter
            sp = [p for p in self.f.get('params', []) if 'basic_string' in p['ct'] and 'vector' not in p['ct']]
            if len(sp) != 1:
                return None
            src = ('var', sp[0]['id'], sp[0]['name'])
            pp, nn = x.poly_at(arg[1], at), x.poly_at(arg[2], at)
            if nn == Poly.atom(('size', src)) - pp:
                nn = None
            return ('substr', src, pp, [([], nn)], tu.par(arg[1]) or arg[1], None, at)
        if isinstance(arg, tuple) and arg and arg[0] == 'emit':
            # helper(str, begin, end, tokens) / helper(str, offset, length, tokens): the token is a substr of the string handed on
            sd_, sv_ = x.var_of(arg[4])
            src = ('var', sd_, sv_['name'])
            pp, bb = x.poly_at(arg[1], at), x.poly_at(arg[2], at)
            nn = (bb - pp) if arg[3] == 'be' else bb
            if nn == Poly.atom(('size', src)) - pp:
                nn = None
            return ('substr', src, pp, [([], nn)], tu.par(arg[1]) or arg[1], None, at)
        if isinstance(arg, list):
            # emplace_back(source, pos[, n]) constructs source.substr(pos[, n]) in place
            ct0 = tu.sd(tu.strip(arg[0], casts=True)).get('ct') or ''
            if '__normal_iterator' in ct0 and len(arg) == 2:
                return self._iters(arg[0], arg[1], tu.strip(arg[0]), at)
            if 'basic_string' in ct0:
                return self._substr(arg[0], arg[1:], tu.strip(arg[0]), None, at)
            return None
        e = x.peel(arg)
        alias = None
        if e is not None and e.get('kind') in ('CXXConstructExpr', 'CXXTemporaryObjectExpr') and \
                (tu.sd(e).get('q') or '').startswith('std::basic_string<'):
            ks = [y for y in tu.kids(e) if y.get('kind') != 'CXXDefaultArgExpr' or tu.sd(y).get('cv')]
            ks = [y for y in ks if 'allocator' not in (tu.sd(y).get('ct') or '')]
            if len(ks) in (2, 3) and 'basic_string' in (tu.sd(tu.strip(ks[0], casts=True)).get('ct') or '') and \
                    is_int_ct(tu.sd(tu.strip(ks[1], casts=True)).get('ct') or tu.sd(ks[1]).get('ct')):
                return self._substr(ks[0], ks[1:], e, None, at)
        d, v = x.var_of(e)
        if d is not None:
            # a local string: either filled by getline or a named copy of the token
            for b, i, n in x.g.stmts():
                if n.get('kind') == 'CallExpr' and tu.sd(n).get('q') == 'std::getline':
                    a = tu.kids(n)[1:]
                    if len(a) >= 2 and x.var_of(a[1])[0] == d:
                        return ('getline', d, n)
            init = x.single_init(d)
            if init is None:
                return None
            alias = ('var', d, v['name'])
            at = v['defs'][0][2]
            e = x.peel(init)
        if e is None or e.get('kind') != 'CXXMemberCallExpr':
            return None
        s, obj, args = tu.call_parts(e)
        if not (s.get('q') or '').startswith('std::basic_string<') or last_name(s.get('q')) != 'substr':
            return None
        return self._substr(obj, args, e, alias, at)

    def _iters(self, first, last, e, at):
        """token built from an iterator pair [first, last) into a parameter string"""
        x = self.x
        p = x.poly_at(first, at)
        q = x.poly_at(last, at)
        src = None
        for po in (p, q):
            for a_ in po.atoms(deep=False):
                if isinstance(a_, tuple) and a_[0] == 'begin':
                    src = a_[1]
                elif isinstance(a_, tuple) and a_[0] == 'var' and a_[1] in x.vars:
                    for kind, node, dpos in x.vars[a_[1]]['defs']:
                        if kind in ('init', 'assign') and node is not None:
                            fc = self.find_call(node)
                            if fc is not None:
                                src = src or fc[1]
                            else:
                                for b_ in x.poly_at(node, dpos).atoms(deep=False):
                                    if isinstance(b_, tuple) and b_[0] == 'begin':
                                        src = src or b_[1]
        if src is None:
            return None
        self.iter_tokens.add(e.get('id'))
        return ('substr', src, p, [([], q - p)], e, None, at)

    def _substr(self, obj, args, e, alias, at):
        tu = self.tu
        x = self.x
        src = x.objkey(obj)
        if not args:
            return None
        p = x.poly_at(args[0], at)
        alts = []
        if len(args) < 2 or tu.strip(args[1]).get('kind') == 'CXXDefaultArgExpr':
            alts.append(([], None))
        else:
            a1 = tu.strip(args[1], casts=True)
            dv1 = x.var_of(a1)[0]
            if dv1 is not None and x.single_init(dv1) is not None and \
                    tu.strip(x.single_init(dv1), casts=True).get('kind') == 'ConditionalOperator':
                a1 = tu.strip(x.single_init(dv1), casts=True)
            if a1.get('kind') == 'ConditionalOperator':
                c, t, fl = tu.kids(a1)[:3]
                for truth, br in ((True, t), (False, fl)):
                    n = x.poly_at(br, at)
                    alts.append(([(c, truth)], None if n == P_NPOS else n))
            else:
                n = x.poly_at(a1, at)
                alts.append(([], None if n == P_NPOS else n))
        return ('substr', src, p, alts, e, alias, at)


_EMIT_MEMO = {}


def emit_helper(tu, hf):
    """hf(const std::string &s, size_t a, size_t b, std::vector<std::string> &out) whose only push onto `out` is
    s.substr(a, b - a) ('be': begin / end) or s.substr(a, b) ('ol': offset / length), possibly through a named local and std::move.
    {'str', 'vec', 'a', 'b': parameter indices, 'mode', 'push': (call, pos), 'tf'} or None.  What else the helper tests before it
    pushes is checked on the helper itself (R-C18-2)."""
    k = (id(tu), hf['id'])
    if k in _EMIT_MEMO:
        return _EMIT_MEMO[k]
    _EMIT_MEMO[k] = None
    ps = hf.get('params', [])
    if tu.cfg(hf) is None or plain_ct(hf['fty'].split('(')[0]) != 'void':
        return None
    si = [i for i, p in enumerate(ps) if 'basic_string' in p['ct'] and 'vector' not in p['ct'] and p['ct'].startswith('const ')]
    vi = [i for i, p in enumerate(ps) if 'vector<std::basic_string<char>' in p['ct'] and not p['ct'].startswith('const ')]
    ii = [i for i, p in enumerate(ps) if is_int_ct(p['ct'])]
    if len(si) != 1 or len(vi) != 1 or len(ii) != 2 or len(ps) != 4:
        return None
    tf = TokenFn(tu, hf)
    x = tf.x
    for i in ii:
        v = x.vars.get(ps[i]['id'])
        if v is None or v['defs'] or v['escaped']:
            return None
    pushes = [p for p in tf.pushes() if not (isinstance(p[2], tuple) and p[2] and p[2][0] in ('visit', 'emit'))]
    if len(pushes) != 1 or x.var_of(pushes[0][1])[0] != ps[vi[0]]['id']:
        return None
    call, vec, arg, pos = pushes[0]
    tok = tf.token(arg, pos)
    if tok is None or tok[0] != 'substr' or tok[1] != ('var', ps[si[0]]['id'], ps[si[0]]['name']) or len(tok[3]) != 1 or tok[3][0][0]:
        return None
    pp, nn = tok[2], tok[3][0][1]
    A, B = [Poly.atom(('var', ps[i]['id'], ps[i]['name'])) for i in ii]
    mode = None
    a, b = ii
    if pp == A and nn is not None and nn == B - A:
        mode = 'be'
    elif pp == A and nn is not None and nn == B:
        mode = 'ol'
    elif pp == B and nn is not None and nn == A - B:
        mode, a, b = 'be', ii[1], ii[0]
    if mode is None:
        return None
    _EMIT_MEMO[k] = {'str': si[0], 'vec': vi[0], 'a': a, 'b': b, 'mode': mode, 'push': (call, pos), 'tf': tf, 'tok': tok}
    return _EMIT_MEMO[k]


def content_filter(tu, tf, pos, tok, vec):
    """a branch edge every path to the push takes compares the token with an element of the output vector
    (tokens.back() == token): returns the comparison node, else None"""
    x = tf.x
    alias = tok[5]
    vd = x.var_of(vec)[0] if vec is not None else None

    def is_token(e):
        e = x.peel(e)
        if e is None:
            return False
        if alias is not None and x.var_of(e)[0] == alias[1]:
            return True
        return e.get('kind') == 'CXXMemberCallExpr' and last_name(tu.sd(e).get('q')) == 'substr' and x.objkey(tu.call_parts(e)[1]) == tok[1]

    def from_vec(e):
        e = x.peel(e)
        if e is None:
            return False
        for y in tu.walk(e):
            if y.get('kind') in ('CXXMemberCallExpr', 'CXXOperatorCallExpr') and \
                    last_name(tu.sd(y).get('q')) in ('back', 'front', 'at', 'operator[]', 'rbegin', 'begin', 'end', 'crbegin'):
                o = tu.call_parts(y)[1] if y.get('kind') == 'CXXMemberCallExpr' else (tu.kids(y)[1] if len(tu.kids(y)) > 1 else None)
                if o is not None and vd is not None and x.var_of(o)[0] == vd:
                    return True
        return False
    g = x.g
    conds = []
    for b in g.blocks.values():
        if b.cond is None or len([s_ for s_ in b.succ if s_ is not None]) != 2:
            continue
        if pos[0] not in _reach_blocks(g, b.id) or b.id == pos[0]:
            continue
        if g.postdominates(pos, (b.id, max(len(b.el) - 1, 0))):
            continue                  # the push runs whatever this branch decides
        c = tu.node(b.cond)
        if c is not None:
            conds.append(c)
    for cn in conds:
        for y in tu.walk(cn):
            k = y.get('kind')
            if k == 'CXXOperatorCallExpr' and tu.sd(y).get('q') in ('std::operator==', 'std::operator!=') and len(tu.kids(y)) == 3:
                a, b = tu.kids(y)[1:3]
            elif k == 'CXXMemberCallExpr' and last_name(tu.sd(y).get('q')) == 'compare' and len(tu.call_parts(y)[2]) == 1:
                a, b = tu.call_parts(y)[1], tu.call_parts(y)[2][0]
            else:
                continue
            if (is_token(a) and from_vec(b)) or (is_token(b) and from_vec(a)):
                return y
    return None


def push_substr_lambda(tu, args, str_id, vec_id):
    """one of the arguments is a lambda  [&](size_t offset, size_t length) { vec.push_back(str.substr(offset, length)); }"""
    for a in args:
        for y in tu.walk(a):
            if y.get('kind') != 'LambdaExpr':
                continue
            op = tu.functions.get(tu.sd(y).get('op'))
            body = tu.body(op) if op is not None else None
            if body is None or len(op.get('params', [])) != 2:
                continue
            calls = [z for z in tu.walk(body) if z.get('kind') in ('CXXMemberCallExpr', 'CallExpr', 'CXXOperatorCallExpr') and
                     last_name(tu.sd(z).get('q')) not in ('substr',)]
            if len(calls) != 1 or last_name(tu.sd(calls[0]).get('q')) != 'push_back':
                continue
            s_, obj, cargs = tu.call_parts(calls[0])
            o = tu.strip(obj, casts=True) if obj is not None else None
            if o is None or o.get('kind') != 'DeclRefExpr' or o.get('referencedDecl', {}).get('id') != vec_id or len(cargs) != 1:
                continue
            e = cargs[0]
            for _ in range(6):
                e = tu.strip(e, casts=True)
                if e is not None and e.get('kind') in ('CXXConstructExpr',) and len(tu.kids(e)) == 1:
                    e = tu.kids(e)[0]
                else:
                    break
            if e is None or e.get('kind') != 'CXXMemberCallExpr' or last_name(tu.sd(e).get('q')) != 'substr':
                continue
            s2, o2, a2 = tu.call_parts(e)
            o2 = tu.strip(o2, casts=True) if o2 is not None else None
            ids = [(tu.strip(z, casts=True) or {}).get('referencedDecl', {}).get('id') for z in a2]
            if o2 is not None and o2.get('kind') == 'DeclRefExpr' and o2.get('referencedDecl', {}).get('id') == str_id and \
                    ids == [p_['id'] for p_ in op['params']]:
                return True
    return False


def token_worker(tu, f, depth=0):
    """the function that actually pushes the tokens: f itself, or the function in the same file it hands its string, its
    delimiter and its token vector to (tokenize -> tokenizeFrom(str, 0, delim, tokens))"""
    if depth > 2:
        return f
    tf = TokenFn(tu, f)
    if any(True for _ in tf.pushes()):
        return f
    x = tf.x
    cands = []
    for b, i, n in x.g.stmts():
        if n.get('kind') != 'CallExpr':
            continue
        hf = tu.callee_fn(n)
        if hf is None or hf['dep'] or tu.cfg(hf) is None or hf.get('rec') or tu.fn_file(hf) != tu.fn_file(f):
            continue
        passed = [x.var_of(a)[0] for a in tu.kids(n)[1:]]
        vec = [p['id'] for p in f.get('params', []) if 'vector' in p['ct']]
        strs = [p['id'] for p in f.get('params', []) if 'basic_string' in p['ct'] and 'vector' not in p['ct']]
        if strs and all(sv in passed for sv in strs[:1]) and (not vec or all(vv in passed for vv in vec)):
            cands.append(hf)
        elif strs and strs[0] in passed and vec and push_substr_lambda(tu, tu.kids(n)[1:], strs[0], vec[0]):
            cands.append(hf)
    if len(cands) == 1:
        return token_worker(tu, cands[0], depth + 1)
    return f


def split_delegation(tu, f):
    """tokenize(str, delim, tokens) written as  pieces = splitter(str, std::string(1, delim));  tokens.insert(tokens.end(),
    pieces.begin(), pieces.end())  (iterators possibly wrapped in std::make_move_iterator), or a range-for that pushes every
    piece: {'hf': the splitter, 'call': node, 'bad': [(key, text)], 'und': [text]} or None if f is not of this shape"""
    body = tu.body(f)
    ps = f.get('params', [])
    strs = [p for p in ps if 'basic_string' in p['ct'] and 'vector' not in p['ct']]
    vecs = [p for p in ps if 'vector' in p['ct']]
    chars = [p for p in ps if plain_ct(p['ct']) == 'char']
    if body is None or len(strs) != 1 or len(vecs) != 1:
        return None

    def ref(e):
        e = tu.strip(e, casts=True) if e is not None else None
        for _ in range(6):
            if e is not None and e.get('kind') in ('MaterializeTemporaryExpr', 'CXXBindTemporaryExpr', 'ExprWithCleanups'):
                e = tu.strip(tu.kids(e)[0], casts=True)
            elif e is not None and e.get('kind') == 'CXXConstructExpr' and len(tu.kids(e)) == 1:
                e = tu.strip(tu.kids(e)[0], casts=True)       # copy / converting construction of the same value
            else:
                break
        return e

    def decl_of(e):
        e = ref(e)
        return e.get('referencedDecl', {}).get('id') if e is not None and e.get('kind') == 'DeclRefExpr' else None

    calls = []
    for y in tu.walk(body):
        if y.get('kind') != 'CallExpr':
            continue
        hf = tu.callee_fn(y)
        if hf is None or hf['dep'] or tu.cfg(hf) is None or hf.get('rec') or hf['id'] == f['id']:
            continue
        if 'vector<std::basic_string<char>' not in (tu.sd(y).get('ct') or ''):
            continue
        if any(decl_of(a) == strs[0]['id'] for a in tu.kids(y)[1:]):
            calls.append((y, hf))
    if len(calls) != 1:
        return None
    call, hf = calls[0]
    out = {'hf': hf, 'call': call, 'bad': [], 'und': [], 'push_ids': set()}
    args = tu.kids(call)[1:]
    hps = hf.get('params', [])
    if not args or decl_of(args[0]) != strs[0]['id'] or len(hps) < 2 or len(args) < 2:
        out['und'].append('the input string is not the first argument of `%s`' % tu.show(call))
        return out
    # ---- the delimiter handed on
    if 'basic_string' in hps[1]['ct']:
        a = ref(args[1])
        okd = False
        if a is not None and a.get('kind') in ('CXXConstructExpr', 'CXXTemporaryObjectExpr') and chars:
            real = [z for z in tu.kids(a) if z.get('kind') != 'CXXDefaultArgExpr']
            if len(real) == 2:
                cnt = tu.sd(tu.strip(real[0], casts=True)).get('cv') or (tu.strip(real[0], casts=True) or {}).get('value')
                if str(cnt) == '1' and decl_of(real[1]) == chars[0]['id']:
                    okd = True
        if not okd:
            out['und'].append('the delimiter set `%s` is not the one-character string made of the delimiter parameter' % tu.show(args[1]))
    else:
        out['und'].append('`%s` splits at a single character: whether it drops empty pieces like tokenize must is not compared' % fn_name(hf))
    for a in args[2:]:
        a0 = tu.strip(a, casts=True)
        if a0 is None or a0.get('kind') == 'CXXDefaultArgExpr':
            continue
        if a0.get('kind') == 'CXXBoolLiteralExpr' and plain_ct(hps[2]['ct'] if len(hps) > 2 else '') == 'bool':
            if a0.get('value') is True:
                out['bad'].append(('keeps-delimiters', '`%s` asks the splitter to keep the delimiters: every token but the first starts with '
                                   'the delimiter character' % tu.show(call)))
            continue
        out['und'].append('extra argument `%s` of the splitter' % tu.show(a))
    # ---- where the result goes
    vd = None
    p_ = tu.par(call)
    for _ in range(8):
        if p_ is None:
            break
        if p_.get('kind') == 'VarDecl':
            vd = p_
            break
        if p_.get('kind') not in ('MaterializeTemporaryExpr', 'CXXBindTemporaryExpr', 'ExprWithCleanups', 'CXXConstructExpr',
                                  'ImplicitCastExpr'):
            break
        p_ = tu.par(p_)
    if vd is None:
        out['und'].append('the result of `%s` is not stored in a local vector' % tu.show(call))
        return out
    uses = [y for y in tu.walk(body) if y.get('kind') == 'DeclRefExpr' and y.get('referencedDecl', {}).get('id') == vd['id']]
    tuses = [y for y in tu.walk(body) if y.get('kind') == 'DeclRefExpr' and y.get('referencedDecl', {}).get('id') == vecs[0]['id']]
    inserts = [y for y in tu.walk(body) if y.get('kind') == 'CXXMemberCallExpr' and last_name(tu.sd(y).get('q')) == 'insert' and
               decl_of(tu.call_parts(y)[1]) == vecs[0]['id']]
    rfors = [y for y in tu.walk(body) if y.get('kind') == 'CXXForRangeStmt']

    def end_of(e, which, did):
        """e is  V.begin() / V.end()  (possibly inside std::make_move_iterator)"""
        e = ref(e)
        if e is not None and e.get('kind') == 'CallExpr' and tu.sd(e).get('q') == 'std::make_move_iterator' and len(tu.kids(e)) == 2:
            e = ref(tu.kids(e)[1])
        if e is not None and e.get('kind') == 'CXXMemberCallExpr' and last_name(tu.sd(e).get('q')) in which and \
                not tu.call_parts(e)[2] and decl_of(tu.call_parts(e)[1]) == did:
            return True
        return False
    if len(inserts) == 1 and not rfors:
        s_, obj, ia = tu.call_parts(inserts[0])
        if len(ia) != 3:
            out['und'].append('`%s` is not insert(position, first, last)' % tu.show(inserts[0]))
        else:
            if end_of(ia[0], ('begin', 'cbegin'), vecs[0]['id']):
                out['bad'].append(('prepends', '`%s` puts the new tokens in front of what the caller already has in `%s`; tokenize appends'
                                   % (tu.show(inserts[0]), vecs[0]['name'])))
            elif not end_of(ia[0], ('end', 'cend'), vecs[0]['id']):
                out['und'].append('insert position `%s` is not %s.end()' % (tu.show(ia[0]), vecs[0]['name']))
            if not end_of(ia[1], ('begin', 'cbegin'), vd['id']) or not end_of(ia[2], ('end', 'cend'), vd['id']):
                out['und'].append('`%s` does not insert the whole range [%s.begin(), %s.end())' % (tu.show(inserts[0]), vd.get('name'), vd.get('name')))
        if len(uses) != 2 or len(tuses) != 2:
            out['und'].append('`%s` / `%s` are used by more than the one insert' % (vd.get('name'), vecs[0]['name']))
    elif len(rfors) == 1 and not inserts:
        rf = rfors[0]
        rng = [v2 for v2 in tu.walk(rf) if v2.get('kind') == 'VarDecl' and (v2.get('name') or '').startswith('__range')]
        pushes = [y for y in tu.walk(rf) if y.get('kind') == 'CXXMemberCallExpr' and last_name(tu.sd(y).get('q')) in ('push_back', 'emplace_back')
                  and decl_of(tu.call_parts(y)[1]) == vecs[0]['id']]
        out['push_ids'] = {y['id'] for y in pushes}
        elem = None
        for st in tu.kids(rf):
            if st.get('kind') == 'DeclStmt':
                for v2 in tu.kids(st):
                    if v2.get('kind') == 'VarDecl' and not (v2.get('name') or '').startswith('__'):
                        elem = v2
        okr = bool(rng) and tu.kids(rng[0]) and decl_of(tu.kids(rng[0])[0]) == vd['id'] and len(pushes) == 1 and elem is not None
        if okr:
            pa = tu.call_parts(pushes[0])[2]
            a = ref(pa[0]) if len(pa) == 1 else None
            if a is not None and a.get('kind') == 'CallExpr' and tu.sd(a).get('q') == 'std::move' and len(tu.kids(a)) == 2:
                a = ref(tu.kids(a)[1])
            body_ = tu.kids(rf)[-1]
            conds = [y for y in tu.walk(body_) if y.get('kind') in ('IfStmt', 'ConditionalOperator', 'ContinueStmt', 'BreakStmt',
                                                                   'ReturnStmt', 'WhileStmt', 'ForStmt', 'SwitchStmt')]
            okr = a is not None and a.get('kind') == 'DeclRefExpr' and a.get('referencedDecl', {}).get('id') == elem['id'] and not conds
        if not okr:
            out['und'].append('the loop over `%s` does not push every piece, unchanged, onto `%s`' % (vd.get('name'), vecs[0]['name']))
        if len(uses) != 1 or len(tuses) != 1:
            out['und'].append('`%s` / `%s` are used by more than the one loop' % (vd.get('name'), vecs[0]['name']))
    else:
        out['und'].append('cannot see how the pieces returned by `%s` reach `%s`' % (fn_name(hf), vecs[0]['name']))
    return out


def check_tokens(ctx, tu, qnames):
    R2, R7 = 'R-C18-2', 'R-C18-7'
    ctx.describe(R2, 'token filter: every branch condition on the length n of a token that dominates its push_back is '
                     'implied by n >= 1 (no non-empty token is dropped)')
    ctx.describe(R7, 'tokenizer loop shape: token = [start, found delimiter), the search for the delimiter starts at the '
                     'token start, the next token starts right behind the delimiter')
    n2 = n7 = 0
    nf = 0
    for q in qnames:
        fs0 = [f for f in tu.fns(q=q) if not f['dep'] and tu.cfg(f) is not None]
        fs = []
        for f in fs0:
            w = token_worker(tu, f)
            if w is f:
                own = {c_['id'] for c_, v_, a_, p_ in TokenFn(tu, f).pushes()}
                dg = split_delegation(tu, f)
                if dg is not None and own <= dg['push_ids']:
                    # the tokens are what another tokeniser returns, appended wholesale: that one is checked in f's place
                    n7 += 1
                    dinst = '%s %s: tokens are the pieces returned by `%s`' % (fn_name(f), f['fty'], tu.show(dg['call']))
                    dloc = tu.loc(dg['call'])
                    if dg['bad']:
                        for k_, m_ in dg['bad']:
                            ctx.violation(R7, dinst, m_, dloc, key='%s|%s|%s|%s' % (R7, tu.fn_file(f), fn_name(f), k_))
                    elif dg['und']:
                        for u_ in dg['und']:
                            ctx.undecided(R7, dinst, u_, dloc)
                    else:
                        ctx.ok(R7, dinst, 'one-character delimiter set made of the delimiter, every piece appended in order; `%s` is '
                               'checked below' % fn_name(dg['hf']), dloc)
                    w = token_worker(tu, dg['hf'])
            fs.append(w)
        for f in fs:
            before = n2
            tf = TokenFn(tu, f)
            x = tf.x
            file = tu.fn_file(f)
            fname = fn_name(f)
            sig = '%s %s' % (fname, f['fty'])
            for call, vec, arg, pos in tf.pushes():
                tok = tf.token(arg, pos)
                loc = tu.loc(call)
                if tok is None:
                    n2 += 1
                    ctx.undecided(R2, sig, 'push_back of `%s`: the token is neither a substr() of the input nor the '
                                  'target of std::getline' % tu.show(arg), loc)
                    continue
                if tok[0] == 'getline':
                    n2 += 1
                    n7 += 1
                    check_getline_push(ctx, tu, tf, f, sig, file, fname, call, tok, pos)
                    continue
                _, src, p, alts, sub, alias, at = tok
                cf = content_filter(tu, tf, pos, tok, vec)
                if cf is not None:
                    n2 += 1
                    ctx.violation(R2, '%s: %s' % (sig, tu.show(call)), 'every non-empty token must be kept, but the push is reached only '
                                  'past `%s`, which compares the token with one that is already stored: a token equal to its predecessor is '
                                  'dropped ("a:a" and "a::a" give one token; a URL component repeated verbatim, or a parameter spelled like '
                                  'the file name, disappears). Repeated DELIMITERS produce no token, repeated tokens are kept'
                                  % tu.show(cf), tu.loc(cf), key='%s|%s|%s|drops-repeated-token' % (R2, file, fname))
                    continue
                for extra, n in alts:
                    n2 += 1
                    n7 += 1
                    kind = 'last-token' if n is None else 'delimited-token'
                    inst = '%s: push_back(%s) [%s]' % (sig, tu.show(sub), kind)
                    nlen = (Poly.atom(('size', src)) - p) if n is None else n
                    check_filter(ctx, tu, tf, R2, inst, '%s|%s|%s|%s' % (R2, file, fname, kind), call, pos, extra, nlen,
                                 alias, at, loc,
                                 rest_len=(Poly.atom(('begin', src)) if sub.get('id') in tf.iter_tokens else Poly.const(0)) +
                                 Poly.atom(('size', src)) - p)
                    check_extent(ctx, tu, tf, R7, inst, '%s|%s|%s|%s' % (R7, file, fname, kind), call, pos, extra, src, p,
                                 n, at, loc)
            # what a push helper tests before it pushes (the extents were checked where it is called)
            for hf in getattr(tf, 'emit_helpers', []):
                eh = emit_helper(tu, hf)
                hcall, hpos = eh['push']
                htf = eh['tf']
                htok = eh['tok']
                hsig = '%s %s' % (fn_name(hf), hf['fty'])
                hfile, hname = tu.fn_file(hf), fn_name(hf)
                n2 += 1
                hvec = tu.call_parts(hcall)[1]
                cf = content_filter(tu, htf, hpos, htok, hvec)
                if cf is not None:
                    ctx.violation(R2, '%s: %s' % (hsig, tu.show(hcall)), 'every non-empty token must be kept, but the push is reached only '
                                  'past `%s`, which compares the token with one that is already stored: a token equal to its predecessor is '
                                  'dropped ("a:a" and "a::a" give one token; a URL component repeated verbatim, or a parameter spelled like '
                                  'the file name, disappears). Repeated DELIMITERS produce no token, repeated tokens are kept'
                                  % tu.show(cf), tu.loc(cf), key='%s|%s|%s|drops-repeated-token' % (R2, hfile, hname))
                else:
                    nlen = htok[3][0][1]
                    check_filter(ctx, tu, htf, R2, '%s: push_back(%s) [helper]' % (hsig, tu.show(htok[4])),
                                 '%s|%s|%s|helper-token' % (R2, hfile, hname), hcall, hpos, [], nlen, htok[5], htok[6], tu.loc(hcall))
            if n2 > before:
                nf += 1
            n7 += check_delim_class(ctx, tu, tf, f, sig, file, fname, R7)
            for opt in sorted(getattr(x, 'option_notes', ())):
                ctx.note('%s: analysed with option `%s` off (the clause with the option on is not decided)' % (fname, opt))
    return n2, n7, nf


SET_SEARCH = ('find_first_of', 'find_first_not_of', 'find_last_of', 'find_last_not_of')
SEQ_SEARCH = ('find', 'rfind')


def delim_param(tu, x, e):
    """(decl id, info) of the parameter a delimiter argument stands for: the parameter itself or param.c_str() / .data()"""
    d, v = x.var_of(e)
    if d is not None:
        return d, v
    e = tu.strip(e, casts=True)
    if e is not None and e.get('kind') == 'CXXMemberCallExpr' and last_name(tu.sd(e).get('q')) in ('c_str', 'data'):
        s, obj, args = tu.call_parts(e)
        return x.var_of(obj)
    return None, None


def check_delim_class(ctx, tu, tf, f, sig, file, fname, rule):
    """in a tokeniser whose delimiter is a string, every search for it must read it the same way: as a set of
    characters (find_first_of / find_first_not_of ...) or as one separator string (find / rfind)"""
    x = tf.x
    uses = {}
    for b, i, n in x.g.stmts():
        fc = tf.find_call(n) if n.get('kind') == 'CXXMemberCallExpr' else None
        if fc is None:
            continue
        name, skey, args, callnode = fc
        if not args or not (skey[0] == 'var' and skey[1] in x.params):
            continue
        d, v = delim_param(tu, x, args[0])
        if d is None or d not in x.params or 'basic_string' not in (v['ct'] or ''):
            continue
        cls = 'set' if name in SET_SEARCH else 'seq' if name in SEQ_SEARCH else None
        if cls:
            uses.setdefault(d, {}).setdefault(cls, callnode)
    n = 0
    for d, u in uses.items():
        n += 1
        pname = x.vars[d]['name']
        inst = '%s: searches for delimiter `%s`' % (sig, pname)
        if len(u) == 2:
            ctx.violation(rule, inst, '`%s` reads `%s` as a set of delimiter characters while `%s` looks for the whole string `%s` as one '
                          'separator: the start and the end of a token are located with different notions of a delimiter, so for a set '
                          'of two or more characters tokens run across delimiters (split("a b,c", " ,") gives ["a b,c"])'
                          % (tu.show(u['set']), pname, tu.show(u['seq']), pname), tu.loc(u['seq']),
                          key='%s|%s|%s|delimiter-class-mixed' % (rule, file, fname))
        else:
            ctx.ok(rule, inst, 'always read as %s' % ('a set of characters' if 'set' in u else 'one separator string'),
                   tu.loc(list(u.values())[0]))
    return n


def guard_leaves(tu, x, pos, extra, at):
    """[(leaf in nnf, cond node, position of the test)] for all dominating guards + extra conditions; None entries
    mark guards that are disjunctions (unclassifiable)"""
    out = []
    for cn, truth, blk in x.guards(pos):
        cpos = x.pos_of(cn)
        nf = x.cond_at(cn, truth, cpos)
        ls = rels_of(nf)
        if ls is None:
            out.append((None, cn, cpos))
        else:
            out += [(l, cn, cpos) for l in ls]
    for cn, truth in extra:
        cpos = x.pos_of(cn)
        nf = x.cond_at(cn, truth, cpos)
        ls = rels_of(nf)
        if ls is None:
            out.append((None, cn, cpos))
        else:
            out += [(l, cn, cpos) for l in ls]
    return out


def is_found_test(tf, leaf):
    """leaf is `F == npos` / `F != npos` for a variable F all of whose values come from string find calls;
    returns (var id, op) or None"""
    if leaf[0] != 'rel':
        return None
    r = leaf[1]
    if r.op not in ('==', '!='):
        return None
    for a in r.p.atoms(deep=False):
        if not (isinstance(a, tuple) and a and a[0] == 'var' and a[1] in tf.x.vars):
            continue
        lin = r.p.linear_in(a)
        if lin is None or lin[0] not in (1, -1):
            continue
        other = lin[1] * (-1 if lin[0] == 1 else 1)          # the value the variable is compared with
        if other in tf.nf_of(a[1]):
            return a[1], r.op      # some value of the variable is the result of a search: this value means "nothing found"
    return None


def contains_call(tu, n, qs):
    for y in tu.walk(n):
        if y.get('kind') in ('CallExpr', 'CXXMemberCallExpr', 'CXXOperatorCallExpr') and tu.sd(y).get('q') in qs:
            return True
    return False


def check_filter(ctx, tu, tf, rule, inst, key, call, pos, extra, nlen, alias, at, loc, rest_len=None):
    x = tf.x
    leaves = guard_leaves(tu, x, pos, extra, at)
    sub = {}
    if alias is not None:
        sub[('size', alias)] = nlen
    bad = []
    und = []
    seen = []
    for leaf, cn, cpos in leaves:
        if leaf is None:
            und.append('condition `%s` is a disjunction the rule does not split' % tu.show(cn))
            continue
        if leaf[0] == 'const':
            continue
        if leaf[0] != 'rel':
            und.append('condition `%s` is not a comparison' % tu.show(cn))
            continue
        r = leaf[1]
        p = r.p.subst(sub) if sub else r.p
        ab = about(p, nlen)
        if ab is not None:
            if not x.clean(cpos, pos, x.var_ids(p, nlen)) and cpos != pos:
                und.append('operands of `%s` may change between the test and the push_back' % tu.show(cn))
                continue
            k, c = ab
            seen.append(tu.show(cn))
            if r.op == '>=':
                if k > 0:
                    m = math.ceil(Fraction(-c) / k)
                    if m > 1:
                        bad.append('`%s` keeps a token only if its length is >= %d: tokens of length 1..%d are dropped'
                                   % (tu.show(cn), m, m - 1))
                else:
                    m = math.floor(Fraction(c) / -k)
                    bad.append('`%s` keeps a token only if its length is <= %d' % (tu.show(cn), m))
            elif r.op == '==':
                bad.append('`%s` keeps only tokens of one particular length' % tu.show(cn))
            else:
                v = Fraction(-c) / k
                if v.denominator == 1 and v >= 1:
                    bad.append('`%s` drops tokens of length %d' % (tu.show(cn), v))
            continue
        if is_found_test(tf, leaf):
            continue
        if contains_call(tu, cn, ('std::getline',)):
            continue
        if rest_len is not None:
            # `token start < size of the input`: holds whenever a non-empty token starts there
            ab2 = about(p, rest_len)
            if ab2 is not None and r.op == '>=' and ab2[0] > 0 and math.ceil(Fraction(-ab2[1]) / ab2[0]) <= 1 and \
                    (cpos == pos or x.clean(cpos, pos, x.var_ids(p, rest_len))):
                seen.append(tu.show(cn))
                continue
            if ab2 is not None and r.op == '!=' and ab2[1] == 0 and (cpos == pos or x.clean(cpos, pos, x.var_ids(p, rest_len))):
                seen.append(tu.show(cn))      # `start != end of the input`
                continue
        und.append('cannot classify the condition `%s` that guards the push_back' % tu.show(cn))
    if bad:
        for b in bad:
            ctx.violation(rule, inst, 'every non-empty token must be kept, but %s' % b, loc, key=key)
    elif und:
        for u in und:
            ctx.undecided(rule, inst, u, loc)
    else:
        ctx.ok(rule, inst, 'length conditions: %s' % (', '.join(seen) if seen else 'none (every token is kept)'), loc)


def check_extent(ctx, tu, tf, rule, inst, key, call, pos, extra, src, p, n, at, loc):
    x = tf.x
    problems, und, notes = [], [], []
    # (1) source string is a parameter
    if not (src[0] == 'var' and src[1] in x.params):
        und.append('the tokens are not cut from a parameter of the function')
    pa = p.as_atom()
    if not (isinstance(pa, tuple) and pa[0] == 'var' and pa[1] in x.vars and not x.vars[pa[1]]['param']):
        und.append('token start `%s` is not a plain local variable' % p.show())
        pa = None
    delim_params = set()
    start_is_nondelim = False
    if pa is not None:
        fvp = tf.found_var(pa[1])
        start_is_nondelim = bool(fvp) and all(t[0] in FIND_NONDELIM for t in fvp)

    def delim_found(d, need_start=None):
        """check that d is a delimiter-found variable on src; returns list of problems / None if not a found var"""
        fv = tf.found_var(d) or tf.found_var(d, loose_at=pos)
        if not fv:
            return None
        out = []
        for name, skey, args, callnode, dpos in fv:
            if name not in FIND_DELIM:
                return None
            if skey != src:
                out.append(('und', '`%s` searches another string' % tu.show(callnode)))
                continue
            dd, dv = delim_param(tu, x, args[0]) if args else (None, None)
            if dd is None or dd not in x.params:
                out.append(('und', 'delimiter argument of `%s` is not a parameter' % tu.show(callnode)))
            else:
                delim_params.add((dd, name, is_int_ct(dv['ct'])))
            if len(args) >= 2:
                sp = x.poly_at(args[1], dpos)
                if sp.as_const() == 0:
                    continue
                if need_start is not None:
                    diff = (sp - Poly.atom(need_start)).as_const()
                    if diff == 1 and start_is_nondelim:
                        continue      # the character at the token start is known not to be a delimiter
                    if diff is None:
                        out.append(('und', 'search start `%s` of `%s` is not the token start' % (sp.show(), tu.show(callnode))))
                    elif diff != 0:
                        out.append(('bad', 'search-start', 'the search `%s` starts %+d characters away from the token start: '
                                    'a delimiter at the token start is %s' % (tu.show(callnode), diff,
                                                                              'skipped' if diff > 0 else 'found twice')))
        return out

    found_end = None
    if n is not None:
        end = p + n
        ea = end.as_atom()
        if isinstance(ea, tuple) and ea[0] == 'var' and ea[1] in x.vars:
            res = delim_found(ea[1], pa)
            if res is None:
                und.append('token end `%s` is not the result of a find on the input' % end.show())
            else:
                found_end = ea[1]
                for r in res:
                    (und if r[0] == 'und' else problems).append(r[1:] if r[0] == 'bad' else r[1])
        else:
            # end = F + c ?
            hit = None
            for a in end.atoms(deep=False):
                if isinstance(a, tuple) and a[0] == 'var' and delim_found(a[1]) is not None:
                    c = (end - Poly.atom(a)).as_const()
                    if c is not None:
                        hit = (a, c)
            if hit is not None and hit[1] != 0:
                problems.append(('token-end', 'the token ends %+d characters from the found delimiter `%s` (length `%s`)'
                                 % (hit[1], hit[0][2], n.show())))
            else:
                und.append('token end `%s` is not the position of the found delimiter' % end.show())
    else:
        # token runs to the end of the input: some dominating test must say that no further delimiter was found
        leaves = guard_leaves(tu, x, pos, extra, at)
        okv = None
        for leaf, cn, cpos in leaves:
            if leaf is None:
                continue
            ft = is_found_test(tf, leaf)
            if ft and ft[1] == '==':
                res = delim_found(ft[0], pa)
                if res is not None:
                    okv = ft[0]
                    for r in res:
                        (und if r[0] == 'und' else problems).append(r[1:] if r[0] == 'bad' else r[1])
        if okv is None:
            und.append('the token runs to the end of the input but no dominating test says that no further delimiter exists')
        found_end = okv
    # (1b) a token start that can be npos (it is assigned the result of a search) is used only behind a test
    if pa is not None and n is None:
        pvv = x.vars[pa[1]]
        finds = [tf.find_call(nd_) for k_, nd_, p_ in pvv['defs'] if k_ in ('init', 'assign') and nd_ is not None]
        finds = [fc for fc in finds if fc is not None]
        if finds:
            tested = False
            for leaf, cn, cpos in guard_leaves(tu, x, pos, extra, at):
                if leaf is None or leaf[0] != 'rel':
                    continue
                if any(leaf[1] == Rel.make(Poly.atom(pa), '!=', nf_) for nf_ in tf.nf_of(pa[1])):
                    # adjustments made under an option parameter (keepDelim) belong to the clause that is not decided
                    keep = pvv['defs']
                    pvv['defs'] = [df for df in keep if not (df[0] in ('inc', 'compound') and df[2] and any(
                        x.var_of(gc)[0] in x.params and plain_ct(x.vars[x.var_of(gc)[0]]['ct']) == 'bool' and gt
                        for gc, gt, gb in x.guards(df[2])))]
                    try:
                        if x.clean(cpos, pos, [pa[1]]):
                            tested = True
                    finally:
                        pvv['defs'] = keep
                ft = is_found_test(tf, leaf)
                if ft and ft[1] == '!=':
                    # a delimiter found by a search that starts at the token start: the start is a valid position
                    fv = tf.found_var(ft[0]) or []
                    if fv and all(len(t[2]) >= 2 and x.poly_at(t[2][1], t[4]) == Poly.atom(pa) for t in fv):
                        tested = True
            if not tested:
                problems.append(('start-may-be-npos', '`%s` is assigned `%s`, which is npos when nothing but delimiters follows (the input ends '
                                 'with the delimiter); it is used here as the start of the last token without a test against npos: '
                                 '`size() - %s` wraps around and substr(npos) throws std::out_of_range'
                                 % (pa[2], tu.show(finds[0][3]), pa[2])))
    # (2) definitions of the token start
    if pa is not None:
        pv = x.vars[pa[1]]
        for kind, node, dpos in pv['defs']:
            if kind in ('init', 'assign'):
                if node is None:
                    und.append('token start declared without a value')
                    continue
                fc = tf.find_call(node)
                if fc is not None:
                    name, skey, args, callnode = fc
                    if name not in FIND_NONDELIM or skey != src:
                        und.append('token start is set by `%s`' % tu.show(callnode))
                        continue
                    # continuation point: 0 or the position of the last delimiter
                    if len(args) >= 2:
                        sp = x.poly_at(args[1], dpos)
                        if sp.as_const() == 0:
                            continue
                        ca = sp.as_atom()
                        okc = False
                        if ca is None:
                            # found delimiter + 1: the character at the delimiter position is a delimiter, so skipping it
                            # changes nothing -- provided the delimiter was found (npos + 1 would restart at 0)
                            for a3 in sp.atoms(deep=False):
                                if isinstance(a3, tuple) and a3[0] == 'var' and delim_found(a3[1]) is not None and \
                                        (sp - Poly.atom(a3)).as_int() == 1:
                                    for cn, truth, blk in x.guards(dpos):
                                        nf = x.cond_at(cn, truth, x.pos_of(cn))
                                        for lf in (rels_of(nf) or []):
                                            ft = is_found_test(tf, lf) if lf is not None else None
                                            if ft and ft[0] == a3[1] and ft[1] == '!=' and x.clean(x.pos_of(cn), dpos, [a3[1]]):
                                                okc = True
                                if isinstance(a3, tuple) and a3[0] == 'var' and delim_found(a3[1]) is not None:
                                    c3 = (sp - Poly.atom(a3)).as_int()
                                    if c3 is not None and c3 not in (0, 1):
                                        problems.append(('resume', 'the scan resumes %+d characters from the found delimiter (`%s`)'
                                                         % (c3, sp.show())))
                                        okc = True
                            if okc:
                                continue
                        if isinstance(ca, tuple) and ca[0] == 'var' and ca[1] in x.vars:
                            cv = x.vars[ca[1]]
                            okc = True
                            srcs = [ca[1]]
                            if not tf.found_var(ca[1]):
                                srcs = []
                                for k2, n2, p2 in cv['defs']:
                                    if k2 not in ('init', 'assign') or n2 is None:
                                        okc = False
                                        continue
                                    q2 = x.poly_at(n2, p2)
                                    if q2.as_const() == 0:
                                        continue
                                    fc2 = tf.find_call(n2)
                                    if fc2 is not None and fc2[0] in FIND_DELIM and fc2[1] == src:
                                        continue        # the continuation point is itself the position of a found delimiter
                                    a2 = q2.as_atom()
                                    if isinstance(a2, tuple) and a2[0] == 'var' and delim_found(a2[1]) is not None:
                                        continue
                                    c2 = None
                                    for a3 in q2.atoms(deep=False):
                                        if isinstance(a3, tuple) and a3[0] == 'var' and delim_found(a3[1]) is not None:
                                            c2 = (q2 - Poly.atom(a3)).as_const()
                                    if c2 is not None and c2 != 0:
                                        problems.append(('resume', 'the scan resumes %+d characters from the found delimiter '
                                                         '(`%s = %s`)' % (c2, cv['name'], q2.show())))
                                        continue
                                    okc = False
                            elif delim_found(ca[1]) is None:
                                okc = False
                        if not okc:
                            und.append('cannot relate the continuation point `%s` to the found delimiter' % sp.show())
                    continue
                q = x.poly_at(node, dpos)
                if q.as_const() == 0:
                    continue
                qa = q.as_atom()
                if qa == ('begin', src):
                    continue        # the iterator at the start of the input
                if isinstance(qa, tuple) and qa[0] == 'var' and qa[1] in x.params and is_int_ct(x.vars[qa[1]]['ct']) and \
                        not x.vars[qa[1]]['defs']:
                    notes.append('the scan starts at the offset `%s` given by the caller' % qa[2])
                    continue
                hit = None
                for a in q.atoms(deep=False):
                    if isinstance(a, tuple) and a[0] == 'var' and delim_found(a[1]) is not None:
                        c = (q - Poly.atom(a)).as_const()
                        if c is not None:
                            hit = (a, c)
                if hit is None:
                    und.append('token start is set to `%s`, which the rule cannot relate to the found delimiter' % q.show())
                    continue
                chars = [dp for dp in delim_params if dp[2]]
                if not chars:
                    und.append('token start `%s` assumes a delimiter of length 1 but the delimiter is not a single char' % q.show())
                    continue
                if hit[1] != 1:
                    problems.append(('token-start', 'the next token starts at `%s`, i.e. %+d from the delimiter instead of +1: %s'
                                     % (q.show(), hit[1], 'the delimiter becomes part of the token' if hit[1] < 1 else
                                        'the first character of the token is lost')))
            elif kind in ('inc', 'compound'):
                gs = x.guards(dpos) if dpos else []
                flag = False
                for cn, truth, blk in gs:
                    dd, dv = x.var_of(cn)
                    if dd in x.params and plain_ct(dv['ct']) == 'bool' and truth:
                        flag = True
                        notes.append('adjustment of the token start under option `%s` not decided' % dv['name'])
                if not flag:
                    und.append('token start is adjusted by `%s` outside an option branch' % tu.show(node))
    if problems:
        for pr in problems:
            ctx.violation(rule, inst, pr[1], loc,
                          key=('%s-%s' % (key, pr[0])) if pr[0] == 'token-end' else '%s|%s' % (key.rsplit('|', 1)[0], pr[0]))
    elif und:
        for u in sorted(set(und)):
            ctx.undecided(rule, inst, u, loc)
    else:
        ctx.ok(rule, inst, 'start `%s`, end %s%s' % (p.show(), 'end of input' if n is None else '`%s`' % (p + n).show(),
                                                     ('; ' + '; '.join(sorted(set(notes)))) if notes else ''), loc)


def check_getline_push(ctx, tu, tf, f, sig, file, fname, call, tok, pos):
    R2, R7 = 'R-C18-2', 'R-C18-7'
    x = tf.x
    _, d, gl = tok
    loc = tu.loc(call)
    inst = '%s: push_back(%s) [getline-token]' % (sig, x.vars[d]['name'])
    nlen = Poly.atom(('size', ('var', d, x.vars[d]['name'])))
    check_filter(ctx, tu, tf, R2, inst, '%s|%s|%s|getline-token' % (R2, file, fname), call, pos, [], nlen, None, pos, loc)
    # shape: getline(stream built from the input parameter, item, the delimiter parameter); the push is inside the loop
    args = tu.kids(gl)[1:]
    und, bad = [], []
    sd_, sv = x.var_of(args[0]) if args else (None, None)
    if sd_ is None or 'basic_stringstream' not in (sv['ct'] or '') and 'basic_istringstream' not in (sv['ct'] or ''):
        und.append('getline does not read from a local string stream')
    else:
        init = x.single_init(sd_) if not sv['escaped'] or True else None
        init = sv['init']
        e = tu.strip(init, casts=True) if init is not None else None
        okp = False
        if e is not None and e.get('kind') in ('CXXConstructExpr', 'CXXTemporaryObjectExpr'):
            ks = [k for k in tu.kids(e) if k.get('kind') != 'CXXDefaultArgExpr']
            if len(ks) == 1 and x.var_of(ks[0])[0] in x.params:
                okp = True
        if not okp:
            und.append('the string stream is not constructed from the input parameter')
    if len(args) >= 3:
        dd, dv = x.var_of(args[2])
        if dd is None or dd not in x.params:
            c = x.poly_at(args[2], pos).as_const()
            if c is not None:
                bad.append(('delimiter', 'getline splits on the constant %r instead of the delimiter parameter' % chr(int(c))))
            else:
                und.append('getline delimiter is not the delimiter parameter')
    else:
        bad.append(('delimiter', 'getline is called without the delimiter parameter (splits on newline)'))
    # the push must be dominated by the success edge of this getline
    dom = False
    for cn, truth, blk in x.guards(pos):
        if truth and contains_call(tu, cn, ('std::getline',)):
            dom = True
    if not dom:
        und.append('push_back is not controlled by the result of getline')
    key = '%s|%s|%s|getline-token' % (R7, file, fname)
    if bad:
        for b in bad:
            ctx.violation(R7, inst, b[1], loc, key='%s-%s' % (key, b[0]))
    elif und:
        for u in und:
            ctx.undecided(R7, inst, u, loc)
    else:
        ctx.ok(R7, inst, 'getline(stream(input), token, delimiter parameter) controls the push', loc)


# ====================================================================================================
#  R-C18-3  SI ladder
# ====================================================================================================
SI_EXP = {'Y': 24, 'Z': 21, 'E': 18, 'P': 15, 'T': 12, 'G': 9, 'M': 6, 'k': 3, 'K': 3,
          'm': -3, 'u': -6, 'n': -9, 'p': -12, 'f': -15, 'a': -18}
PRINTF_Q = ('snprintf', 'std::snprintf', 'sprintf_s', 'sprintf', 'std::sprintf')


def approx(a, b):
    return b != 0 and abs(a / b - 1.0) < 1e-6


def num_const(tu, e):
    """value of a numeric literal expression (float literal rounding is kept: 1e15f is 9.99999986E+14)"""
    e = tu.strip(e, casts=True)
    if e is None:
        return None
    k = e.get('kind')
    try:
        if k == 'FloatingLiteral':
            return float(e.get('value'))
        if k == 'IntegerLiteral':
            return float(int(e.get('value')))
        if k == 'UnaryOperator' and e.get('opcode') == '-':
            v = num_const(tu, tu.kids(e)[0])
            return None if v is None else -v
        if k == 'BinaryOperator' and e.get('opcode') in ('*', '/'):
            a, b = (num_const(tu, y) for y in tu.kids(e)[:2])
            if a is None or b is None or (e['opcode'] == '/' and b == 0):
                return None
            return a * b if e['opcode'] == '*' else a / b
    except (TypeError, ValueError):
        return None
    cv = tu.sd(e).get('cv')
    if cv is not None:
        try:
            return float(int(cv))
        except ValueError:
            return None
    return None


def input_role(tu, x, e, depth=0):
    """('param', id) if e is the numeric parameter (possibly through a copy / conversion), ('abs', id) for its absolute
    value, else None"""
    e = tu.strip(e, casts=True)
    if e is None or depth > 6:
        return None
    k = e.get('kind')
    if k == 'DeclRefExpr':
        d = e.get('referencedDecl', {}).get('id')
        if d in x.params:
            return ('param', d)
        init = x.single_init(d)
        if init is not None:
            return input_role(tu, x, init, depth + 1)
        return None
    if k == 'CallExpr' and tu.sd(e).get('q') in ('std::abs', 'abs', 'std::fabs', 'fabs', 'fabsf', 'std::fabsf'):
        a = tu.kids(e)[1:]
        r = input_role(tu, x, a[0], depth + 1) if len(a) == 1 else None
        if r is not None:
            return ('abs', r[1])
    return None


class RungPrint:
    """the print of one ladder rung, either directly in the branch or inside a helper called from it; expressions of the
    helper are resolved through its parameters to the arguments of the call site"""

    def __init__(self, tu, x, call, helper=None):
        self.tu, self.x, self.call, self.helper = tu, x, call, helper
        self.hx = None
        self.argmap = {}
        if helper is not None:
            hc, hf, pcall = helper
            self.hx = FnX(tu, hf)
            self.call = pcall
            for p, a in zip(hf.get('params', []), tu.kids(hc)[1:]):
                self.argmap[p['id']] = a
            self.hx.bind = {}
            for pid, a in self.argmap.items():
                c = num_const(tu, a)
                if c is not None and float(c).is_integer():
                    self.hx.bind[pid] = Poly.const(int(c))

    def resolve(self, e, inner=True, depth=0):
        """(expression, in_helper) after following helper parameters to the call site and single-definition locals"""
        tu = self.tu
        ox = self.hx if (inner and self.hx is not None) else self.x
        e = tu.strip(e, casts=True)
        if e is None or depth > 8:
            return e, inner
        if e.get('kind') == 'DeclRefExpr':
            d = e.get('referencedDecl', {}).get('id')
            if inner and d in self.argmap:
                return self.resolve(self.argmap[d], False, depth + 1)
            init = ox.single_init(d)
            if init is not None and d not in ox.params:
                r, inn = self.resolve(init, inner, depth + 1)
                if r is not None and r.get('kind') in ('BinaryOperator', 'CharacterLiteral', 'IntegerLiteral', 'FloatingLiteral'):
                    return r, inn
        return e, inner

    def const(self, e, inner=True):
        r, inn = self.resolve(e, inner)
        return num_const(self.tu, r) if r is not None else None

    def role(self, e, inner=True):
        r, inn = self.resolve(e, inner)
        if r is None:
            return None
        return input_role(self.tu, self.x if not inn else self.hx, r) if not (inn and self.hx is not None) else None

    def char(self, e):
        r, inn = self.resolve(e, self.hx is not None)
        if r is not None and r.get('kind') == 'CharacterLiteral':
            return chr(int(r.get('value')))
        return None


def digit_interval(p, var_bounds):
    """(lo, hi, exact) of an integer expression built from +, -, *constant, / and % (C++ unsigned semantics, no wrap):
    sound interval; exact=True if both bounds are attained (every non-constant leaf occurs once, each step monotone or a
    remainder over a range that covers all residues)"""
    leaves = []

    def rng(q):
        # q: Poly
        lo = hi = Fraction(0)
        exact = True
        nonconst = 0
        for m, c in q.t:
            if m == ():
                lo += c
                hi += c
                continue
            if len(m) != 1 or m[0][1] != 1:
                return None
            r = atom_rng(m[0][0])
            if r is None:
                return None
            alo, ahi, aex = r
            nonconst += 1
            exact = exact and aex
            cands = [c * alo, c * ahi]
            lo += min(cands)
            hi += max(cands)
        if nonconst > 1:
            exact = False
        return lo, hi, exact

    def atom_rng(a):
        if isinstance(a, tuple) and a and a[0] == 'var':
            leaves.append(a)
            b = var_bounds(a)
            if b is None:
                return None
            return Fraction(b[0]), Fraction(b[1]), True
        if isinstance(a, tuple) and a and a[0] in ('div', 'mod') and len(a) == 3:
            ra, rb = rng(a[1]), rng(a[2])
            if ra is None or rb is None:
                return None
            if ra[0] < 0 or rb[0] < 1:
                return None
            if a[0] == 'div':
                if rb[0] != rb[1]:
                    return ra[0] // rb[1], ra[1] // rb[0], False
                return ra[0] // rb[0], ra[1] // rb[0], ra[2]
            # remainder
            if rb[0] != rb[1]:
                return Fraction(0), min(ra[1], rb[1] - 1), False
            mod = rb[0]
            if ra[1] - ra[0] >= mod - 1:
                return Fraction(0), mod - 1, ra[2]
            return Fraction(0), min(ra[1], mod - 1), False
        return None

    r = rng(p)
    if r is None:
        return None
    lo, hi, exact = r
    if len(leaves) != len(set(leaves)):
        exact = False
    return lo, hi, exact


class LFrame:
    """one activation in the ladder discovery: expressions are resolved through parameters to the caller's arguments,
    through locals that are set once to their initialiser, and through the fields of the current table row"""

    def __init__(self, tu, f, parent=None, call=None):
        self.tu = tu
        self.f = f
        self.x = FnX(tu, f)
        self.parent = parent
        self.argmap = {}
        self.rows = {}        # element variable decl id -> list of field initialisers of the current row
        if call is not None:
            for p, a in zip(f.get('params', []), tu.kids(call)[1:]):
                self.argmap[p['id']] = a

    def resolve(self, e, depth=0):
        tu = self.tu
        e = tu.strip(e, casts=True)
        if e is None or depth > 12:
            return e, self
        k = e.get('kind')
        if k == 'DeclRefExpr':
            d = e.get('referencedDecl', {}).get('id')
            if d in self.argmap and self.parent is not None and not self.x.vars[d]['defs']:
                return self.parent.resolve(self.argmap[d], depth + 1)
            if d not in self.x.params:
                init = self.x.single_init(d)
                if init is not None:
                    r, fr = self.resolve(init, depth + 1)
                    if r is not None and r.get('kind') in ('BinaryOperator', 'CharacterLiteral', 'IntegerLiteral',
                                                           'FloatingLiteral', 'CallExpr', 'DeclRefExpr', 'UnaryOperator'):
                        return r, fr
        if k == 'MemberExpr':
            ks = tu.kids(e)
            if ks:
                b = tu.strip(ks[0], casts=True)
                if b is not None and b.get('kind') == 'DeclRefExpr':
                    d = b.get('referencedDecl', {}).get('id')
                    fr = self
                    while fr is not None:
                        if d in fr.rows:
                            fi = tu.sd(e).get('fi')
                            row = fr.rows[d]
                            if fi is not None and 0 <= fi < len(row):
                                return tu.strip(row[fi], casts=True), fr
                        fr = None
        return e, self

    def const(self, e):
        r, fr = self.resolve(e)
        return num_const(self.tu, r) if r is not None else None

    def char(self, e):
        r, fr = self.resolve(e)
        if r is not None and r.get('kind') == 'CharacterLiteral':
            return chr(int(r.get('value')))
        return None

    def role(self, e, depth=0):
        """('param', id) / ('abs', id) of the top-level function's numeric parameter"""
        tu = self.tu
        r, fr = self.resolve(e)
        if r is None or depth > 6:
            return None
        k = r.get('kind')
        if k == 'DeclRefExpr':
            d = r.get('referencedDecl', {}).get('id')
            if fr.parent is None and d in fr.x.params and not fr.x.vars[d]['defs']:
                return ('param', d)
            return None
        if k == 'CallExpr' and tu.sd(r).get('q') in ('std::abs', 'abs', 'std::fabs', 'fabs', 'fabsf', 'std::fabsf'):
            a = tu.kids(r)[1:]
            rr = fr.role(a[0], depth + 1) if len(a) == 1 else None
            if rr is not None:
                return ('abs', rr[1])
        return None

    def top(self):
        fr = self
        while fr.parent is not None:
            fr = fr.parent
        return fr


def table_rows(tu, fr, hb):
    """rows of the constant table a range-for walks: (element variable id, [[field initialisers] ...]) or (None, why)"""
    term = tu.node(hb.term) if hb.term else None
    if term is None or term.get('kind') != 'CXXForRangeStmt':
        return None, 'not a range-for'
    rng = elem = None
    for vd in tu.walk(term):
        if vd.get('kind') == 'VarDecl' and (vd.get('name') or '').startswith('__range') and rng is None:
            rng = vd
    for st in tu.kids(term):
        if st.get('kind') == 'DeclStmt':
            for v2 in tu.kids(st):
                if v2.get('kind') == 'VarDecl' and not (v2.get('name') or '').startswith('__'):
                    elem = v2
    if rng is None or elem is None or not tu.kids(rng):
        return None, 'cannot find the range / element variable of the loop'
    src = tu.strip(tu.kids(rng)[0], casts=True)
    if src is None or src.get('kind') != 'DeclRefExpr':
        return None, 'the loop does not walk a named table'
    tv = tu.node(src.get('referencedDecl', {}).get('id'))
    if tv is None or tv.get('kind') != 'VarDecl':
        return None, 'the table `%s` has no visible definition' % tu.show(src)
    ty = tv.get('type', {}).get('qualType', '')
    if not ty.startswith('const '):
        return None, 'the table `%s` is not const: its rows may change at run time' % tv.get('name')
    il = [y for y in tu.kids(tv) if y.get('kind') == 'InitListExpr']
    if len(il) != 1:
        return None, 'the table `%s` has no initialiser list' % tv.get('name')
    rows = []
    for row in tu.kids(il[0]):
        if row.get('kind') != 'InitListExpr':
            return None, 'a row of `%s` is not a braced list' % tv.get('name')
        rows.append(tu.kids(row))
    if not rows:
        return None, 'the table `%s` is empty' % tv.get('name')
    return (elem['id'], rows, tv.get('name')), None


def find_print(tu, fr, blk):
    """(print call, frame it lives in) for the branch starting at block blk: a printf-family call in the block or inside
    a helper called from it (one level per call, followed recursively)"""
    g = fr.x.g
    for e in blk.el:
        if e[0] == 'S':
            nd = tu.node(e[1])
            if nd is not None and nd.get('kind') == 'CallExpr' and tu.sd(nd).get('q') in PRINTF_Q:
                return nd, fr, None
    for e in blk.el:
        if e[0] == 'S':
            nd = tu.node(e[1])
            if nd is not None and nd.get('kind') == 'CallExpr' and tu.sd(nd).get('q') not in PRINTF_Q:
                hf = tu.callee_fn(nd)
                if hf is not None and not hf['dep'] and tu.cfg(hf) is not None:
                    pcs = [y for bb, ii, y in tu.cfg(hf).stmts() if y.get('kind') == 'CallExpr' and tu.sd(y).get('q') in PRINTF_Q]
                    if len(pcs) == 1:
                        return pcs[0], LFrame(tu, hf, fr, nd), (nd, hf, pcs[0])
    return None, fr, None


TWO64 = 18446744073709551616.0


def delegated_ladder(tu, fr, b, hi):
    """the true branch of the test ending block b hands the value to another ladder function (prettyDouble -> prettyNumber):
    (call, callee, narrowing problem or None, sign restored?) or None"""
    g = fr.x.g
    tb = g.blocks[b.succ[0]]
    for e in tb.el:
        if e[0] != 'S':
            continue
        nd = tu.node(e[1])
        if nd is None or nd.get('kind') != 'CallExpr' or tu.sd(nd).get('q') in PRINTF_Q:
            continue
        hf = tu.callee_fn(nd)
        if hf is None or hf['dep'] or tu.cfg(hf) is None or hf['id'] == fr.f['id'] or len(hf.get('params', [])) != 1:
            continue
        args = tu.kids(nd)[1:]
        if len(args) != 1 or fr.role(args[0]) is None:
            continue
        # does the callee run a ladder at all?
        probe, pund = [], []
        discover_ladder(tu, LFrame(tu, hf, fr, nd), probe, pund, 3)
        if not probe:
            continue
        narrowing = None
        f2i = [y for y in tu.walk(args[0]) if y.get('kind') == 'ImplicitCastExpr' and y.get('castKind') == 'FloatingToIntegral']
        f2i += [y for y in tu.walk(args[0]) if y.get('kind') in ('CXXStaticCastExpr', 'CStyleCastExpr', 'CXXFunctionalCastExpr')
                and y.get('castKind') == 'FloatingToIntegral']
        pct = plain_ct(hf['params'][0]['ct'])
        if (f2i or (is_int_ct(pct) and not is_int_ct(tu.sd(tu.strip(args[0], casts=True)).get('ct')))) and is_int_ct(pct):
            limit = TWO64 if pct.startswith('unsigned long') else 2.0 ** 63 if 'long' in pct else 2.0 ** 32 if pct.startswith('unsigned') else 2.0 ** 31
            if hi > limit:
                narrowing = ('the magnitude is converted to `%s` in `%s` before the ladder of %s is walked, but nothing bounds it from above '
                             'there%s: for |value| >= %g (the top of the \'E\' range, e.g. 5e20) the conversion is undefined and in '
                             'practice yields 0, so the value prints without mantissa and suffix'
                             % (pct, tu.show(nd), fn_name(hf), '' if hi == float('inf') else ' (only < %g)' % hi, limit))
        # sign re-attached?  (value < 0 ? "-" + text : text)
        restored = False
        for y in tu.walk(tu.body(fr.f)):
            if y.get('kind') == 'ConditionalOperator':
                c = tu.strip(tu.kids(y)[0], casts=True)
                if c is not None and c.get('kind') == 'BinaryOperator' and c.get('opcode') in ('<', '>', '<=', '>='):
                    l, r = tu.kids(c)[:2]
                    rl, rr = fr.role(l), fr.role(r)
                    zero = (fr.const(r) == 0 and rl is not None and rl[0] == 'param') or (fr.const(l) == 0 and rr is not None and rr[0] == 'param')
                    minus = any(z.get('kind') == 'StringLiteral' and z.get('value') == '"-"' for z in tu.walk(y))
                    if zero and minus:
                        restored = True
        return nd, hf, narrowing, restored
    return None


def discover_ladder(tu, fr, rungs, und, depth=0, hi=float('inf')):
    """walk the CFG of fr.f from its entry and append the rungs found: if / else-if tests against constants, a helper
    that runs a ladder and reports whether it printed, a range-for over a constant table"""
    g = fr.x.g
    b = g.blocks[g.entry]
    seen = set()
    while b is not None and b.id not in seen and depth < 4:
        seen.add(b.id)
        if b.cond is None or len(b.succ) != 2 or None in b.succ:
            nxt = [s for s in b.succ if s is not None]
            if len(nxt) == 1 and nxt[0] != g.exit:
                b = g.blocks[nxt[0]]
                continue
            break
        term = tu.node(b.term) if b.term else None
        # ---- a table walked by a range-for
        if term is not None and term.get('kind') == 'CXXForRangeStmt':
            tr, why = table_rows(tu, fr, b)
            if tr is None:
                und.append(why)
                break
            elem, rows, tname = tr
            body = g.blocks[b.succ[0]]
            if body.cond is None or len(body.succ) != 2 or None in body.succ:
                und.append('the body of the loop over `%s` does not start with the rung test' % tname)
                break
            # the row that does not match must lead to the next row
            if b.id not in _reach_blocks(g, body.succ[1], stop=None):
                und.append('a row of `%s` that does not match does not lead to the next row' % tname)
                break
            for i, row in enumerate(rows):
                fr.rows[elem] = row
                rg = rung_from_test(tu, fr, body, '%s[%d]' % (tname, i))
                if rg is None:
                    und.append('the test in the loop over `%s` is not a comparison of the value with a field of the row' % tname)
                    break
                rungs.append(rg)
            fr.rows.pop(elem, None)
            b = g.blocks[b.succ[1]]
            continue
        c = tu.strip(tu.node(b.cond), casts=True)
        # ---- a helper that runs (part of) the ladder and reports whether it printed
        if c is not None and c.get('kind') == 'CallExpr' and tu.sd(c).get('q') not in PRINTF_Q:
            hf = tu.callee_fn(c)
            if hf is not None and not hf['dep'] and tu.cfg(hf) is not None and plain_ct(hf['fty'].split('(')[0]) == 'bool':
                before = len(rungs)
                discover_ladder(tu, LFrame(tu, hf, fr, c), rungs, und, depth + 1)
                if len(rungs) == before:
                    und.append('no rungs found in `%s`' % hf['q'])
                    break
                b = g.blocks[b.succ[1]]
                continue
        rg = rung_from_test(tu, fr, b, None)
        if rg is None:
            if rungs:
                und.append('ladder test `%s` is not a comparison with a constant' % tu.show(c))
            break
        if rg['call'] is None and depth < 3 and rg['op'] in ('>', '>=') and rg['role'] is not None:
            # no print in the branch: the range [threshold, hi) may be handed to another ladder
            dl = delegated_ladder(tu, fr, b, hi)
            if dl is not None:
                call, hf, narrowing, restored = dl
                sub = []
                discover_ladder(tu, LFrame(tu, hf, fr, call), sub, und, depth + 1, hi)
                first = True
                for r2 in sub:
                    if r2['op'] in ('>', '>=') and r2['thr'] >= hi:
                        continue        # cannot be reached: an earlier rung already took these values
                    if r2['op'] in ('>', '>=') and r2['thr'] < rg['thr'] * (1 - 1e-6):
                        continue        # below the range that is handed over
                    if r2['op'] in ('<', '<=') and r2['thr'] < rg['thr'] * (1 - 1e-6):
                        continue        # sub-unit rungs of the callee: the handed-over values are all above them
                    pre = r2.setdefault('pre', pre_resolve(tu, r2))
                    if first and narrowing:
                        pre['probs'] = list(pre['probs']) + [('narrowing', narrowing)]
                    if restored and pre.get('nrole') and pre['nrole'][0] == 'abs':
                        pre['nrole'] = ('param', pre['nrole'][1])     # printed through |value|, sign re-attached by the caller
                    r2['label'] = 'via %s' % fn_name(hf)
                    first = False
                    rungs.append(r2)
                if rg['op'] in ('>', '>='):
                    hi = min(hi, rg['thr'])
                b = g.blocks[b.succ[1]]
                continue
        rungs.append(rg)
        if rg['op'] in ('>', '>='):
            hi = min(hi, rg['thr'])
        b = g.blocks[b.succ[1]]


def _reach_blocks(g, start, stop=None):
    seen = {start}
    st = [start]
    while st:
        b = st.pop()
        if b == stop:
            continue
        for s in g.blocks[b].succ:
            if s is not None and s not in seen:
                seen.add(s)
                st.append(s)
    return seen


def rung_from_test(tu, fr, b, label):
    """rung record for the two-way test ending block b (true branch prints), or None if it is not a rung test"""
    g = fr.x.g
    c = tu.strip(tu.node(b.cond), casts=True)
    if c is None or c.get('kind') != 'BinaryOperator' or c.get('opcode') not in ('<', '<=', '>', '>='):
        return None
    l, r = tu.kids(c)[:2]
    op = c['opcode']
    lv, rv = fr.const(l), fr.const(r)
    if lv is not None and rv is None:
        l, r, rv = r, l, lv
        op = {'<': '>', '<=': '>=', '>': '<', '>=': '<='}[op]
    elif rv is None:
        return None
    role = fr.role(l)
    call, pfr, helper = find_print(tu, fr, g.blocks[b.succ[0]])
    rg = {'op': op, 'thr': rv, 'role': role, 'cond': c, 'call': call, 'tested': tu.show(l), 'helper': helper,
          'label': label, 'frame': fr, 'pframe': pfr}
    if fr.parent is not None or fr.rows or (helper is not None and False):
        rg['pre'] = pre_resolve(tu, rg)
    return rg


def pre_resolve(tu, rg):
    """suffix / divisor / numerator role of a rung whose print is reached through helpers or table rows
    (floating `%.1f%c` prints only)"""
    out = {'suffix': None, 'div': None, 'probs': [], 'unds': []}
    call, pfr = rg['call'], rg['pframe']
    if call is None:
        out['unds'].append('no snprintf call in the branch of `%s`' % tu.show(rg['cond']))
        return out
    args = tu.kids(call)[1:]
    fi = None
    for i, a in enumerate(args):
        a0 = tu.strip(a, casts=True)
        if a0 is not None and a0.get('kind') == 'StringLiteral':
            fi = i
            break
    if fi is None:
        out['unds'].append('format string of the print is not a literal')
        return out
    fmt = tu.strip(args[fi], casts=True).get('value', '')
    m = re.match(r'^"%[-+ 0#]*\d*(?:\.\d+)?l?[fFgGeE](%c|[A-Za-z])?"$', fmt)
    rest = args[fi + 1:]
    if not m or not rest:
        out['unds'].append('format %s is not <number><suffix>' % fmt)
        return out
    if m.group(1) == '%c':
        out['suffix'] = pfr.char(rest[1]) if len(rest) >= 2 else None
        if out['suffix'] is None:
            out['unds'].append('suffix character of the print is not a literal')
    elif m.group(1):
        out['suffix'] = m.group(1)
    else:
        out['unds'].append('the print of this rung has no suffix')
    sc, sfr = pfr.resolve(rest[0])
    num = None
    if sc is not None and sc.get('kind') == 'BinaryOperator' and sc.get('opcode') in ('/', '*'):
        a, b2 = tu.kids(sc)[:2]
        av, bv = sfr.const(a), sfr.const(b2)
        if sc['opcode'] == '/' and bv:
            num, out['div'] = a, bv
        elif sc['opcode'] == '*' and bv:
            num, out['div'] = a, 1.0 / bv
        elif sc['opcode'] == '*' and av:
            num, out['div'] = b2, 1.0 / av
    if num is None:
        out['unds'].append('printed value `%s` is not input / constant or input * constant' % tu.show(sc))
    else:
        nr = sfr.role(num)
        if nr is None:
            out['unds'].append('scaled value `%s` is not the input' % tu.show(num))
        else:
            out['nrole'] = nr
    return out


def unit_loop_ladder(ctx, tu, f, R):
    """prettyNumber-style ladder written as a counting loop:  unit = u0; for (i = i0; <guards> && i < N; i++, unit *= K)
    if (<input below the next unit>) { print(input / unit, table[i]); return; }
    The loop is unrolled over its constant trip count (constants only, no input values); rung k has divisor u0*K^k.
    Returns the number of instances reported, or None if f has no such loop."""
    x = FnX(tu, f)
    g = x.g
    file, fname = tu.fn_file(f), fn_name(f)
    fr = LFrame(tu, f)
    hs = loops_of(x)
    if len(hs) != 1:
        return None
    h = hs[0]
    body = CountLoop._body_blocks(_Hdr(x, h)) | {h}
    # the chain of loop conditions (short-circuit &&): all leave to the same block
    conds = []
    b = g.blocks[h]
    exit_blk = None
    while b.cond is not None and len(b.succ) == 2 and None not in b.succ and (exit_blk is None or b.succ[1] == exit_blk):
        exit_blk = b.succ[1]
        if exit_blk in body:
            break
        conds.append((b, tu.strip(deciding_cond(tu, b, g), casts=True)))
        b = g.blocks[b.succ[0]]
        if b.id not in body:
            return None
    if not conds:
        return None
    test_blk = b
    # locals stepped in the loop
    idx = unit = None
    for d, v in x.vars.items():
        if v['param'] or not is_int_ct(v['ct']):
            continue
        ins = [df for df in v['defs'] if df[2] and df[2][0] in body]
        outs = [df for df in v['defs'] if not (df[2] and df[2][0] in body)]
        if len(ins) != 1 or len(outs) != 1 or outs[0][0] != 'init' or outs[0][1] is None:
            continue
        c0 = x.poly_at(outs[0][1], outs[0][2]).as_int()
        kind, node, pos = ins[0]
        if c0 is None:
            continue
        if kind == 'inc' and node.get('opcode') == '++':
            idx = (d, v, c0, pos)
        elif kind == 'compound' and node.get('opcode') == '*=':
            k = x.poly_at(tu.kids(node)[1], pos).as_int()
            if k is not None and k > 1:
                unit = (d, v, c0, k, pos)
    if idx is None or unit is None:
        return None
    IA, UA = ('var', idx[0], idx[1]['name']), ('var', unit[0], unit[1]['name'])
    N = None
    lower = None
    for blk, c in conds:
        if c is None or c.get('kind') != 'BinaryOperator':
            return None
        nf = x.cond_at(c, True, x.pos_of(c))
        if nf[0] != 'rel' or nf[1].op != '>=':
            return None
        lin = nf[1].p.linear_in(IA)
        if lin is not None and lin[0] == -1 and lin[1].as_int() is not None:
            N = lin[1].as_int() + 1                      # i <= rest
            continue
        l, r = tu.kids(c)[:2]
        role = fr.role(l) or fr.role(r)
        cv = fr.const(r) if fr.role(l) else fr.const(l)
        if role is None or cv is None or c.get('opcode') not in ('>=', '>'):
            return None
        lower = cv if c['opcode'] == '>=' else cv + 1
    if N is None or test_blk.cond is None or len(test_blk.succ) != 2:
        return None
    # ---- from here on the loop is taken to be the ladder: every deviation is reported
    n = 0
    loc0 = tu.loc(conds[0][1])
    inst0 = '%s: unit loop' % fname
    tc = tu.strip(deciding_cond(tu, test_blk, g), casts=True)
    tnf = x.cond_at(tc, True, x.pos_of(tc))
    call, pfr, helper = find_print(tu, fr, g.blocks[test_blk.succ[0]])
    if tnf[0] != 'rel' or tnf[1].op != '>=' or call is None:
        ctx.undecided(R, inst0, 'cannot read the rung test `%s` / its print' % tu.show(tc), loc0)
        return 1
    # the test:  a*unit*M - input - 1 >= 0   (input < unit*M)   or   M - 1 - input/unit >= 0   (input / unit < M)
    SA = None
    for a in tnf[1].p.atoms(deep=True):
        if isinstance(a, tuple) and a[0] == 'var' and a[1] in x.params:
            SA = a
    form = None
    M = None
    if SA is not None:
        lin_s = tnf[1].p.linear_in(SA)
        if lin_s is not None and lin_s[0] == -1:
            rest = lin_s[1] + 1                              # input < rest
            lu = rest.linear_in(UA)
            if lu is not None and lu[1].as_int() == 0 and lu[0] > 0 and lu[0].denominator == 1:
                form, M = 'product', int(lu[0])
        if form is None:
            for a in tnf[1].p.atoms(deep=False):
                if isinstance(a, tuple) and a[0] == 'div' and len(a) == 3 and a[1] == Poly.atom(SA) and a[2] == Poly.atom(UA):
                    la = tnf[1].p.linear_in(a)
                    if la is not None and la[0] == -1 and la[1].as_int() is not None:
                        form, M = 'quotient', la[1].as_int() + 1     # input / unit < M
    if form is None:
        ctx.undecided(R, inst0, 'rung test `%s` is neither `input < unit * M` nor `input / unit < M`' % tu.show(tc), loc0)
        return 1
    # the print: input / unit, suffix = table[i]
    args = tu.kids(call)[1:]
    fi = [i for i, a in enumerate(args) if (tu.strip(a, casts=True) or {}).get('kind') == 'StringLiteral']
    fmt = tu.strip(args[fi[0]], casts=True).get('value', '') if fi else ''
    m = re.match(r'^"%[-+ 0#]*\d*(?:\.\d+)?l?[fFgGeE](%c)"$', fmt)
    rest_a = args[fi[0] + 1:] if fi else []
    table = None
    okprint = False
    if m and len(rest_a) >= 2:
        sc = tu.strip(rest_a[0], casts=True)
        if sc is not None and sc.get('kind') == 'BinaryOperator' and sc.get('opcode') == '/':
            nu, de = tu.kids(sc)[:2]
            rn = fr.role(nu)
            if rn is not None and rn[0] == 'param' and x.var_of(de)[0] == unit[0]:
                okprint = True
        su = tu.strip(rest_a[1], casts=True)
        if su is not None and su.get('kind') == 'ArraySubscriptExpr' and x.var_of(tu.kids(su)[1])[0] == idx[0]:
            tb = tu.strip(tu.kids(su)[0], casts=True)
            tv = tu.node(tb.get('referencedDecl', {}).get('id')) if tb is not None and tb.get('kind') == 'DeclRefExpr' else None
            if tv is not None and tv.get('type', {}).get('qualType', '').startswith('const '):
                il = [y for y in tu.kids(tv) if y.get('kind') in ('InitListExpr', 'StringLiteral')]
                if il and il[0].get('kind') == 'InitListExpr':
                    table = [chr(int(tu.strip(y, casts=True).get('value'))) if (tu.strip(y, casts=True) or {}).get('kind') == 'CharacterLiteral'
                             else None for y in tu.kids(il[0])]
                elif il:
                    table = list(bytes(il[0].get('value', '""')[1:-1], 'utf-8').decode('unicode_escape'))
    if not okprint or table is None or None in table:
        ctx.undecided(R, inst0, 'cannot read the print of the rung (`input / unit`, suffix from a constant table indexed by the loop index)', loc0)
        return 1
    uct = plain_ct(unit[1]['ct'])
    limit = 2 ** 64 if uct in ('unsigned long', 'unsigned long long') else 2 ** 32 if uct == 'unsigned int' else \
        2 ** 63 if uct in ('long', 'long long') else 2 ** 31
    prev_hi = lower
    sufs = []
    for kk in range(idx[2], N):
        n += 1
        u = unit[2] * unit[3] ** (kk - idx[2])
        suffix = table[kk] if 0 <= kk < len(table) else None
        inst = '%s: rung %d of the unit loop (unit %d)%s' % (fname, kk, u, (" -> '%s'" % suffix) if suffix else '')
        key0 = '%s|%s|%s|rung-%s' % (R, file, fname, suffix or '?')
        probs = []
        if suffix is None:
            probs.append(('suffix', 'the suffix table has no entry %d' % kk))
        elif suffix not in SI_EXP:
            probs.append(('suffix', "'%s' is not an SI prefix" % suffix))
        elif u >= limit:
            probs.append(('unit-wraps', 'the unit %d does not fit into `%s`' % (u, uct)))
        else:
            sv = 10 ** SI_EXP[suffix]
            sufs.append(SI_EXP[suffix])
            if u != sv:
                probs.append(('divisor', "the value is divided by %d but the suffix '%s' stands for %d" % (u, suffix, sv)))
            hi = u * M
            if hi != sv * 1000:
                probs.append(('threshold', "the rung for '%s' is taken for values below %d, expected below %d" % (suffix, hi, sv * 1000)))
            if form == 'product' and hi >= limit:
                probs.append(('threshold-wraps', "the bound `%s` is evaluated in `%s`: for unit = %d the product %d does not fit and wraps to %d, so "
                              "values from %d upwards fail the test for '%s', leave the loop and are printed without mantissa and suffix"
                              % (tu.show(tc), uct, u, hi, hi % limit, hi % limit, suffix)))
            if prev_hi is None or prev_hi != u:
                probs.append(('lower-bound', "when the rung for '%s' is reached the value is only known to be >= %s, expected >= %d: the mantissa "
                              'can be below 1' % (suffix, prev_hi, u)))
            prev_hi = hi
        if probs:
            for kind, msg in probs:
                ctx.violation(R, inst, msg, tu.loc(tc), key='%s-%s' % (key0, kind))
        else:
            ctx.ok(R, inst, "values in [%d, %d) print value / %d with '%s'" % (u, u * M, u, suffix), tu.loc(tc))
    n += 1
    inst = '%s: ladder order' % fname
    if sufs != list(range(3, 3 + 3 * len(sufs), 3)):
        ctx.violation(R, inst, "the units of the loop carry the suffixes %s, expected a gap-free ascent by 10^3 from 'k'"
                      % [table[kk] for kk in range(idx[2], min(N, len(table)))], tu.fn_loc(f), key='%s|%s|%s|ladder-order' % (R, file, fname))
    else:
        ctx.ok(R, inst, 'suffixes %s' % ''.join(table[idx[2]:N]), tu.fn_loc(f))
    return n


def _const_table(tu, e):
    """(name, [values]) of a const array of numbers / characters named by e, or None"""
    e = tu.strip(e, casts=True)
    if e is None or e.get('kind') != 'DeclRefExpr':
        return None
    tv = tu.node(e.get('referencedDecl', {}).get('id'))
    if tv is None or tv.get('kind') != 'VarDecl' or not tv.get('type', {}).get('qualType', '').startswith('const '):
        return None
    il = [y for y in tu.kids(tv) if y.get('kind') in ('InitListExpr', 'StringLiteral')]
    if not il:
        return None
    if il[0].get('kind') == 'StringLiteral':
        try:
            return tv.get('name'), list(bytes(il[0].get('value', '""')[1:-1], 'utf-8').decode('unicode_escape'))
        except Exception:
            return None
    vals = []
    for y in tu.kids(il[0]):
        y0 = tu.strip(y, casts=True)
        if y0 is not None and y0.get('kind') == 'CharacterLiteral':
            vals.append(chr(int(y0.get('value'))))
        else:
            v = num_const(tu, y)
            if v is None:
                return None
            vals.append(v)
    return tv.get('name'), vals


def count_fn(tu, hf):
    """int counter(double m) { int r = 0; for (const float t : TABLE) r += (m >= t) ? 1 : 0;  return r; }   (also `if (m >= t) ++r;`,
    `<=`):  (table name, values, op) or None"""
    if hf is None or hf['dep'] or tu.body(hf) is None or len(hf.get('params', [])) != 1 or not is_int_ct(plain_ct(hf['fty'].split('(')[0])):
        return None
    body = tu.body(hf)
    fors = [y for y in tu.walk(body) if y.get('kind') in ('CXXForRangeStmt', 'ForStmt', 'WhileStmt', 'DoStmt')]
    rets = [y for y in tu.walk(body) if y.get('kind') == 'ReturnStmt']
    if len(fors) != 1 or fors[0].get('kind') != 'CXXForRangeStmt' or len(rets) != 1 or not tu.kids(rets[0]):
        return None
    rf = fors[0]
    rv = tu.strip(tu.kids(rets[0])[0], casts=True)
    if rv is None or rv.get('kind') != 'DeclRefExpr':
        return None
    rid = rv.get('referencedDecl', {}).get('id')
    rdecl = tu.node(rid)
    if rdecl is None or rdecl.get('kind') != 'VarDecl' or not tu.kids(rdecl) or num_const(tu, tu.kids(rdecl)[0]) != 0:
        return None
    rng = [v2 for v2 in tu.walk(rf) if v2.get('kind') == 'VarDecl' and (v2.get('name') or '').startswith('__range')]
    elem = None
    for st in tu.kids(rf):
        if st.get('kind') == 'DeclStmt':
            for v2 in tu.kids(st):
                if v2.get('kind') == 'VarDecl' and not (v2.get('name') or '').startswith('__'):
                    elem = v2
    if not rng or elem is None or not tu.kids(rng[0]):
        return None
    tab = _const_table(tu, tu.kids(rng[0])[0])
    if tab is None or not all(isinstance(v, float) for v in tab[1]):
        return None
    lbody = tu.kids(rf)[-1]
    # every write of r: one, inside the loop body
    writes = []
    for y in tu.walk(body):
        if y.get('kind') in ('CompoundAssignOperator', 'BinaryOperator', 'UnaryOperator') and tu.kids(y):
            l = tu.strip(tu.kids(y)[0], casts=True)
            if l is not None and l.get('kind') == 'DeclRefExpr' and l.get('referencedDecl', {}).get('id') == rid and \
                    (y.get('kind') != 'BinaryOperator' or y.get('opcode') == '=') and \
                    (y.get('kind') != 'UnaryOperator' or y.get('opcode') in ('++', '--')):
                writes.append(y)
    if len(writes) != 1 or writes[0]['id'] not in {z['id'] for z in tu.walk(lbody)}:
        return None
    w = writes[0]
    cond = None
    if w.get('kind') == 'CompoundAssignOperator' and w.get('opcode') == '+=':
        r = tu.strip(tu.kids(w)[1], casts=True)
        while r is not None and r.get('kind') == 'ParenExpr':
            r = tu.strip(tu.kids(r)[0], casts=True)
        if r is not None and r.get('kind') == 'ConditionalOperator' and num_const(tu, tu.kids(r)[1]) == 1 and num_const(tu, tu.kids(r)[2]) == 0:
            cond = tu.kids(r)[0]
        elif r is not None and r.get('kind') == 'BinaryOperator':
            cond = r                  # r += (m >= t)
    elif w.get('kind') == 'UnaryOperator' and w.get('opcode') == '++':
        ifs = [y for y in tu.walk(lbody) if y.get('kind') == 'IfStmt']
        if len(ifs) == 1 and len(tu.kids(ifs[0])) == 2 and w['id'] in {z['id'] for z in tu.walk(tu.kids(ifs[0])[1])}:
            cond = tu.kids(ifs[0])[0]
    other = [y for y in tu.walk(lbody) if y.get('kind') in ('BreakStmt', 'ContinueStmt', 'ReturnStmt', 'GotoStmt')]
    c = tu.strip(cond, casts=True) if cond is not None else None
    while c is not None and c.get('kind') == 'ParenExpr':
        c = tu.strip(tu.kids(c)[0], casts=True)
    if other or c is None or c.get('kind') != 'BinaryOperator' or c.get('opcode') not in ('>=', '>', '<=', '<'):
        return None
    l, r = (tu.strip(y, casts=True) for y in tu.kids(c)[:2])
    op = c['opcode']
    pid = hf['params'][0]['id']

    def isd(e, did):
        return e is not None and e.get('kind') == 'DeclRefExpr' and e.get('referencedDecl', {}).get('id') == did
    if isd(l, elem['id']) and isd(r, pid):
        op = {'<': '>', '<=': '>=', '>': '<', '>=': '<='}[op]
    elif not (isd(l, pid) and isd(r, elem['id'])):
        return None
    return tab[0], tab[1], op


def count_ladder(ctx, tu, f, R):
    """the SI prefix is selected by counting how many thresholds of a sorted constant table the magnitude reaches:
         const int k = counter(|value|);  if (k > 0) print(value / SCALE[k - 1], SUFFIX[k - 1]);
    With a strictly ascending table and `>=` the count k says  T[k-1] <= |value| < T[k]  (descending and `<=` likewise): one rung
    per table entry.  Returns the number of instances reported, or None if f is not written this way."""
    body = tu.body(f)
    if body is None:
        return None
    x = FnX(tu, f)
    fr = LFrame(tu, f)
    file, fname = tu.fn_file(f), fn_name(f)
    par = f['params'][0] if f.get('params') else None
    unsigned_in = par is not None and plain_ct(par['ct']).startswith('unsigned')
    ladders = []
    for ifs in tu.walk(body):
        if ifs.get('kind') != 'IfStmt' or len(tu.kids(ifs)) < 2:
            continue
        c = tu.strip(tu.kids(ifs)[0], casts=True)
        if c is None or c.get('kind') != 'BinaryOperator' or c.get('opcode') not in ('>', '!=', '>='):
            continue
        kd, kv = x.var_of(tu.kids(c)[0])
        cv = num_const(tu, tu.kids(c)[1])
        if kd is None or kv['param'] or len(kv['defs']) != 1 or cv != (1 if c['opcode'] == '>=' else 0):
            continue
        init = x.single_init(kd)
        call = x.peel(init) if init is not None else None
        if call is None or call.get('kind') != 'CallExpr':
            continue
        hf = tu.callee_fn(call)
        cf = count_fn(tu, hf)
        if cf is None:
            continue
        ladders.append((ifs, c, kd, kv, call, hf, cf))
    if not ladders:
        return None
    n = 0
    ups, los = [], []
    prev_upper_floor = None
    for ifs, c, kd, kv, call, hf, (tname, T, op) in ladders:
        K = Poly.atom(('var', kd, kv['name']))
        loc = tu.loc(c)
        inst0 = '%s: prefix chosen by `%s` (count over %s)' % (fname, tu.show(call), tname)
        und, bad = [], []
        trole = fr.role(tu.kids(call)[1]) if len(tu.kids(call)) == 2 else None
        upper = op in ('>=', '>')
        mono = all((T[i] < T[i + 1]) if upper else (T[i] > T[i + 1]) for i in range(len(T) - 1))
        if not mono:
            n += 1
            ctx.violation(R, inst0, 'the count of `%s` thresholds reached is used as the index of the prefix, but `%s` is not strictly %s: '
                          'the count does not identify the largest threshold reached' % (op, tname, 'ascending' if upper else 'descending'),
                          loc, key='%s|%s|%s|table-order' % (R, file, fname))
            continue
        then = tu.kids(ifs)[1]
        subs = [y for y in tu.walk(then) if y.get('kind') == 'ArraySubscriptExpr']
        scale = suff = None
        scale_op = None
        idx_bad = None
        for y in subs:
            tb = _const_table(tu, tu.kids(y)[0])
            ip = x.poly_at(tu.kids(y)[1], None)
            if tb is None:
                und.append('`%s` does not index a constant table' % tu.show(y))
                continue
            if ip != K - 1:
                idx_bad = (y, ip)
                continue
            if all(isinstance(v, float) for v in tb[1]):
                pp = tu.par(y)
                while pp is not None and pp.get('kind') in ('ImplicitCastExpr', 'ParenExpr'):
                    pp = tu.par(pp)
                if pp is not None and pp.get('kind') == 'BinaryOperator' and pp.get('opcode') in ('/', '*'):
                    a, b2 = tu.kids(pp)[:2]
                    is_right = y['id'] in {z['id'] for z in tu.walk(b2)}
                    oth = a if is_right else b2
                    if pp['opcode'] == '/' and not is_right:
                        und.append('`%s`: the table entry is divided by the value' % tu.show(pp))
                        continue
                    scale, scale_op, num = tb, pp['opcode'], oth
                else:
                    und.append('`%s` is not multiplied with / divided into the value' % tu.show(y))
            else:
                suff = tb
        if idx_bad is not None:
            n += 1
            ctx.violation(R, inst0, '`%s` is indexed with `%s`; a count of k thresholds reached selects entry k - 1 (`%s`), entry k is the '
                          'next larger prefix and does not exist for the last one' % (tu.show(idx_bad[0]), idx_bad[1].show(), (K - 1).show()),
                          tu.loc(idx_bad[0]), key='%s|%s|%s|table-index' % (R, file, fname))
            continue
        if scale is None or suff is None:
            und.append('cannot find `value / SCALE[%s]` and `SUFFIX[%s]` in the branch' % ((K - 1).show(), (K - 1).show()))
        elif not (len(scale[1]) == len(suff[1]) == len(T)):
            und.append('the tables %s, %s and %s do not have the same length' % (tname, scale[0], suff[0]))
        # the print: snprintf("%.1f%c", scaled, suffix) here or in a helper that is handed (scaled, suffix)
        if not und:
            pcs = [y for y in tu.walk(then) if y.get('kind') == 'CallExpr']
            okp = False
            for pc in pcs:
                q = tu.sd(pc).get('q')
                pargs = tu.kids(pc)[1:]
                if q in PRINTF_Q:
                    fm = [tu.strip(a, casts=True) for a in pargs if (tu.strip(a, casts=True) or {}).get('kind') == 'StringLiteral']
                    if fm and re.match(r'^"%[-+ 0#]*\d*(?:\.\d+)?l?[fF]%c"$', fm[0].get('value', '')):
                        okp = True
                else:
                    pf = tu.callee_fn(pc)
                    if pf is not None and not pf['dep'] and tu.cfg(pf) is not None and len(pf.get('params', [])) == 2 and len(pargs) == 2:
                        inner = [y for b_, i_, y in tu.cfg(pf).stmts() if y.get('kind') == 'CallExpr' and tu.sd(y).get('q') in PRINTF_Q]
                        if len(inner) == 1:
                            ia = tu.kids(inner[0])[1:]
                            fm = [k_ for k_, a in enumerate(ia) if (tu.strip(a, casts=True) or {}).get('kind') == 'StringLiteral']
                            if fm and re.match(r'^"%[-+ 0#]*\d*(?:\.\d+)?l?[fF]%c"$', tu.strip(ia[fm[0]], casts=True).get('value', '')):
                                rest = ia[fm[0] + 1:]
                                ids = [(tu.strip(a, casts=True) or {}).get('referencedDecl', {}).get('id') for a in rest]
                                if ids == [p_['id'] for p_ in pf['params']]:
                                    okp = True
            if not okp:
                und.append('cannot find the print `"%.1f%c", scaled value, suffix` of the branch')
        nrole = fr.role(num) if (not und and scale is not None) else None
        if not und and nrole is None:
            und.append('the scaled value `%s` is not the input' % tu.show(num))
        if und:
            n += 1
            for u in und:
                ctx.undecided(R, inst0, u, loc)
            continue
        # ---- one rung per table entry
        for j in range(len(T)):
            n += 1
            suffix = suff[1][j]
            div = scale[1][j] if scale_op == '/' else 1.0 / scale[1][j]
            thr = T[j]
            nxt = T[j + 1] if j + 1 < len(T) else None
            inst = "%s: rung %s[%d] (|value| %s %g%s) -> '%s'" % (fname, tname, j, op, thr,
                                                                  (' and not %s %g' % (op, nxt)) if nxt is not None else '', suffix)
            key0 = '%s|%s|%s|rung-%s' % (R, file, fname, suffix or '?')
            probs = []
            if trole is None:
                probs.append(('und', 'the counted value `%s` is not the input or its absolute value' % tu.show(tu.kids(call)[1])))
            elif trole[0] == 'param' and not unsigned_in:
                probs.append(('tested-value', 'the thresholds are counted on the signed input instead of its absolute value: negative '
                              'inputs take the wrong rung'))
            if nrole[0] == 'abs' and not unsigned_in:
                probs.append(('sign', 'the absolute value is printed: the sign of the input is lost'))
            if suffix not in SI_EXP:
                probs.append(('suffix', "'%s' is not an SI prefix" % suffix))
            else:
                sv = 10.0 ** SI_EXP[suffix]
                if not approx(div, sv):
                    probs.append(('divisor', "the value is divided by %g but the suffix '%s' stands for %g" % (div, suffix, sv)))
                want = sv if upper else sv * 1000.0
                if upper != (SI_EXP[suffix] > 0):
                    probs.append(('direction', "the rung for '%s' is tested with `%s`" % (suffix, op)))
                elif not approx(thr, want):
                    probs.append(('threshold', "the rung for '%s' (%g) is taken for |value| %s %g, expected %s %g: values between the "
                                  'two print a mantissa outside [1, 1000]' % (suffix, sv, op, thr, op, want)))
                (ups if upper else los).append(SI_EXP[suffix])
            hard = [p_ for p_ in probs if p_[0] != 'und']
            if hard:
                for kind, msg in hard:
                    ctx.violation(R, inst, msg, loc, key=('%s-%s' % (key0, kind)) if kind not in ('sign', 'tested-value')
                                  else '%s|%s|%s|%s' % (R, file, fname, kind))
            elif probs:
                ctx.undecided(R, inst, probs[0][1], loc)
            else:
                ctx.ok(R, inst, 'threshold %g, divisor %g' % (thr, div), loc)
    # ---- order: the table of upper rungs ascends by 10^3 from k, the table of sub-unit rungs descends by 10^3 from m
    n += 1
    inst = '%s: ladder order' % fname
    probs = []
    if ups and ups != list(range(3, 3 + 3 * len(ups), 3)):
        probs.append('the thresholds >= 1000 carry the suffix exponents %s, expected a gap-free ascent by 10^3 from k' % ups)
    if los and los != list(range(-3, -3 - 3 * len(los), -3)):
        probs.append('the sub-unit limits carry the suffix exponents %s, expected a gap-free descent by 10^3 from m' % los)
    # the sub-unit count must only be consulted when no upper threshold was reached: it is, if its branch lies behind the upper one
    if probs:
        for pmsg in probs:
            ctx.violation(R, inst, pmsg, tu.fn_loc(f), key='%s|%s|%s|ladder-order' % (R, file, fname))
    else:
        ctx.ok(R, inst, 'exponents %s / %s' % (ups, los), tu.fn_loc(f))
    return n


def check_ladder(ctx, tu, qname):
    R = 'R-C18-3'
    R10 = 'R-C18-10'
    n = 0
    n10 = 0
    for f in tu.fns(q=qname):
        if f['dep'] or tu.cfg(f) is None:
            continue
        x = FnX(tu, f)
        g = x.g
        file, fname = tu.fn_file(f), fn_name(f)
        ul = unit_loop_ladder(ctx, tu, f, R)
        if ul is not None:
            n += ul
            continue
        cl = count_ladder(ctx, tu, f, R)
        if cl is not None:
            n += cl
            continue
        rungs = []
        und = []
        discover_ladder(tu, LFrame(tu, f), rungs, und)
        if not rungs:
            ctx.undecided(R, '%s %s' % (fname, f['fty']), '; '.join(und) if und else
                          'no if / else-if ladder of comparisons with constants (and no constant table walked by a loop) found',
                          tu.fn_loc(f))
            n += 1
            continue
        par = f['params'][0] if f.get('params') else None
        unsigned_in = par is not None and plain_ct(par['ct']).startswith('unsigned')
        allok = True
        for rg in rungs:
            n += 1
            c = rg['cond']
            loc = tu.loc(c)
            probs, unds = [], []
            suffix = None
            div = None
            call = rg['call']
            intpair = None
            pre = rg.get('pre')
            if pre is not None:
                suffix, div = pre['suffix'], pre['div']
                unds += pre['unds']
                probs += pre['probs']
                if pre.get('nrole') and pre['nrole'][0] == 'abs' and not unsigned_in:
                    probs.append(('sign', 'the absolute value is printed: the sign of the input is lost'))
            elif call is None:
                unds.append('no snprintf call in the branch of `%s`' % tu.show(c))
            else:
                rp = RungPrint(tu, x, call, rg.get('helper'))
                inner = rp.hx is not None
                args = tu.kids(call)[1:]
                fi = None
                for i, a in enumerate(args):
                    a0 = tu.strip(a, casts=True)
                    if a0 is not None and a0.get('kind') == 'StringLiteral':
                        fi = i
                        break
                if fi is None:
                    unds.append('format string of the print is not a literal')
                else:
                    fmt = tu.strip(args[fi], casts=True).get('value', '')
                    m = re.match(r'^"%[-+ 0#]*\d*(?:\.\d+)?l?[fFgGeE](%c|[A-Za-z])?"$', fmt)
                    mi = re.match(r'^"%\d*(?:z|l|ll|j|t)?[udi]\.%(0\d+)?(?:z|l|ll|j|t)?[udi](%c|[A-Za-z])?"$', fmt)
                    rest = args[fi + 1:]
                    if mi and len(rest) >= 2:
                        intpair = (rest[1], int(mi.group(1)[1:]) if mi.group(1) else 1, rp)
                        sfx, rest_s = mi.group(2), rest[2:]
                    elif m and rest:
                        sfx, rest_s = m.group(1), rest[1:]
                    else:
                        sfx = rest_s = None
                    if sfx is None and rest_s is None:
                        unds.append('format %s is not <number><suffix>' % fmt)
                    else:
                        if sfx == '%c':
                            if rest_s:
                                suffix = rp.char(rest_s[0])
                            if suffix is None:
                                unds.append('suffix character of the print is not a literal')
                        elif sfx:
                            suffix = sfx
                        else:
                            unds.append('the print of this rung has no suffix')
                        if intpair:
                            # integer part: nested divisions by constants of (input + rounding offset)
                            ox = rp.hx if rp.hx is not None else x
                            wp = ox.poly_at(rest[0])
                            prod = 1
                            for _ in range(6):
                                a = wp.as_atom()
                                if isinstance(a, tuple) and a[0] == 'div' and len(a) == 3 and a[2].as_int() and a[2].as_int() > 0:
                                    prod *= a[2].as_int()
                                    wp = a[1]
                                else:
                                    break
                            ats = wp.atoms(deep=False)
                            okin = False
                            if prod > 1 and len(ats) == 1 and isinstance(ats[0], tuple) and ats[0][0] == 'var':
                                lin = wp.linear_in(ats[0])
                                off = lin[1].as_int() if lin and lin[0] == 1 else None
                                pid = ats[0][1]
                                src = rp.argmap.get(pid) if rp.hx is not None else None
                                if rp.hx is not None:
                                    isin = src is not None and input_role(tu, x, src) is not None and input_role(tu, x, src)[0] == 'param'
                                else:
                                    isin = pid in x.params
                                if off is not None and 0 <= off < prod and isin:
                                    okin = True
                            if okin:
                                div = float(prod)
                            else:
                                unds.append('integer part `%s` is not (input + rounding) / constant' % ox.poly_at(rest[0]).show())
                        else:
                            sc, sc_in = rp.resolve(rest[0], inner)
                            num = None
                            if sc is not None and sc.get('kind') == 'BinaryOperator' and sc.get('opcode') in ('/', '*'):
                                a, b2 = tu.kids(sc)[:2]
                                av, bv = rp.const(a, sc_in), rp.const(b2, sc_in)
                                if sc['opcode'] == '/' and bv:
                                    num, div = a, bv
                                elif sc['opcode'] == '*' and bv:
                                    num, div = a, 1.0 / bv
                                elif sc['opcode'] == '*' and av:
                                    num, div = b2, 1.0 / av
                            if num is None:
                                unds.append('printed value `%s` is not input / constant or input * constant' % tu.show(sc))
                            else:
                                nres, n_in = rp.resolve(num, sc_in)
                                nr = input_role(tu, x, nres) if not (n_in and rp.hx is not None) else None
                                if nr is None:
                                    unds.append('scaled value `%s` is not the input' % tu.show(num))
                                elif nr[0] == 'abs' and not unsigned_in:
                                    probs.append(('sign', 'the absolute value is printed: the sign of the input is lost'))
            if rg['role'] is None:
                unds.append('tested value `%s` is not the input or its absolute value' % rg['tested'])
            elif rg['role'][0] == 'param' and not unsigned_in:
                probs.append(('tested-value', 'the rung tests the signed input `%s` instead of its absolute value: negative '
                              'inputs take the wrong rung' % rg['tested']))
            inst = '%s: rung %s`%s`%s' % (fname, (rg['label'] + ' ') if rg.get('label') else '', tu.show(c),
                                          (" -> '%s'" % suffix) if suffix else '')
            key0 = '%s|%s|%s|rung-%s' % (R, file, fname, suffix or '?')
            if suffix is not None and div is not None:
                if suffix not in SI_EXP:
                    probs.append(('suffix', "'%s' is not an SI prefix" % suffix))
                else:
                    sv = 10.0 ** SI_EXP[suffix]
                    upper = rg['op'] in ('>', '>=')
                    rg['upper'] = upper
                    rg['suffix'] = suffix
                    if not approx(div, sv):
                        probs.append(('divisor', "the value is divided by %g but the suffix '%s' stands for %g" % (div, suffix, sv)))
                    want = sv if upper else sv * 1000.0
                    if upper != (SI_EXP[suffix] > 0):
                        probs.append(('direction', "the rung for '%s' is tested with `%s`" % (suffix, rg['op'])))
                    elif not approx(rg['thr'], want):
                        probs.append(('threshold', "the rung for '%s' (%g) is taken for |value| %s %g, expected %s %g: values "
                                      'between the two print a mantissa outside [1, 1000]'
                                      % (suffix, sv, rg['op'], rg['thr'], rg['op'], want)))
            if probs:
                allok = False
                for kind, msg in probs:
                    ctx.violation(R, inst, msg, loc, key=('%s-%s' % (key0, kind)) if kind not in ('sign', 'tested-value', 'narrowing')
                                  else '%s|%s|%s|%s' % (R, file, fname, kind))
            elif unds:
                allok = False
                for u in unds:
                    ctx.undecided(R, inst, u, loc)
            else:
                ctx.ok(R, inst, 'threshold %g, divisor %g' % (rg['thr'], div), loc)
            if intpair is not None:
                n10 += 1
                farg, width, rp = intpair
                ox = rp.hx if rp.hx is not None else x
                fp = ox.poly_at(farg)
                limit = 10 ** width

                def vb(a, ox=ox):
                    v = ox.vars.get(a[1])
                    if v is None or not v['param'] or v['defs'] or v['escaped']:
                        return None
                    t = plain_ct(v['ct'])
                    if t.startswith('unsigned'):
                        return (0, 2 ** (64 if 'long' in t else 32 if 'int' in t else 16 if 'short' in t else 8) - 1)
                    return None
                iv = digit_interval(fp, vb)
                dinst = '%s: rung `%s`: fraction printed by `%s`' % (fname, tu.show(c), tu.show(call))
                dloc = tu.loc(call)
                if iv is None:
                    ctx.undecided(R10, dinst, 'cannot bound the fraction `%s`' % fp.show(), dloc)
                elif iv[1] < limit:
                    ctx.ok(R10, dinst, 'fraction `%s` lies in [%d, %d]' % (fp.show(), iv[0], iv[1]), dloc)
                elif iv[2]:
                    ctx.violation(R10, dinst, 'the value `%s` printed behind the decimal point with %d digit(s) ranges over [%d, %d]: '
                                  'for some inputs it is %d, which prints one digit too many, and the carry into the integer part is '
                                  'missing (1960 -> "1.10k" instead of "2.0k")' % (fp.show(), width, iv[0], iv[1], iv[1]), dloc,
                                  key='%s|%s|%s|fraction-overflow' % (R10, tu.fn_file(rp.helper[1]) if rp.helper else file,
                                                                     fn_name(rp.helper[1]) if rp.helper else fname))
                else:
                    ctx.undecided(R10, dinst, 'the fraction `%s` may reach %d (interval not exact)' % (fp.show(), iv[1]), dloc)
        for u in und:
            allok = False
            ctx.undecided(R, fname, u, tu.fn_loc(f))
        if all(r.get('suffix') in SI_EXP and 'upper' in r for r in rungs) and not und:
            # order: upper rungs descend by 10^3 down to k; sub-unit rungs ascend by 10^3 up to m
            n += 1
            up = [SI_EXP[r['suffix']] for r in rungs if r.get('upper')]
            lo = [SI_EXP[r['suffix']] for r in rungs if r.get('upper') is False]
            probs = []
            if up:
                if up != list(range(up[0], 0, -3)) or up[-1] != 3:
                    probs.append("the rungs >= 1000 are tested in the order %s, expected a gap-free descent by 10^3 down to 'k'"
                                 % [r['suffix'] for r in rungs if r.get('upper')])
            if lo:
                if lo != list(range(lo[0], 0, 3)) or lo[-1] != -3:
                    probs.append("the sub-unit rungs are tested in the order %s, expected a gap-free ascent by 10^3 up to 'm'"
                                 % [r['suffix'] for r in rungs if r.get('upper') is False])
            inst = '%s: ladder order' % fname
            if probs:
                for pmsg in probs:
                    ctx.violation(R, inst, pmsg, tu.fn_loc(f), key='%s|%s|%s|ladder-order' % (R, file, fname))
            else:
                ctx.ok(R, inst, 'suffixes %s' % ''.join(r['suffix'] for r in rungs), tu.fn_loc(f))
    return n, n10


# ====================================================================================================
#  R-C18-13  the printed text fits: bound of a size-limited print vs. the longest text its format can produce
# ====================================================================================================
DBL_MAX = 1.7976931348623157e308
FLT_MAX = 3.4028234663852886e38
FMT_RE = re.compile(r'%(?P<flags>[-+ 0#]*)(?P<width>\d+)?(?:\.(?P<prec>\d+))?(?P<len>hh|h|ll|l|z|j|t|L)?(?P<conv>[a-zA-Z%])')


def _int_type_max(ct):
    """(largest magnitude, signed?) of an integer type name"""
    t = plain_ct(ct or '')
    t = {'size_t': 'unsigned long', 'std::size_t': 'unsigned long', 'uint64_t': 'unsigned long', 'int64_t': 'long',
         'uint32_t': 'unsigned int', 'int32_t': 'int', 'ssize_t': 'long', 'ptrdiff_t': 'long'}.get(t, t)
    uns = t.startswith('unsigned')
    bits = 64 if 'long' in t else 16 if 'short' in t else 8 if 'char' in t else 32
    return (2 ** bits - 1, False) if uns else (2 ** (bits - 1), True)


def value_bounds(tu, x, fr, e, pos):
    """(largest magnitude, may be negative?, exact?) of the numeric expression e evaluated at CFG position pos of the
    top-level pretty printer: the input (or |input|) times / over a constant, bounded by the comparisons of the input with
    constants on the branch edges every path to pos takes; otherwise the range of its type (exact = False)."""
    e0 = tu.strip(e, casts=True)
    ct = plain_ct(tu.sd(e0).get('ct') or '') if e0 is not None else ''
    ect = plain_ct(tu.sd(e).get('ct') or ct)
    r, rfr = fr.resolve(e)
    scale = 1.0
    num = r
    if r is not None and r.get('kind') == 'BinaryOperator' and r.get('opcode') in ('/', '*'):
        a, b2 = tu.kids(r)[:2]
        av, bv = rfr.const(a), rfr.const(b2)
        if r['opcode'] == '/' and bv:
            num, scale = a, 1.0 / abs(bv)
        elif r['opcode'] == '*' and bv:
            num, scale = a, abs(bv)
        elif r['opcode'] == '*' and av:
            num, scale = b2, abs(av)
    role = rfr.role(num) if num is not None else None
    if role is None and num is not None:
        role = input_role(tu, x, num) if rfr is fr else None
    # range of the type of the printed expression (after the cast, if it is narrower)
    def type_range(t):
        if t in ('double', 'long double'):
            return DBL_MAX, True
        if t == 'float':
            return FLT_MAX, True
        if is_int_ct(t):
            return float(_int_type_max(t)[0]), _int_type_max(t)[1]
        return None
    tr = type_range(ect) or type_range(ct)
    if role is None:
        if tr is None:
            return None
        return tr[0], tr[1], False
    par = x.vars.get(role[1])
    pct = plain_ct(par['ct']) if par else ''
    prange = type_range(pct)
    if prange is None:
        return None
    hi, neg = prange
    if role[0] == 'abs':
        neg = False
    exact = True
    top = fr.top()
    for cn, truth, blk in x.guards(pos):
        c = tu.strip(cn, casts=True)
        if c is None or c.get('kind') != 'BinaryOperator' or c.get('opcode') not in ('<', '<=', '>', '>='):
            exact = False
            continue
        l, r2 = tu.kids(c)[:2]
        op = c['opcode']
        lv, rv = top.const(l), top.const(r2)
        if lv is not None and rv is None:
            l, r2, rv = r2, l, lv
            op = {'<': '>', '<=': '>=', '>': '<', '>=': '<='}[op]
        elif rv is None:
            exact = False
            continue
        if not truth:
            op = {'<': '>=', '<=': '>', '>': '<=', '>=': '<'}[op]
        grole = top.role(l)
        if grole is None or grole[1] != role[1]:
            exact = False
            continue
        if op in ('<', '<=') and rv >= 0 and (grole[0] == 'abs' or not prange[1]):
            hi = min(hi, rv)
        elif op in ('>', '>=') and grole[0] == 'param' and prange[1] and rv >= 0:
            neg = False                      # value > c >= 0
    m = hi * scale
    if tr is not None and m > tr[0]:
        m = tr[0]
    return m, neg, exact


def format_room(tu, x, fr, call, pos):
    """(needed bytes incl. terminator, description of the longest text, exact?) for a printf-family call, or (None, why, _)"""
    args = tu.kids(call)[1:]
    fi = None
    for i, a in enumerate(args):
        a0 = tu.strip(a, casts=True)
        if a0 is not None and a0.get('kind') == 'StringLiteral':
            fi = i
            break
    if fi is None:
        return None, 'the format string is not a literal', False
    lit = tu.strip(args[fi], casts=True).get('value', '""')
    try:
        fmt = bytes(lit[1:-1], 'utf-8').decode('unicode_escape')
    except Exception:
        return None, 'cannot read the format string %s' % lit, False
    rest = list(args[fi + 1:])
    total = 0
    sample = ''
    exact = True
    i = 0
    while i < len(fmt):
        if fmt[i] != '%':
            total += 1
            sample += fmt[i]
            i += 1
            continue
        m = FMT_RE.match(fmt, i)
        if not m:
            return None, 'conversion at `%s` not understood' % fmt[i:i + 6], False
        i = m.end()
        conv = m.group('conv')
        if conv == '%':
            total += 1
            sample += '%'
            continue
        if not rest:
            return None, 'more conversions than arguments', False
        a = rest.pop(0)
        width = int(m.group('width') or 0)
        flags = m.group('flags') or ''
        if conv == 'c':
            ln, txt = 1, (fr.char(a) or '?')
        elif conv in 'fF':
            prec = int(m.group('prec')) if m.group('prec') is not None else 6
            vb = value_bounds(tu, x, fr, a, pos)
            if vb is None:
                return None, 'cannot bound the value `%s`' % tu.show(a), False
            mag, neg, ex = vb
            exact = exact and ex
            body = '%.*f' % (prec, mag)
            if '#' in flags and prec == 0:
                body += '.'
            sign = '-' if neg else ('+' if '+' in flags else ' ' if ' ' in flags else '')
            txt = sign + body
            ln = len(txt)
        elif conv in 'eEgGaA':
            prec = int(m.group('prec')) if m.group('prec') is not None else 6
            ln = prec + 9
            txt = '-' + 'd.' + 'd' * prec + 'e+ddd'
            exact = False
        elif conv in 'diu':
            vb = value_bounds(tu, x, fr, a, pos)
            if vb is None:
                return None, 'cannot bound the value `%s`' % tu.show(a), False
            mag, neg, ex = vb
            exact = exact and ex
            if conv == 'u':
                neg = False
            body = str(int(mag))
            sign = '-' if neg else ('+' if '+' in flags else ' ' if ' ' in flags else '')
            prec = int(m.group('prec')) if m.group('prec') is not None else 0
            txt = sign + body.rjust(prec, '0')
            ln = len(txt)
        elif conv == 's':
            a0 = tu.strip(a, casts=True)
            if a0 is not None and a0.get('kind') == 'StringLiteral':
                try:
                    txt = bytes(a0.get('value', '""')[1:-1], 'utf-8').decode('unicode_escape')
                except Exception:
                    return None, 'cannot read the string argument', False
                ln = len(txt)
            else:
                return None, 'the length of the string argument `%s` is not known' % tu.show(a), False
        else:
            return None, 'conversion %%%s not understood' % conv, False
        if width > ln:
            txt = txt.rjust(width)
            ln = width
        total += ln
        sample += txt if len(txt) <= 24 else (txt[:10] + '..' + txt[-8:])
    return total + 1, sample, exact


def check_print_room(ctx, tu, qnames):
    R = 'R-C18-13'
    ctx.describe(R, 'the printed text fits: the size limit of every snprintf in prettyDouble / prettyNumber (and the array it '
                    'writes) holds the longest text its format produces for the values that reach it - sign, integer digits of '
                    'the largest mantissa after rounding, decimals, suffix, terminator; a shorter limit silently cuts off the suffix')
    n = 0
    for q in qnames:
        for f in tu.fns(q=q):
            if f['dep'] or tu.cfg(f) is None:
                continue
            x = FnX(tu, f)
            fr0 = LFrame(tu, f)
            file, fname = tu.fn_file(f), fn_name(f)
            sites = []
            for b, i, nd in x.g.stmts():
                if nd.get('kind') != 'CallExpr':
                    continue
                if tu.sd(nd).get('q') in PRINTF_Q:
                    sites.append((nd, fr0, (b.id, i)))
                    continue
                hf = tu.callee_fn(nd)      # a file-local helper that does the printing: its arguments are the caller's
                if hf is not None and not hf['dep'] and tu.cfg(hf) is not None and hf['id'] != f['id'] and \
                        tu.fn_file(hf) == tu.fn_file(f):
                    for b2, i2, y in tu.cfg(hf).stmts():
                        if y.get('kind') == 'CallExpr' and tu.sd(y).get('q') in PRINTF_Q:
                            sites.append((y, LFrame(tu, hf, fr0, nd), (b.id, i)))
            for nd, fr, pos in sites:
                n += 1
                qn = last_name(tu.sd(nd).get('q'))
                args = tu.kids(nd)[1:]
                inst = '%s: `%s`' % (fname, tu.show(nd))
                loc = tu.loc(nd)
                key = '%s|%s|%s|' % (R, file, fname)
                if not args:
                    ctx.undecided(R, inst, 'print without arguments', loc)
                    continue
                # capacity of the destination
                cap = None
                dst = tu.strip(args[0], casts=True)
                dct = tu.sd(dst).get('ct') or '' if dst is not None else ''
                mcap = re.match(r'^(?:const )?(?:unsigned |signed )?char\s*\[(\d+)\]$', dct)
                if mcap:
                    cap = int(mcap.group(1))
                limit = None
                if qn in ('snprintf', 'sprintf_s') and len(args) >= 2:
                    lv = num_const(tu, args[1])
                    if lv is None:
                        r_, fr_ = fr.resolve(args[1])
                        lv = num_const(tu, r_) if r_ is not None else None
                    if lv is None:
                        ctx.undecided(R, inst, 'the size limit `%s` is not a constant' % tu.show(args[1]), loc)
                        continue
                    limit = int(lv)
                need, sample, exact = format_room(tu, x, fr, nd, pos)
                if need is None:
                    ctx.undecided(R, inst, sample, loc)
                    continue
                room = limit if limit is not None else cap
                if room is None:
                    ctx.undecided(R, inst, 'neither a size limit nor the size of the destination array is known', loc)
                    continue
                if limit is not None and cap is not None and limit > cap and need > cap:
                    ctx.violation(R, inst, 'the size limit %d exceeds the destination array of %d bytes, and the text can take %d '
                                  'bytes ("%s" and the terminator)' % (limit, cap, need, sample), loc, key=key + 'limit-exceeds-buffer')
                elif need <= room:
                    ctx.ok(R, inst, 'longest text "%s": %d bytes with the terminator, room for %d' % (sample, need, room), loc)
                elif exact:
                    ctx.violation(R, inst, 'the longest text this print produces is "%s" (%d characters and the terminator = %d bytes) '
                                  'but only %d bytes are allowed: %s' % (
                                      sample, need - 1, need, room,
                                      'snprintf cuts the text off after %d characters ("%s"), so the end of the text - the unit suffix - is '
                                      'lost and the number reads as a plain value (the count forgets %s)'
                                      % (room - 1, sample[:room - 1], 'the minus sign of a negative input' if sample.startswith('-') and
                                         need - 1 <= room else 'the digits of the largest mantissa') if limit is not None else
                                      'the text overruns the destination array'),
                                  loc, key=key + 'text-truncated')
                else:
                    ctx.undecided(R, inst, 'the text may need %d bytes ("%s") if the value is not bounded by anything the rule '
                                  'recognises; %d bytes are allowed' % (need, sample, room), loc)
    return n


# ====================================================================================================
#  loops
# ====================================================================================================
class CountLoop:
    """for (i = init; i < bound; ++i): index variable with exactly one definition outside and one increment inside"""

    def __init__(self, x, header):
        self.x = x
        self.header = header
        self.ok = False
        self.why = ''
        g = x.g
        hb = g.blocks[header]
        self.body = self._body_blocks()
        tu = x.tu
        cn = deciding_cond(tu, hb, g)
        self.cond = cn
        nf = x.cond_at(cn, True, x.pos_of(cn))
        self.ne_form = nf[0] == 'rel' and nf[1].op == '!='
        if nf[0] != 'rel' or nf[1].op not in ('>=', '!='):
            self.why = 'loop condition `%s` is not an ordering comparison' % tu.show(cn)
            return
        self.rel = nf[1]
        cand = []
        for a in self.rel.p.atoms(deep=False):
            if isinstance(a, tuple) and a[0] == 'var' and a[1] in x.vars:
                v = x.vars[a[1]]
                incs = [d for d in v['defs'] if d[0] in ('inc', 'compound', 'assign') and d[2] and d[2][0] in self.body]
                outs = [d for d in v['defs'] if not (d[2] and d[2][0] in self.body)]
                if incs:
                    cand.append((a, v, incs, outs))
        if len(cand) != 1:
            self.why = 'cannot identify the index variable of the loop `%s`' % tu.show(cn)
            return
        a, v, incs, outs = cand[0]
        self.ivar = a
        self.iname = v['name']
        if v['escaped'] or v['param'] or len(incs) != 1 or len(outs) != 1 or outs[0][0] != 'init' or outs[0][1] is None:
            self.why = 'index variable `%s` is not defined exactly once before the loop and once inside' % v['name']
            return
        kind, node, pos = incs[0]
        self.inc_pos = pos
        step = None
        if kind == 'inc':
            step = 1 if node.get('opcode') == '++' else -1
        elif kind == 'compound' and node.get('opcode') in ('+=', '-='):
            c = x.poly_at(tu.kids(node)[1], pos).as_int()
            if c is not None:
                step = c if node['opcode'] == '+=' else -c
        elif kind == 'assign':
            c = (x.poly_at(node, pos) - Poly.atom(a)).as_int()
            step = c
        self.step = step
        # the increment runs once per iteration: it is in the latch (every path from the body back to the header)
        self.init = x.poly_at(outs[0][1], outs[0][2])
        lin = self.rel.p.linear_in(a)
        if lin is None or lin[0] not in (1, -1):
            self.why = 'loop condition `%s` is not linear in the index' % tu.show(cn)
            return
        coef, rest = lin
        if self.ne_form:
            # i != B, walked upwards by 1 from init: the same iterations as i < B provided init <= B is known on entry
            bound = -rest if coef == 1 else rest
            okb = False
            if self.step == 1:
                dist = bound - self.init
                if dist.as_int() is not None and dist.as_int() >= 0:
                    okb = True
                for gc, truth, blk in x.guards((header, 0)):
                    if blk.id in self.body or blk.id == header:
                        continue
                    gnf = x.cond_at(gc, truth, x.pos_of(gc))
                    for lf in (rels_of(gnf) or []):
                        if lf is not None and lf[0] == 'rel' and lf[1].op == '>=':
                            ab = about(lf[1].p, dist)
                            if ab is not None and ab[0] > 0 and Fraction(-ab[1]) / ab[0] >= 0:
                                okb = True
            if not okb:
                self.why = 'loop condition `%s`: cannot see that the index starts at or below the bound it is compared with' % tu.show(cn)
                return
            self.bound_excl = bound
            self.ascending_test = True
            self.ok = True
            return
        # coef*i + rest >= 0
        if coef == -1:
            self.bound_excl = rest + 1          # i <= rest
            self.ascending_test = True
        else:
            self.bound_excl = None
            self.ascending_test = False
            self.lower_incl = -rest             # i >= -rest
        self.ok = True

    def _body_blocks(self):
        g = self.x.g
        hb = g.blocks[self.header]
        start = hb.succ[0]
        if start is None:
            return set()
        # blocks reachable from the true successor without passing the header ...
        fw = {start}
        st = [start]
        while st:
            b = st.pop()
            for s in g.blocks[b].succ:
                if s is not None and s != self.header and s not in fw:
                    fw.add(s)
                    st.append(s)
        # ... from which the header can be reached again
        pr = g.preds()
        bw = set()
        st = [p for p in pr[self.header] if p in fw]
        bw.update(st)
        while st:
            b = st.pop()
            for p in pr[b]:
                if p in fw and p not in bw and p != self.header:
                    bw.add(p)
                    st.append(p)
        return bw

    def running(self, use_pos):
        """{atom: Poly in terms of the loop index} for further running indices of the loop: locals that are set once before
        the loop and stepped by a constant exactly once per iteration, behind the position that uses them
        (dst = where; ...; dst++  together with  src++  gives  dst == where + (src - src0))"""
        x = self.x
        tu = x.tu
        g = x.g
        out = {}
        if not self.ok or self.step in (None, 0):
            return out

        def after_use(pos):
            # the step is executed once per iteration and the use cannot be reached from it without passing the header
            if not self.once_per_iteration(pos):
                return False
            if pos[0] == use_pos[0]:
                return pos[1] > use_pos[1]
            return use_pos[0] not in _reach_blocks(g, pos[0], stop=self.header) or use_pos[0] == self.header
        if not after_use(self.inc_pos):
            return out
        for d, v in x.vars.items():
            a = ('var', d, v['name'])
            if a == self.ivar or v['param'] or v['escaped'] or not is_int_ct(v['ct']):
                continue
            ins = [df for df in v['defs'] if df[2] and (df[2][0] in self.body or df[2][0] == self.header)]
            outs = [df for df in v['defs'] if not (df[2] and (df[2][0] in self.body or df[2][0] == self.header))]
            if len(ins) != 1 or len(outs) != 1 or outs[0][0] != 'init' or outs[0][1] is None:
                continue
            kind, node, pos = ins[0]
            st = None
            if kind == 'inc':
                st = 1 if node.get('opcode') == '++' else -1
            elif kind == 'compound' and node.get('opcode') in ('+=', '-='):
                c = x.poly_at(tu.kids(node)[1], pos).as_int()
                if c is not None:
                    st = c if node['opcode'] == '+=' else -c
            if st is None or not after_use(pos):
                continue
            init = x.poly_at(outs[0][1], outs[0][2])
            if a in init.atoms(deep=True) or self.ivar in init.atoms(deep=True):
                continue
            # the initial value must still hold when the loop is entered: no other definition (checked above)
            k = (Poly.atom(self.ivar) - self.init) * Fraction(1, self.step)
            out[a] = init + k * st
        return out

    def once_per_iteration(self, pos):
        """the element at pos is executed on every path from the loop entry back to the header"""
        g = self.x.g
        start = g.blocks[self.header].succ[0]
        seen = {start}
        st = [start]
        while st:
            b = st.pop()
            if b == pos[0]:
                continue
            for s in g.blocks[b].succ:
                if s is None:
                    continue
                if s == self.header:
                    return False
                if s in self.body and s not in seen:
                    seen.add(s)
                    st.append(s)
        return True


class IterLoop:
    """for (it = c.begin() [+ steps]; it != c.end(); ++it): an iterator walked forward over a whole container.
    Duck-types the parts of CountLoop that the per-token check needs; token indices are counted in increments of `it`."""

    def __init__(self, x, header):
        self.x = x
        self.header = header
        self.ok = False
        self.why = ''
        tu, g = x.tu, x.g
        self.body = CountLoop._body_blocks(self)
        hb = g.blocks[header]
        c = tu.strip(deciding_cond(tu, hb, g), casts=True)
        self.cond = c
        self.step = 1
        self.ascending_test = True
        if c is None or c.get('kind') != 'CXXOperatorCallExpr' or last_name(tu.sd(c).get('q')) != 'operator!=':
            self.why = 'loop condition `%s` is neither an ordering comparison nor `it != container.end()`' % (tu.show(c) if c else '?')
            return
        ks = tu.kids(c)[1:]
        itv = [x.var_of(y)[0] for y in ks if x.var_of(y)[0] is not None]
        ends = []
        for y in ks:
            e = x.peel(y)
            if e is not None and e.get('kind') == 'CXXMemberCallExpr' and last_name(tu.sd(e).get('q')) in ('end', 'cend'):
                ends.append(x.objkey(tu.call_parts(e)[1]))
        if len(itv) != 1 or len(ends) != 1:
            self.why = 'loop condition `%s` does not compare an iterator with end()' % tu.show(c)
            return
        self.it = itv[0]
        self.container = ends[0]
        v = x.vars[self.it]
        init = v.get('init')
        e = x.peel(init) if init is not None else None
        if e is None or e.get('kind') != 'CXXMemberCallExpr' or last_name(tu.sd(e).get('q')) not in ('begin', 'cbegin') or \
                x.objkey(tu.call_parts(e)[1]) != self.container:
            self.why = 'the iterator `%s` does not start at begin() of the container it is compared with' % v['name']
            return
        self.init_pos = v['defs'][0][2] if v['defs'] else x.pos_of(init)
        # every modification of the iterator: ++it / it++ only
        self.incs = []
        body = tu.body(x.f)
        for n in tu.walk(body):
            if n.get('kind') == 'DeclRefExpr' and n.get('referencedDecl', {}).get('id') == self.it:
                p = tu.par(n)
                while p is not None and p.get('kind') in ('ParenExpr',):
                    p = tu.par(p)
                pk = p.get('kind') if p else None
                if pk == 'ImplicitCastExpr' and p.get('castKind') in ('LValueToRValue', 'NoOp'):
                    continue
                if pk == 'CXXOperatorCallExpr' and last_name(tu.sd(p).get('q')) == 'operator++':
                    self.incs.append((p, x.pos_of(p)))
                    continue
                if pk == 'CXXOperatorCallExpr' and last_name(tu.sd(p).get('q')) in ('operator*', 'operator->', 'operator!=', 'operator=='):
                    continue
                if pk == 'VarDecl':
                    continue
                self.why = 'the iterator `%s` is used in `%s`' % (v['name'], tu.show(p) if p else '?')
                return
        inside = [i for i in self.incs if i[1] and i[1][0] in self.body]
        if len(inside) != 1 or not self.once_per_iteration(inside[0][1]):
            self.why = 'the iterator is not advanced exactly once per iteration'
            return
        self.inc_pos = inside[0][1]
        hpos = (header, 0)
        pre = [i for i in self.incs if i not in inside]
        if any(not g.dominates(i[1], hpos) for i in pre):
            self.why = 'the iterator is advanced before the loop on some paths only'
            return
        self.first_index = len(pre)
        self.pre = pre
        self.ok = True

    once_per_iteration = CountLoop.once_per_iteration

    def index_at(self, pos):
        """number of increments executed before position pos (outside the loop): the token index `*it` designates there;
        None if some increment is executed before pos on some paths only"""
        g = self.x.g
        k = 0
        for n, p in self.pre:
            if p == pos:
                return None
            if g.dominates(p, pos):
                k += 1
            elif not g.dominates(pos, p):
                return None
        return k


def loops_of(x):
    g = x.g
    heads = []
    for a, b in g.back_edges():
        if b not in heads:
            heads.append(b)
    out = []
    for h in heads:
        hb = g.blocks[h]
        if hb.cond is not None and len(hb.succ) == 2 and hb.succ[0] is not None:
            out.append(h)
    return out


def calls_in(x, names, rec_prefix=None):
    tu = x.tu
    for b, i, n in x.g.stmts():
        if n.get('kind') in ('CXXMemberCallExpr', 'CallExpr', 'CXXOperatorCallExpr'):
            q = tu.sd(n).get('q') or ''
            if last_name(q) in names and (rec_prefix is None or q.startswith(rec_prefix)):
                yield n, (b.id, i)


# ====================================================================================================
#  R-C18-5  argument removal
# ====================================================================================================
def bypass_only_when_zero(tu, x, dpos, HM):
    """every path from the entry to the exit that does not execute the element at dpos takes a branch edge on which
    HM == 0 holds (nothing to remove on it)"""
    g = x.g
    zero = Rel.make(HM, '==', 0)
    seen = {g.entry}
    st = [g.entry]
    while st:
        b = st.pop()
        if b == dpos[0]:
            continue
        blk = g.blocks[b]
        for si, s_ in enumerate(blk.succ):
            if s_ is None:
                continue
            if blk.cond is not None and len(blk.succ) == 2:
                c = deciding_cond(tu, blk, g)
                nf = x.cond_at(c, si == 0, x.pos_of(c)) if c is not None else None
                if nf is not None and any(lf is not None and lf[0] == 'rel' and lf[1] == zero for lf in (rels_of(nf) or [])):
                    continue        # nothing is removed on this edge
            if s_ == g.exit:
                return False
            if s_ not in seen:
                seen.add(s_)
                st.append(s_)
    return True


def skips_positive_count(tu, x, dpos, HM):
    """message if some branch edge that leads to the exit without the count update is taken for a positive count
    (`if (howMany <= 1) return;`), else None"""
    g = x.g
    for blk in g.blocks.values():
        if blk.cond is None or len(blk.succ) != 2 or blk.id == dpos[0]:
            continue
        c = deciding_cond(tu, blk, g)
        for si, s_ in enumerate(blk.succ):
            if s_ is None or c is None:
                continue
            # does this edge lead to the exit without the update?
            seen, st = {s_}, [s_]
            reach_exit = s_ == g.exit
            while st and not reach_exit:
                b = st.pop()
                if b == dpos[0]:
                    continue
                for t in g.blocks[b].succ:
                    if t == g.exit:
                        reach_exit = True
                    elif t is not None and t not in seen:
                        seen.add(t)
                        st.append(t)
            if not reach_exit or dpos[0] in seen and False:
                continue
            if dpos[0] in _reach_blocks(g, s_):
                continue        # the update can still follow on this edge
            nf = x.cond_at(c, si == 0, x.pos_of(c))
            for lf in (rels_of(nf) or []):
                if lf is None or lf[0] != 'rel':
                    continue
                ab = about(lf[1].p, HM)
                if ab is None:
                    continue
                k, cc = ab
                admits = None
                if lf[1].op == '>=':
                    admits = True if k > 0 else math.floor(Fraction(cc) / -k) >= 1
                elif lf[1].op == '!=':
                    admits = True
                elif lf[1].op == '==':
                    v = Fraction(-cc) / k
                    admits = v >= 1
                if admits:
                    return ('`%s` leaves the function without moving the arguments and without updating the count although `%s` can be '
                            'positive there' % (tu.show(c), HM.show()))
    return None


def check_remove_args(ctx, tu):
    R = 'R-C18-5'
    n = 0
    for f in tu.fns(q='rkcommon::removeArgs'):
        if f['dep'] or tu.cfg(f) is None:
            continue
        n += 1
        x = FnX(tu, f)
        g = x.g
        file, fname = tu.fn_file(f), fn_name(f)
        inst = '%s %s' % (fname, f['fty'])
        key = '%s|%s|%s|' % (R, file, fname)
        ps = f['params']
        if len(ps) != 4:
            ctx.undecided(R, inst, 'signature is not (ac, av, where, howMany)', tu.fn_loc(f))
            continue
        AC, AV, WH, HM = [Poly.atom(('var', p['id'], p['name'])) for p in ps]
        und, bad = [], []
        for p in ps[2:]:
            v = x.vars[p['id']]
            if v['defs'] or v['escaped']:
                und.append('parameter `%s` is modified' % p['name'])
        hs = loops_of(x)
        if not hs:
            ctx.undecided(R, inst, 'expected a shift loop, found none', tu.fn_loc(f))
            continue
        # how the vector parameter itself is moved: `av += howMany` (the front of the vector is given up)
        avdefs = x.vars[ps[1]['id']]['defs']
        advances = []
        for kind, node, dpos in avdefs:
            delta = None
            if kind == 'compound' and node.get('opcode') in ('+=', '-=') and dpos is not None:
                v = x.poly_at(tu.kids(node)[1], dpos)
                delta = v if node['opcode'] == '+=' else -v
            elif kind == 'inc' and dpos is not None:
                delta = Poly.const(1 if node.get('opcode') == '++' else -1)
            advances.append((delta, node, dpos))
        loops = []
        loc = tu.fn_loc(f)
        for h in hs:
            lp = CountLoop(x, h)
            if not lp.ok:
                und.append(lp.why)
                continue
            copies = []
            for b, i, nd in g.stmts():
                if nd.get('kind') == 'BinaryOperator' and nd.get('opcode') == '=' and b.id in lp.body:
                    l, r = (tu.strip(y, casts=True) for y in tu.kids(nd)[:2])
                    if l.get('kind') == 'ArraySubscriptExpr' and r.get('kind') == 'ArraySubscriptExpr':
                        copies.append((nd, l, r, (b.id, i)))
            if len(copies) != 1:
                und.append('expected one `av[..] = av[..]` in the loop `%s`, found %d' % (tu.show(lp.cond), len(copies)))
                continue
            loops.append((lp, copies[0]))
        if und and not loops:
            for u in und:
                ctx.undecided(R, inst, u, tu.fn_loc(f))
            continue
        # several loops: alternatives, each on its own branch (no path runs two of them)
        if len(loops) > 1:
            for lp, cp in loops:
                reach = _reach_blocks(g, lp.header)
                for lp2, cp2 in loops:
                    if lp2 is not lp and lp2.header in reach:
                        und.append('the shift loops `%s` and `%s` can both run on one path' % (tu.show(lp.cond), tu.show(lp2.cond)))
            hdrs = {lp.header for lp, cp in loops}
            seen = {g.entry}
            st = [g.entry]
            while st:
                b = st.pop()
                for s_ in g.blocks[b].succ:
                    if s_ is not None and s_ not in seen and s_ not in hdrs:
                        seen.add(s_)
                        st.append(s_)
            if g.exit in seen and g.entry not in hdrs:
                und.append('some path through the function runs none of the %d shift loops' % len(loops))
        used_adv = set()
        descr = []
        badloc = {}
        for lp, (nd, l, r, pos) in loops:
            for k_, m_ in bad:
                badloc.setdefault(m_, loc)
            loc = tu.loc(nd)
            lb, li = tu.kids(l)[:2]
            rb, ri = tu.kids(r)[:2]
            if x.var_of(lb)[0] != ps[1]['id'] or x.var_of(rb)[0] != ps[1]['id']:
                und.append('the copy is not within the argument vector parameter')
            d = x.poly_at(li, pos)
            s_ = x.poly_at(ri, pos)
            run_ = lp.running(pos)
            if run_:
                d, s_ = d.subst(run_), s_.subst(run_)
            if not lp.once_per_iteration(pos) or not lp.once_per_iteration(lp.inc_pos):
                und.append('the copy or the increment is not executed exactly once per iteration')
            if lp.step not in (1, -1) or (lp.step == 1) != bool(lp.ascending_test):
                und.append('the loop `%s` does not walk its index range by +1 / -1 towards its bound' % tu.show(lp.cond))
                continue
            up = lp.step == 1
            dist = s_ - d
            # `av` moved on the path of this loop?  (behind the loop, once)
            mine = []
            for delta, anode, dpos in advances:
                if dpos is None:
                    continue
                if dpos[0] in lp.body or dpos[0] == lp.header:
                    und.append('`%s` is moved inside the shift loop' % ps[1]['name'])
                elif dpos[0] in _reach_blocks(g, lp.header):
                    mine.append((delta, anode, dpos))
                elif lp.header in _reach_blocks(g, dpos[0]):
                    und.append('`%s` is moved in front of the shift loop `%s`' % (ps[1]['name'], tu.show(lp.cond)))
            for m in mine:
                used_adv.add(id(m[1]))
            adv = None
            if len(mine) == 1 and mine[0][0] is not None and g.dominates((lp.header, 0), mine[0][2]):
                # on the exit edge of the loop, every time
                adv = mine[0][0]
            elif mine:
                und.append('cannot tell how far `%s` is moved behind the loop `%s`' % (ps[1]['name'], tu.show(lp.cond)))
                continue
            off = s_ - Poly.atom(lp.ivar)
            if lp.ivar in off.atoms(deep=True):
                und.append('source index `%s` is not index + constant' % s_.show())
                continue
            if up:
                first, last = lp.init + off, lp.bound_excl + off            # sources [first, last), walked upwards
            else:
                first, last = lp.lower_incl + off, lp.init + off + 1        # sources [first, last), walked downwards
            if dist == -HM and (adv is not None or first == Poly.const(0) or last == WH):
                # ---- the entries in front of the removed range are slid up, the vector then starts howMany later
                if up:
                    bad.append(('direction', '`%s` slides av[%s, %s) up by `%s` walking upwards: source and destination overlap as soon as '
                                'more than %s entries are moved (where > howMany), so an entry is overwritten before it is read and the '
                                'leading arguments become copies of av[0, %s) ("prog a1 a2 .." -> "prog prog ..."); a move towards higher '
                                'indices has to walk downwards' % (tu.show(nd), first.show(), last.show(), HM.show(), HM.show(), HM.show())))
                if first != Poly.const(0):
                    bad.append(('range-start', 'the first argument slid up is av[%s], expected av[0]' % first.show()))
                if last != WH:
                    bad.append(('range-end', 'arguments are slid up to av[%s), expected up to av[%s)' % (last.show(), WH.show())))
                if adv is None:
                    bad.append(('vector-start', 'av[0, %s) is slid up by `%s` but `%s` is not advanced by `%s` behind the loop: the caller '
                                'still sees the stale entries av[0, %s) in front' % (WH.show(), HM.show(), ps[1]['name'], HM.show(), HM.show())))
                elif adv != HM:
                    bad.append(('vector-start', '`%s` is advanced by `%s`, expected `%s`' % (ps[1]['name'], adv.show(), HM.show())))
                descr.append('av[%s] = av[%s] for %s from %s down to %s; av += howMany' % (d.show(), s_.show(), lp.iname, lp.init.show(),
                                                                                         (lp.lower_incl.show() if not up else '?')))
                continue
            # ---- the entries behind the removed range are shifted down
            if adv is not None:
                bad.append(('vector-start', '`%s` is advanced by `%s` although the loop `%s` shifts the tail down' %
                            (ps[1]['name'], adv.show(), tu.show(lp.cond))))
            if not up:
                bad.append(('direction', 'the shift loop must walk upwards by 1 (step %s, test `%s`): copying downwards '
                            'overwrites sources before they are read' % (lp.step, tu.show(lp.cond))))
                continue
            if dist != HM:
                locals_ = [a for a in dist.atoms(deep=True) if isinstance(a, tuple) and a[0] == 'var' and a[1] not in x.params]
                if locals_:
                    und.append('cannot express the distance `%s` between source and destination index by the parameters' % dist.show())
                else:
                    bad.append(('shift-distance', '`%s`: source index minus destination index is `%s`, expected `%s`'
                                % (tu.show(nd), dist.show(), HM.show())))
            if first != WH + HM:
                bad.append(('range-start', 'the first argument moved is av[%s], expected av[%s]' % (first.show(), (WH + HM).show())))
            if last != AC:
                bad.append(('range-end', 'arguments are moved up to av[%s) , expected up to av[%s): %s'
                            % (last.show(), AC.show(), 'the last arguments are not moved' if (AC - last).as_int() and (AC - last).as_int() > 0
                               else 'the loop reads behind the end of the vector')))
            descr.append('av[%s] = av[%s] for %s in [%s, %s)' % (d.show(), s_.show(), lp.iname, lp.init.show(), lp.bound_excl.show()))
        for k_, m_ in bad:
            badloc.setdefault(m_, loc)
        for delta, anode, dpos in advances:
            if id(anode) not in used_adv:
                und.append('`%s` is modified (`%s`) on a path the rule cannot relate to a shift loop' % (ps[1]['name'], tu.show(anode)))
        # count update after the loop(s)
        acv = x.vars[ps[0]['id']]
        defs = acv['defs']
        if len(defs) != 1:
            bad.append(('count-update', 'the argument count is updated %d times, expected exactly once (`ac -= howMany`)' % len(defs)))
        else:
            kind, node, dpos = defs[0]
            delta = None
            if kind == 'compound' and node.get('opcode') in ('-=', '+='):
                v = x.poly_at(tu.kids(node)[1], dpos)
                delta = -v if node['opcode'] == '-=' else v
            elif kind == 'assign':
                delta = x.poly_at(node, dpos) - AC
            elif kind == 'inc':
                delta = Poly.const(1 if node.get('opcode') == '++' else -1)
            if any(dpos[0] in lp.body or dpos[0] == lp.header for lp, cp in loops):
                bad.append(('count-update', 'the argument count is changed inside the shift loop'))
            elif any(lp.header in _reach_blocks(g, dpos[0]) for lp, cp in loops) and len(loops) > 1:
                und.append('the argument count is changed in front of a shift loop that reads it')
            elif not x.g.postdominates(dpos, (x.g.entry, 0)) and skips_positive_count(tu, x, dpos, HM):
                bad.append(('count-update', skips_positive_count(tu, x, dpos, HM)))
            elif not x.g.postdominates(dpos, (x.g.entry, 0)) and not bypass_only_when_zero(tu, x, dpos, HM):
                und.append('the argument count is not updated on every path, and the paths that skip the update are not '
                           'limited to `%s == 0`' % HM.show())
            elif delta is None or delta != -HM:
                bad.append(('count-update', 'the argument count changes by `%s`, expected `%s`'
                            % (delta.show() if delta is not None else '?', (-HM).show())))
        if bad:
            seenk = set()
            for k, m in bad:
                if (k, m) not in seenk:
                    seenk.add((k, m))
                    ctx.violation(R, inst, m, badloc.get(m, loc), key=key + k)
        elif und:
            for u in und:
                ctx.undecided(R, inst, u, loc)
        else:
            ctx.ok(R, inst, '%s; ac -= howMany' % ' | '.join(descr), loc)
    return n


def copies_made(tu):
    for f in tu.fns(q='rkcommon::utility::ArgumentList::ArgumentList'):
        if f['dep'] or tu.body(f) is None or f.get('implicit'):
            continue
        for y in tu.walk(tu.body(f)):
            if y.get('kind') == 'CXXNewExpr' or (y.get('kind') == 'CallExpr' and
                                                 tu.sd(y).get('q') in ('strdup', 'strndup', 'malloc', 'strcpy', 'memcpy', 'std::strcpy', 'std::memcpy')):
                return True
    return False


def arglist_owns(ctx, tu, R, n0):
    """the member that keeps the arguments must own copies of the text (std::string elements); pointers into the caller's
    argv are the recognised-wrong form"""
    n = 0
    for r in tu.records.values():
        if r.get('q') != 'rkcommon::utility::ArgumentList':
            continue
        for fl in r.get('fields', []):
            ct = fl.get('ct') or ''
            if 'vector' not in ct and 'deque' not in ct and 'list' not in ct:
                continue
            n += 1
            inst = 'ArgumentList::%s (%s)' % (fl['name'], ct)
            loc = 'rkcommon/utility/ArgumentList.h'
            if 'basic_string<' in ct and 'basic_string_view' not in ct:
                ctx.ok(R, inst, 'the list owns a copy of every argument', loc)
            elif (re.search(r'<\s*(const )?char \*', ct) or 'basic_string_view' in ct) and copies_made(tu):
                ctx.undecided(R, inst, 'the elements are pointers, but the constructor allocates / copies text: ownership not decided', loc)
            elif re.search(r'<\s*(const )?char \*', ct) or 'basic_string_view' in ct:
                ctx.violation(R, inst, 'the list keeps pointers into the caller\'s argument vector instead of copies of the text: when the '
                              'caller re-uses or frees those buffers the remaining arguments change or dangle, so the list no longer '
                              'holds exactly the unconsumed arguments', loc,
                              key='%s|rkcommon/utility/ArgumentList.h|ArgumentList|stores-argv-pointers' % R)
            else:
                ctx.undecided(R, inst, 'cannot tell whether the elements own their text', loc)
        break
    return n


def check_arglist(ctx, tu):
    R = 'R-C18-5'
    n = arglist_owns(ctx, tu, R, 0)
    for f in tu.fns(q='rkcommon::utility::ArgumentList::remove'):
        if f['dep'] or tu.cfg(f) is None:
            continue
        n += 1
        x = FnX(tu, f)
        file, fname = tu.fn_file(f), fn_name(f)
        inst = '%s %s' % (fname, f['fty'])
        key = '%s|%s|%s|' % (R, file, fname)
        ps = f['params']
        if len(ps) != 2:
            ctx.undecided(R, inst, 'signature is not (where, howMany)', tu.fn_loc(f))
            continue
        WH, HM = [Poly.atom(('var', p['id'], p['name'])) for p in ps]
        und, bad = [], []
        for p in ps:
            if x.vars[p['id']]['defs']:
                und.append('parameter `%s` is modified' % p['name'])
        erases = list(calls_in(x, ('erase',), 'std::vector<'))
        if len(erases) != 1:
            ctx.undecided(R, inst, 'expected one erase call, found %d' % len(erases), tu.fn_loc(f))
            continue
        call, pos = erases[0]
        loc = tu.loc(call)
        s, obj, args = tu.call_parts(call)
        okey = x.objkey(obj)
        if okey[0] != 'field':
            und.append('erase is not applied to the argument vector member')
        BEGIN = Poly.atom(('begin', okey))
        first = x.poly_at(args[0], pos)
        per = Poly.const(1)
        if len(args) >= 2:
            per = x.poly_at(args[1], pos) - first
        hs = loops_of(x)
        times = Poly.const(1)
        ivar = None
        if len(hs) == 1:
            lp = CountLoop(x, hs[0])
            if not lp.ok:
                ctx.undecided(R, inst, lp.why, tu.fn_loc(f))
                continue
            if pos[0] not in lp.body or not lp.once_per_iteration(pos) or not lp.once_per_iteration(lp.inc_pos):
                und.append('erase is not executed exactly once per iteration')
            if lp.step != 1 or not lp.ascending_test:
                und.append('loop does not count upwards by 1')
            else:
                times = lp.bound_excl - lp.init
            ivar = lp.ivar
        elif len(hs) > 1:
            ctx.undecided(R, inst, 'more than one loop', tu.fn_loc(f))
            continue
        total = times * per
        if ivar is not None and (ivar in first.atoms(deep=True) or ivar in per.atoms(deep=True)):
            if first - BEGIN - WH == Poly.atom(ivar) and per == Poly.const(1):
                bad.append(('erase-position', 'erase position `%s` moves with the loop index although erasing already shifts the '
                            'remaining arguments down: every second argument is skipped' % first.show()))
            else:
                und.append('erase position depends on the loop index')
        elif first != BEGIN + WH:
            off = (first - BEGIN - WH).as_int()
            if off is not None:
                bad.append(('erase-position', 'arguments are erased at `%s`, expected `%s`' % (first.show(), (BEGIN + WH).show())))
            else:
                und.append('erase position `%s` is not begin() + where' % first.show())
        if total != HM and not und:
            bad.append(('erase-count', '%s erase(s) of `%s` element(s) remove `%s` arguments, expected `%s`'
                        % (times.show(), per.show(), total.show(), HM.show())))
        if bad:
            for k, m in bad:
                ctx.violation(R, inst, m, loc, key=key + k)
        elif und:
            for u in und:
                ctx.undecided(R, inst, u, loc)
        else:
            ctx.ok(R, inst, '%s x erase of %s at begin()+where' % (times.show(), per.show()), loc)

    for f in tu.fns(q='rkcommon::utility::ArgumentList::ArgumentList'):
        if f['dep'] or tu.cfg(f) is None or f.get('implicit') or len(f.get('params', [])) != 2:
            continue
        n += 1
        x = FnX(tu, f)
        file, fname = tu.fn_file(f), fn_name(f)
        inst = '%s %s' % (fname, f['fty'])
        key = '%s|%s|%s|' % (R, file, fname)
        ps = f['params']
        AC = Poly.atom(('var', ps[0]['id'], ps[0]['name']))
        hs = loops_of(x)
        pushes = list(calls_in(x, ('push_back', 'emplace_back'), 'std::vector<'))
        assigns = list(calls_in(x, ('assign', 'insert'), 'std::vector<'))
        if not hs and not pushes and len(assigns) == 1 and last_name(tu.sd(assigns[0][0]).get('q')) == 'assign':
            # arg.assign(av + 1, av + ac): the same elements in the same order as the push_back loop
            call, pos = assigns[0]
            loc = tu.loc(call)
            s_, obj, args = tu.call_parts(call)
            AV = Poly.atom(('var', ps[1]['id'], ps[1]['name']))
            und, bad = [], []
            if x.objkey(obj)[0] != 'field' or len(args) != 2:
                und.append('assign is not a range assignment to the argument vector member')
            else:
                first, last = x.poly_at(args[0], pos) - AV, x.poly_at(args[1], pos) - AV
                if first.as_int() is None or (last - AC).as_int() is None:
                    und.append('range `%s` is not [av + constant, av + ac + constant)' % tu.show(call))
                else:
                    if first.as_int() != 1:
                        bad.append(('range-start', 'the first stored argument is av[%d], expected av[1] (av[0] is the program name)' % first.as_int()))
                    if (last - AC).as_int() != 0:
                        bad.append(('range-end', 'arguments are stored up to av[%s), expected up to av[%s)' % (last.show(), AC.show())))
                    # guards: nothing stronger than "the range is not empty"
                    for cn, truth, blk in x.guards(pos):
                        nf = x.cond_at(cn, truth, x.pos_of(cn))
                        for lf in (rels_of(nf) or [None]):
                            ab = about(lf[1].p, last - first) if lf is not None and lf[0] == 'rel' else None
                            if ab is None or lf[1].op != '>=' or ab[0] <= 0 or math.ceil(Fraction(-ab[1]) / ab[0]) > 1:
                                if ab is not None and lf[1].op == '>=' and ab[0] > 0:
                                    bad.append(('range-guard', '`%s` stores the arguments only if there are at least %d of them'
                                                % (tu.show(cn), math.ceil(Fraction(-ab[1]) / ab[0]))))
                                else:
                                    und.append('cannot classify the condition `%s`' % tu.show(cn))
            if bad:
                for k, m in bad:
                    ctx.violation(R, inst, m, loc, key=key + k)
            elif und:
                for u in und:
                    ctx.undecided(R, inst, u, loc)
            else:
                ctx.ok(R, inst, 'assign(av + 1, av + ac): stores av[1] .. av[ac-1] in order', loc)
            continue
        if len(hs) != 1 or len(pushes) != 1:
            ctx.undecided(R, inst, 'expected one loop with one push_back, found %d / %d' % (len(hs), len(pushes)), tu.fn_loc(f))
            continue
        lp = CountLoop(x, hs[0])
        if not lp.ok:
            ctx.undecided(R, inst, lp.why, tu.fn_loc(f))
            continue
        call, pos = pushes[0]
        loc = tu.loc(call)
        und, bad = [], []
        s_, obj, args = tu.call_parts(call)
        if x.objkey(obj)[0] != 'field' or pos[0] not in lp.body or not lp.once_per_iteration(lp.inc_pos):
            und.append('push_back is not executed once per iteration on the argument vector member')
        elif not lp.once_per_iteration(pos):
            # some iterations store nothing: which arguments are filtered out?
            for cn, truth, blk in x.guards(pos):
                if blk.id not in lp.body:
                    continue
                c = tu.strip(cn, casts=True)
                on_av = [y for y in tu.walk(c) if y.get('kind') == 'ArraySubscriptExpr' and
                         x.var_of(tu.kids(y)[0])[0] == ps[1]['id']] if c is not None else []
                reads_text = False
                for y in on_av:
                    par = tu.par(y)
                    while par is not None and par.get('kind') in ('ImplicitCastExpr', 'ParenExpr'):
                        par = tu.par(par)
                    if par is not None and (par.get('kind') == 'ArraySubscriptExpr' or
                                            (par.get('kind') == 'UnaryOperator' and par.get('opcode') == '*') or
                                            par.get('kind') in ('CallExpr', 'CXXConstructExpr', 'CXXTemporaryObjectExpr',
                                                                'CXXMemberCallExpr', 'CXXOperatorCallExpr')):
                        reads_text = True
                if reads_text:
                    bad.append(('drops-arguments', '`%s` decides by the text of av[i] whether the argument is stored: arguments for which '
                                'it fails (e.g. an empty argument "") are dropped, the list no longer holds every argument and the '
                                'positions of the following ones shift' % tu.show(cn)))
                elif on_av and c in on_av:
                    pass        # `if (av[i])`: a null slot is not an argument
                elif on_av and c.get('kind') in ('BinaryOperator', 'UnaryOperator') and \
                        all(x.poly_at(z, None).as_int() == 0 or z in on_av or tu.strip(z, casts=True) in on_av
                            for z in (tu.kids(c) if c.get('kind') == 'BinaryOperator' else [])):
                    pass        # a null slot is not an argument (std::string(nullptr) is undefined anyway)
                else:
                    und.append('cannot classify the condition `%s` under which an argument is stored' % tu.show(cn))
        e = x.peel(args[0]) if args else None
        while e is not None and e.get('kind') in ('CXXConstructExpr', 'CXXTemporaryObjectExpr'):
            ks = [y for y in tu.kids(e) if y.get('kind') != 'CXXDefaultArgExpr']
            if len(ks) != 1:
                break
            e = x.peel(ks[0])
        AVP = Poly.atom(('var', ps[1]['id'], ps[1]['name']))
        addr = None
        if e is not None and e.get('kind') == 'ArraySubscriptExpr' and x.var_of(tu.kids(e)[0])[0] == ps[1]['id']:
            addr = AVP + x.poly_at(tu.kids(e)[1], pos)
        elif e is not None and e.get('kind') == 'UnaryOperator' and e.get('opcode') == '*':
            addr = x.poly_at(tu.kids(e)[0], pos)          # *p with p walking over av + k
        if addr is None:
            und.append('the pushed element is not av[index] / *pointer-into-av')
        else:
            off = addr - Poly.atom(lp.ivar)
            if lp.ivar in off.atoms(deep=True):
                und.append('the pushed element is at `%s`' % addr.show())
            elif lp.step != 1 or not lp.ascending_test:
                bad.append(('order', 'the arguments are not stored in ascending order (step %s)' % lp.step))
            else:
                first, last = lp.init + off - AVP, lp.bound_excl + off - AVP
                if first.as_int() is None and AVP.atoms()[0] in first.atoms(deep=True):
                    und.append('cannot relate the first stored element `%s` to av' % (lp.init + off).show())
                else:
                    if first != Poly.const(1):
                        bad.append(('range-start', 'the first stored argument is av[%s], expected av[1] (av[0] is the program name)' % first.show()))
                    if last != AC:
                        bad.append(('range-end', 'arguments are stored up to av[%s), expected up to av[%s)' % (last.show(), AC.show())))
        if bad:
            for k, m in bad:
                ctx.violation(R, inst, m, loc, key=key + k)
        elif und:
            for u in und:
                ctx.undecided(R, inst, u, loc)
        else:
            ctx.ok(R, inst, 'stores av[1] .. av[ac-1] in order', loc)

    for f in tu.fns(q='rkcommon::utility::ArgumentsParser::parseAndRemove'):
        if f['dep'] or tu.cfg(f) is None:
            continue
        n += 1
        x = FnX(tu, f)
        file, fname = tu.fn_file(f), fn_name(f)
        inst = '%s %s' % (fname, f['fty'])
        key = '%s|%s|%s|' % (R, file, fname)
        und, bad = [], []
        hs = loops_of(x)
        if len(hs) != 1:
            ctx.undecided(R, inst, 'expected exactly one loop, found %d' % len(hs), tu.fn_loc(f))
            continue
        lp = CountLoop(x, hs[0])
        if not lp.ok:
            ctx.undecided(R, inst, lp.why, tu.fn_loc(f))
            continue
        loc = tu.loc(lp.cond)
        lst = f['params'][0]
        LKEY = ('var', lst['id'], lst['name'])
        if lp.step is not None and lp.step < 0 and not lp.ascending_test and \
                any(c[1][0] in lp.body for c in calls_in(x, ('tryConsume',))):
            ctx.violation(R, inst, 'the arguments are offered to tryConsume from the last one to the first (`%s` starts at `%s` and is '
                          'stepped by %d): a command line is read left to right, an option owns the arguments that follow it whatever '
                          'they look like. Scanning backwards, an argument inside the span of a multi-argument option (`-o -v in.txt`: the '
                          'value of -o is spelled like the flag -v) is consumed on its own first, and the owning option then takes the '
                          'next surviving argument (`in.txt`), which belongs to nobody and must be kept'
                          % (lp.iname, lp.init.show(), lp.step), loc, key=key + 'scan-direction')
            continue
        if lp.init.as_int() != 0:
            bad.append(('scan-start', 'the scan starts at argument %s, expected 0' % lp.init.show()))
        if not lp.ascending_test or lp.bound_excl != Poly.atom(('size', LKEY)):
            (bad if lp.ascending_test and (lp.bound_excl - Poly.atom(('size', LKEY))).as_int() is not None else und).append(
                ('scan-end', 'the scan runs while `%s`, expected index < size of the list' % tu.show(lp.cond)))
        cons = [c for c in calls_in(x, ('tryConsume',)) if c[1][0] in lp.body]
        rems = [c for c in calls_in(x, ('remove',), 'rkcommon::utility::ArgumentList') if c[1][0] in lp.body]
        if len(cons) != 1 or len(rems) != 1:
            ctx.undecided(R, inst, 'expected one tryConsume and one remove call per iteration, found %d / %d' % (len(cons), len(rems)),
                          tu.fn_loc(f))
            continue
        ccall, cpos = cons[0]
        rcall, rpos = rems[0]
        cs, cobj, cargs = tu.call_parts(ccall)
        rs, robj, rargs = tu.call_parts(rcall)
        I = Poly.atom(lp.ivar)
        if not lp.once_per_iteration(cpos):
            und.append(('consume', 'tryConsume is not called exactly once per iteration'))
        if len(cargs) != 2 or x.objkey(cargs[0]) != LKEY or x.poly_at(cargs[1], cpos) != I:
            bad.append(('consume-args', 'tryConsume is called with `%s`, expected (list, current index)' % tu.show(ccall)))
        # numConsumed: the value of this call
        par = tu.par(ccall)
        while par is not None and par.get('kind') in ('ImplicitCastExpr', 'ParenExpr', 'ExprWithCleanups'):
            par = tu.par(par)
        nvar = None
        if par is not None and par.get('kind') == 'VarDecl' and par['id'] in x.vars and len(x.vars[par['id']]['defs']) == 1:
            nvar = Poly.atom(('var', par['id'], par.get('name')))
        if nvar is None:
            ctx.undecided(R, inst, 'the result of tryConsume is not kept in a local that is set once', tu.loc(ccall))
            continue
        if x.objkey(robj) != LKEY:
            und.append(('remove', 'remove is applied to another list'))
        if len(rargs) == 2:
            ra, rn = x.poly_at(rargs[0], rpos), x.poly_at(rargs[1], rpos)
            if ra != I:
                bad.append(('remove-position', 'consumed arguments are removed at `%s`, expected at the current index `%s`' % (ra.show(), I.show())))
            if rn != nvar:
                bad.append(('remove-count', '`%s` arguments are removed, expected the number consumed `%s`' % (rn.show(), nvar.show())))
        else:
            und.append(('remove', 'remove call does not have two arguments'))

        def n_leaf(pos):
            """the dominating condition on the consumed count inside the loop: Rel or None; 'none' if unguarded"""
            out = []
            for cn, truth, blk in x.guards(pos):
                if blk.id not in lp.body:
                    continue
                nf = x.cond_at(cn, truth, x.pos_of(cn))
                for lf in (rels_of(nf) or [None]):
                    out.append((lf, cn))
            return out

        nothing = Rel.make(nvar, '==', 0)
        nothing2 = Rel.make(nvar, '<=', 0)
        gi = n_leaf(lp.inc_pos)
        gr = n_leaf(rpos)

        def classify(gl):
            res = []
            for lf, cn in gl:
                if lf is None or lf[0] != 'rel':
                    return 'unknown', cn
                r = lf[1]
                if r in (nothing, nothing2):
                    res.append('nothing')
                elif r in (nothing.negate(), nothing2.negate()):
                    res.append('something')
                else:
                    return 'unknown', cn
            if not res:
                return 'always', None
            if len(set(res)) == 1:
                return res[0], None
            return 'unknown', None

        ci, cni = classify(gi)
        cr, cnr = classify(gr)
        if ci == 'unknown' or cr == 'unknown':
            und.append(('advance', 'cannot classify the condition `%s`' % tu.show(cni or cnr)))
        else:
            if ci != 'nothing':
                bad.append(('advance', 'the index advances %s, expected exactly when nothing was consumed: %s'
                            % ({'always': 'in every iteration', 'something': 'when arguments were consumed'}[ci],
                               'after a removal the next argument has moved to the current index and would be skipped'
                               if ci == 'always' else 'the loop never advances past an unrecognised argument')))
            if cr != 'something':
                bad.append(('remove-when', 'remove is called %s, expected exactly when arguments were consumed'
                            % {'always': 'in every iteration', 'nothing': 'when nothing was consumed'}[cr]))
        if lp.step != 1:
            bad.append(('advance', 'the index advances by %s, expected 1' % lp.step))
        if bad:
            for k, m in bad:
                ctx.violation(R, inst, m, loc, key=key + k)
        elif und:
            for k, m in und:
                ctx.undecided(R, inst, m, loc)
        else:
            ctx.ok(R, inst, 'index advances iff `%s == 0`, else remove(index, %s)' % (nvar.show(), nvar.show()), loc)
    return n


# ====================================================================================================
#  R-C18-6  prefix helpers
# ====================================================================================================
def prefix_length_fn(tu, f, inline=False):
    """Does f compute the length of the common prefix of its two string parameters with an index loop
         i = 0; while (i < min(a.size(), b.size()) && a[i] == b[i]) ++i; return i;
       returns ('ok', text) | ('bad', kind, message, loc) | ('und', why)"""
    ps = f.get('params', [])
    if len(ps) != 2 or not all('basic_string' in p['ct'] for p in ps) or tu.cfg(f) is None:
        return ('und', 'not a function of two strings')
    x = FnX(tu, f)
    hs = loops_of(x)
    if len(hs) != 1:
        return ('und', 'expected one loop, found %d' % len(hs))
    lp = CountLoop(x, hs[0])
    if not lp.ok:
        return ('und', lp.why)
    K = [('var', p['id'], p['name']) for p in ps]
    S = [Poly.atom(('size', k)) for k in K]
    MIN = Poly.atom(('min',) + tuple(sorted(S, key=repr)))
    loc = tu.loc(lp.cond)
    if lp.step != 1 or not lp.ascending_test or lp.init.as_int() != 0:
        return ('und', 'the loop is not an ascending scan from index 0')
    # the character comparison that keeps the loop going
    eq = None
    for bid in lp.body:
        b = x.g.blocks[bid]
        if b.cond is None or len(b.succ) != 2:
            continue
        c = tu.strip(deciding_cond(tu, b, x.g), casts=True)
        if c is None or c.get('kind') != 'BinaryOperator' or c.get('opcode') not in ('==', '!='):
            continue
        sides = []
        for y in tu.kids(c)[:2]:
            y = tu.strip(y, casts=True)
            if y is not None and y.get('kind') in ('CXXOperatorCallExpr', 'CXXMemberCallExpr') and \
                    last_name(tu.sd(y).get('q')) in ('operator[]', 'at'):
                s_, obj, args = tu.call_parts(y)
                if obj is not None and args and x.poly_at(args[0], x.pos_of(y)) == Poly.atom(lp.ivar):
                    sides.append(x.objkey(obj))
        if len(sides) == 2:
            eq = (b, c, sides)
    if eq is None:
        return ('und', 'no comparison a[i] == b[i] of the two strings at the loop index found')
    b, c, sides = eq
    if sorted(sides, key=repr) != sorted(K, key=repr):
        return ('und', 'the comparison `%s` does not read both parameters' % tu.show(c))
    stay = b.succ[0] if c['opcode'] == '==' else b.succ[1]
    leave = b.succ[1] if c['opcode'] == '==' else b.succ[0]
    if stay not in lp.body and stay != lp.header or leave in lp.body:
        return ('und', 'the loop does not continue exactly while the characters are equal')
    if not lp.once_per_iteration(lp.inc_pos):
        return ('und', 'the index is not advanced once per iteration')
    # result
    rets = [nd for bb, i, nd in x.g.stmts() if nd.get('kind') == 'ReturnStmt']
    okres = len(rets) == 1 and tu.kids(rets[0]) and x.poly_at(tu.kids(rets[0])[0], x.pos_of(rets[0])) == Poly.atom(lp.ivar)
    if not okres and inline and len(rets) == 1 and tu.kids(rets[0]):
        # the loop sits in longestBeginningMatch itself: the result is <parameter>.substr(0, index)
        e = x.peel(tu.kids(rets[0])[0])
        if e is not None and e.get('kind') == 'CXXMemberCallExpr' and last_name(tu.sd(e).get('q')) == 'substr':
            s_, obj, args = tu.call_parts(e)
            real = [y for y in args if y.get('kind') != 'CXXDefaultArgExpr']
            if x.var_of(obj)[0] in [p['id'] for p in ps] and len(real) == 2 and x.poly_at(real[0], x.pos_of(e)).as_int() == 0 and \
                    x.poly_at(real[1], x.pos_of(rets[0])) == Poly.atom(lp.ivar):
                okres = True
    if not okres:
        return ('und', 'the function does not return the loop index')
    ln = lp.bound_excl
    if ln == MIN:
        return ('ok', 'index loop over min(sizes) comparing a[i] == b[i]')
    for i in (0, 1):
        if ln == S[i]:
            return ('bad', 'mismatch-bound', 'the scan runs over `%s` characters of `%s` without regard to the length of `%s`: '
                    'reads behind the end of a shorter `%s`' % (ln.show(), ps[i]['name'], ps[1 - i]['name'], ps[1 - i]['name']), loc)
    cdiff = (ln - MIN).as_int()
    if cdiff is not None:
        return ('bad', 'mismatch-bound', 'the scan runs over min(sizes) %+d characters: %s' % (
            cdiff, 'reads behind the end of the shorter string' if cdiff > 0 else 'the last common character is never matched'), loc)
    return ('und', 'scan length `%s` is not min(a.size(), b.size())' % ln.show())


def prefix_length_call(tu, x, e, params):
    """(verdict of prefix_length_fn, call node) if e is a call of a prefix-length function with the two parameters"""
    e = x.peel(e)
    if e is None or e.get('kind') != 'CallExpr':
        return None
    hf = tu.callee_fn(e)
    if hf is None or hf['dep']:
        return None
    args = tu.kids(e)[1:]
    if sorted(x.var_of(a)[0] or '' for a in args) != sorted(p['id'] for p in params):
        return None
    return prefix_length_fn(tu, hf), e, hf


def word_loop_prefix(tu, x, f, ps, K, B, MIN, a, call):
    """longestBeginningMatch that first compares whole machine words and finishes with std::mismatch from the offset
    `m` reached:  for (; m + W <= min; m += W) { memcpy(&w1, a.data() + m, W); memcpy(&w2, b.data() + m, W);
                                                 if (w1 != w2) return a.substr(0, m + ctz(w1 ^ w2) / 8); }
    returns None (not this shape) or (oks, bads, unds)"""
    g = x.g
    cand = None
    for i in (0, 1):
        ma = (a[0] - B[i]).as_atom()
        if isinstance(ma, tuple) and ma[0] == 'var' and ma[1] in x.vars and not x.vars[ma[1]]['param']:
            cand = (i, ma)
    if cand is None or len(a) != 3:
        return None
    xi, ma = cand
    yi = 1 - xi
    M = Poly.atom(ma)
    bad, und = [], []
    if a[1] != B[xi] + MIN:
        if (a[1] - B[xi] - MIN).as_int() is not None or a[1] == B[xi] + Poly.atom(('size', K[xi])):
            bad.append(('mismatch-bound', 'the tail comparison runs up to `%s`, expected begin() + min(sizes)' % a[1].show()))
        else:
            und.append('tail comparison does not end at begin() + min(sizes)')
    if a[2] != B[yi] + M:
        off = (a[2] - B[yi] - M).as_int()
        if off is not None:
            bad.append(('tail-offset', 'the tail comparison starts at offset `%s` in one string and `%s` in the other'
                        % (M.show(), (a[2] - B[yi]).show())))
        else:
            und.append('the second range of the tail comparison does not start at the same offset')
    hs = loops_of(x)
    if len(hs) != 1:
        return None
    lp = CountLoop(x, hs[0])
    if not lp.ok or lp.ivar != ma or not lp.ascending_test or lp.step is None or lp.step < 2 or lp.init.as_int() != 0:
        return None
    W = lp.step
    # reads of one iteration stay below min(sizes):  m + W <= min
    if lp.bound_excl != MIN - W + 1:
        d_ = (lp.bound_excl - (MIN - W + 1)).as_int()
        if d_ is not None and d_ > 0:
            bad.append(('word-bound', 'a word of %d bytes is read while only `%s` characters are known to exist in both strings '
                        '(loop condition `%s`)' % (W, (lp.bound_excl - 1 + 0).show(), tu.show(lp.cond))))
        elif d_ is None:
            und.append('loop condition `%s` does not bound offset + %d by min(sizes)' % (tu.show(lp.cond), W))
    # the two words
    words = {}
    for b, i, n in g.stmts():
        if n.get('kind') == 'CallExpr' and tu.sd(n).get('q') in ('memcpy', 'std::memcpy') and b.id in lp.body:
            args = tu.kids(n)[1:]
            dst = tu.strip(args[0], casts=True)
            dv = x.var_of(tu.kids(dst)[0])[0] if dst is not None and dst.get('kind') == 'UnaryOperator' and dst.get('opcode') == '&' else None
            src = x.poly_at(args[1], (b.id, i))
            cnt = x.poly_at(args[2], (b.id, i)).as_int()
            which = None
            for j in (0, 1):
                if src == Poly.atom(('data', K[j])) + M:
                    which = j
            if dv is None or which is None or cnt != W:
                und.append('cannot read `%s` as copying %d bytes at the current offset of a parameter' % (tu.show(n), W))
            else:
                words[dv] = which
    if sorted(words.values()) != [0, 1]:
        und.append('expected one word copied from each string at the current offset')
        return ([], bad, und)
    for dv in words:
        ct = plain_ct(x.vars[dv]['ct'])
        sz = 8 if ct in ('unsigned long', 'unsigned long long') else 4 if ct == 'unsigned int' else None
        if sz != W:
            und.append('the word variable `%s` (%s) does not hold %d bytes' % (x.vars[dv]['name'], ct, W))
    # the branch on w1 != w2
    diff = None
    for bid in lp.body:
        blk = g.blocks[bid]
        if blk.cond is None or len(blk.succ) != 2:
            continue
        c = tu.strip(deciding_cond(tu, blk, g), casts=True)
        if c is not None and c.get('kind') == 'BinaryOperator' and c.get('opcode') in ('!=', '=='):
            vs = sorted(x.var_of(y)[0] or '' for y in tu.kids(c)[:2])
            if vs == sorted(words):
                diff = (blk, blk.succ[0] if c['opcode'] == '!=' else blk.succ[1], blk.succ[1] if c['opcode'] == '!=' else blk.succ[0])
    if diff is None:
        und.append('no comparison of the two words found')
        return ([], bad, und)
    blk, differ, same = diff
    if lp.header in _reach_blocks(g, differ, stop=None) or not lp.once_per_iteration(lp.inc_pos) and False:
        und.append('the branch for differing words goes on with the loop')
    rets = [tu.node(e[1]) for e in g.blocks[differ].el if e[0] == 'S' and (tu.node(e[1]) or {}).get('kind') == 'ReturnStmt']
    if len(rets) != 1:
        und.append('the branch for differing words does not return directly')
        return ([], bad, und)
    e = x.peel(tu.kids(rets[0])[0]) if tu.kids(rets[0]) else None
    ok_ret = False
    if e is not None and e.get('kind') == 'CXXMemberCallExpr' and last_name(tu.sd(e).get('q')) == 'substr':
        s_, obj, args = tu.call_parts(e)
        real = [y for y in args if y.get('kind') != 'CXXDefaultArgExpr']
        if x.var_of(obj)[0] in [p['id'] for p in ps] and len(real) == 2 and x.poly_at(real[0], x.pos_of(e)).as_int() == 0:
            ln = x.poly_at(real[1], x.pos_of(rets[0])) - M
            la = ln.as_atom()
            CTZ = Poly.atom(('ctz',) + tuple(sorted(x.vars[w_]['name'] for w_ in words)))
            if isinstance(la, tuple) and la[0] == 'div' and len(la) == 3 and la[2].as_int() == 8:
                extra = (la[1] - CTZ).as_int()
                if extra == 0:
                    ok_ret = True
                elif extra is not None and 1 <= extra <= 7:
                    bad.append(('bit-to-byte-rounds-up', 'the number of equal leading bytes of the differing words is computed as '
                                '`%s`: the index of the lowest differing bit must be divided by 8 rounding DOWN; with +%d a difference '
                                'above bit 0 of a byte (e.g. \'a\' vs \'c\') counts the differing character as matched, so the result is one '
                                'character too long and beginsWith accepts a non-prefix' % (ln.show(), extra)))
                    ok_ret = True
            elif isinstance(la, tuple) and la[0] == 'shr' and len(la) == 3 and la[2].as_int() == 3 and la[1] == CTZ:
                ok_ret = True
    if not ok_ret:
        und.append('cannot read the result returned for differing words (`%s`)' % (tu.show(e) if e else '?'))
    # equal words: straight to the increment
    if lp.inc_pos[0] not in _reach_blocks(g, same, stop=lp.header):
        und.append('equal words do not lead to the next word')
    # nothing else moves the offset
    if len(x.vars[ma[1]]['defs']) != 2:
        und.append('the offset `%s` is modified elsewhere' % ma[2])
    return (['%d-byte words while offset + %d <= min(sizes), first differing byte = ctz(w1 ^ w2) / 8, then std::mismatch from the offset'
             % (W, W)], bad, und)


def begins_with_compare(tu, x, f, ps, rets):
    """beginsWith written as  input.compare(0, prefix.size(), prefix) == 0  (possibly behind `if (prefix.size() > input.size())
    return false;`).  None if no such compare call; else (kind, message, loc)"""
    INP, PRE = ('var', ps[0]['id'], ps[0]['name']), ('var', ps[1]['id'], ps[1]['name'])
    SI, SP = Poly.atom(('size', INP)), Poly.atom(('size', PRE))
    main = None
    for r in rets:
        e = tu.strip(tu.kids(r)[0], casts=True) if tu.kids(r) else None
        if e is not None and e.get('kind') == 'BinaryOperator' and e.get('opcode') in ('==', '!='):
            for a_, b_ in (tu.kids(e)[:2], tu.kids(e)[:2][::-1]):
                c = x.peel(a_)
                if c is not None and c.get('kind') == 'CXXMemberCallExpr' and last_name(tu.sd(c).get('q')) == 'compare' and \
                        (tu.sd(c).get('q') or '').startswith('std::basic_string<') and x.poly_at(b_, x.pos_of(r)).as_int() == 0:
                    main = (r, e, c)
    if main is None:
        return None
    r, e, c = main
    loc = tu.loc(r)
    s_, obj, args = tu.call_parts(c)
    real = [y for y in args if y.get('kind') != 'CXXDefaultArgExpr']
    if len(real) not in (3, 5):
        return ('und', 'cannot read `%s`' % tu.show(c), loc)
    pos = x.pos_of(r)
    okey, p0, n0, skey = x.objkey(obj), x.poly_at(real[0], pos), x.poly_at(real[1], pos), x.objkey(real[2])
    MINSZ = Poly.atom(('min',) + tuple(sorted([SI, SP], key=repr)))
    if len(real) == 5 and okey == INP and skey == PRE:
        # input.compare(p1, n1, prefix, p2, n2): input[p1, p1+n1) against prefix[p2, p2+n2); a prefix test needs the WHOLE prefix
        p2, n2 = x.poly_at(real[3], pos), x.poly_at(real[4], pos)
        if p2.as_int() != 0:
            return ('und', 'offset `%s` into the prefix argument' % p2.show(), loc) if p2.as_int() is None else \
                ('prefix-offset', '`%s` starts at offset %d of the prefix argument' % (tu.show(c), p2.as_int()), loc)
        if n2 == MINSZ or n0 == MINSZ:
            return ('clamped-to-shorter', '`%s` compares only min(input.size(), prefix.size()) characters: it tests whether the two strings '
                    'agree on their common length, which is also true when the input is a proper prefix of the pattern '
                    '(beginsWith("--he", "--help"), beginsWith("", "x"))' % tu.show(c), loc)
        if n2 != SP and n2 != P_NPOS:
            if (n2 - SP).as_int() is not None:
                return ('prefix-length', '`%s` uses `%s` characters of the prefix argument, expected all `%s`' % (tu.show(c), n2.show(), SP.show()), loc)
            return ('und', 'length `%s` taken from the prefix argument' % n2.show(), loc)
    if n0 == MINSZ and okey == INP and skey == PRE:
        # three-argument form: the prefix is compared whole, min() only clamps the part of the input -- that is what compare does anyway
        n0 = SP
    if e.get('opcode') == '!=':
        return ('negated', 'beginsWith returns `%s`: the result is inverted' % tu.show(e), loc)
    if okey == PRE and skey == INP:
        return ('compares-with-input', 'the roles are swapped in `%s`: it tests whether the input is a prefix of the second argument' % tu.show(c), loc)
    if okey != INP or skey != PRE:
        return ('und', '`%s` does not compare the input with the prefix argument' % tu.show(c), loc)
    if p0.as_int() != 0:
        if p0.as_int() is not None:
            return ('prefix-offset', '`%s` compares from offset %d of the input, not from its beginning' % (tu.show(c), p0.as_int()), loc)
        return ('und', 'offset `%s` of the comparison' % p0.show(), loc)
    if n0 != SP:
        if n0 == SI:
            return ('compares-with-input', '`%s` compares the whole input with the prefix: true only if both are equal' % tu.show(c), loc)
        if (n0 - SP).as_int() is not None:
            return ('prefix-length', '`%s` compares `%s` characters, expected `%s`' % (tu.show(c), n0.show(), SP.show()), loc)
        return ('und', 'length `%s` of the comparison' % n0.show(), loc)
    # the other returns: constant results that follow from the guard they sit behind
    for r2 in rets:
        if r2 is r:
            continue
        v = x.poly_at(tu.kids(r2)[0], x.pos_of(r2)).as_int() if tu.kids(r2) else None
        gl = []
        for cn, truth, blk in x.guards(x.pos_of(r2)):
            gl += rels_of(x.cond_at(cn, truth, x.pos_of(cn))) or [None]
        longer = Rel.make(SP, '>', SI)
        empty = Rel.make(SP, '==', 0)
        if v == 0 and any(lf is not None and lf[0] == 'rel' and lf[1] == longer for lf in gl):
            continue        # a prefix cannot be longer than the string it starts
        if v == 1 and any(lf is not None and lf[0] == 'rel' and lf[1] == empty for lf in gl):
            continue        # the empty string starts every string
        if v == 0 and any(lf is not None and lf[0] == 'rel' and lf[1].op == '>=' and about(lf[1].p, SP - SI) and
                          about(lf[1].p, SP - SI)[0] > 0 and Fraction(-about(lf[1].p, SP - SI)[1]) / about(lf[1].p, SP - SI)[0] <= 0
                          for lf in gl):
            return ('rejects-equal-length', '`%s` is returned whenever the prefix is at least as long as the input: a string does not '
                    'begin with itself any more' % tu.show(r2), tu.loc(r2))
        return ('und', 'cannot justify the early `%s`' % tu.show(r2), tu.loc(r2))
    return ('ok', 'input.compare(0, prefix.size(), prefix) == 0', loc)


def first_char_reject(tu, x, ps, rnode):
    """`return false` that every path reaches over an edge saying "the first characters of input and prefix differ":
       ('ok', cond) if another such edge says the prefix is not empty (then the reject is sound: a non-empty prefix whose first
       character is not the input's first character - or the NUL of an empty input - is no prefix);  ('bad', cond) if not;
       None if the return is not of this kind."""
    ks = tu.kids(rnode)
    v = tu.strip(ks[0], casts=True) if ks else None
    if v is None or v.get('kind') != 'CXXBoolLiteralExpr' or v.get('value') is not False:
        return None
    pos = x.pos_of(rnode)
    if pos is None:
        return None
    ids = [p['id'] for p in ps]

    def first_char_of(e):
        e = tu.strip(e, casts=True)
        if e is None:
            return None
        if e.get('kind') == 'CXXOperatorCallExpr' and last_name(tu.sd(e).get('q')) == 'operator[]' and len(tu.kids(e)) == 3:
            if x.poly_at(tu.kids(e)[2], None).as_int() == 0:
                return x.var_of(tu.kids(e)[1])[0]
        if e.get('kind') == 'CXXMemberCallExpr' and last_name(tu.sd(e).get('q')) in ('front', 'at'):
            s_, obj, args = tu.call_parts(e)
            if last_name(tu.sd(e).get('q')) == 'front' or (len(args) == 1 and x.poly_at(args[0], None).as_int() == 0):
                return x.var_of(obj)[0] if last_name(tu.sd(e).get('q')) == 'front' else None   # at(0) throws: another behaviour
        return None
    diff = None
    nonempty = False
    PRE = ('var', ps[1]['id'], ps[1]['name'])
    for cn, truth, blk in x.guards(pos):
        c = tu.strip(cn, casts=True)
        neg = False
        while c is not None and c.get('kind') in ('UnaryOperator', 'ParenExpr') and (c.get('kind') == 'ParenExpr' or c.get('opcode') == '!'):
            if c.get('kind') == 'UnaryOperator':
                neg = not neg
            c = tu.strip(tu.kids(c)[0], casts=True)
        if c is None:
            continue
        val = truth != neg
        if c.get('kind') == 'BinaryOperator' and c.get('opcode') in ('==', '!='):
            a, b = (first_char_of(y) for y in tu.kids(c)[:2])
            if a is not None and b is not None and sorted([a, b]) == sorted(ids):
                if val == (c['opcode'] == '!='):
                    diff = cn
                continue
        if c.get('kind') == 'CXXMemberCallExpr' and last_name(tu.sd(c).get('q')) == 'empty' and \
                x.objkey(tu.call_parts(c)[1]) == PRE and val is False:
            nonempty = True
            continue
        nf = x.cond_at(cn, truth, x.pos_of(cn))
        for lf in (rels_of(nf) or []):
            if lf is not None and lf[0] == 'rel' and lf[1].op in ('>=', '!='):
                ab = about(lf[1].p, Poly.atom(('size', PRE)))
                if ab is not None and lf[1].op == '>=' and ab[0] > 0 and Fraction(-ab[1]) / ab[0] >= 1:
                    nonempty = True
                if ab is not None and lf[1].op == '!=' and ab[1] == 0:
                    nonempty = True
    if diff is None:
        return None
    return ('ok', diff) if nonempty else ('bad', diff)


def check_prefix(ctx, tu):
    R = 'R-C18-6'
    n = 0
    LBM = 'rkcommon::utility::longestBeginningMatch'
    for f in tu.fns(q=LBM):
        if f['dep'] or tu.cfg(f) is None:
            continue
        n += 1
        x = FnX(tu, f)
        file, fname = tu.fn_file(f), fn_name(f)
        inst = '%s %s' % (fname, f['fty'])
        key = '%s|%s|%s|' % (R, file, fname)
        ps = f['params']
        mm = list(calls_in(x, ('mismatch',), 'std::'))
        if len(ps) == 2 and not mm and loops_of(x):
            verdict = prefix_length_fn(tu, f, inline=True)
            if verdict[0] == 'ok':
                ctx.ok(R, inst, '%s; result = parameter.substr(0, index)' % verdict[1], tu.fn_loc(f))
                continue
            if verdict[0] == 'bad':
                ctx.violation(R, inst, verdict[2], verdict[3], key=key + verdict[1])
                continue
            ctx.undecided(R, inst, verdict[1], tu.fn_loc(f))
            continue
        if len(ps) == 2 and not mm:
            # alternative shape: <parameter>.substr(0, <prefix length of the two parameters>)
            rets = [nd for b, i, nd in x.g.stmts() if nd.get('kind') == 'ReturnStmt']
            e = x.peel(tu.kids(rets[0])[0]) if len(rets) == 1 and tu.kids(rets[0]) else None
            done = False
            if e is not None and e.get('kind') == 'CXXMemberCallExpr' and last_name(tu.sd(e).get('q')) == 'substr':
                s_, obj, args = tu.call_parts(e)
                real = [y for y in args if y.get('kind') != 'CXXDefaultArgExpr']
                if x.var_of(obj)[0] in [p['id'] for p in ps] and len(real) == 2 and \
                        x.poly_at(real[0], x.pos_of(e)).as_int() == 0:
                    pl = prefix_length_call(tu, x, real[1], ps)
                    if pl is not None:
                        verdict, pc, hf = pl
                        done = True
                        hinst = '%s %s (via %s)' % (fname, f['fty'], fn_name(hf))
                        if verdict[0] == 'ok':
                            ctx.ok(R, hinst, '%s.substr(0, %s(...)): %s' % (tu.show(obj), fn_name(hf), verdict[1]), tu.loc(e))
                        elif verdict[0] == 'bad':
                            ctx.violation(R, hinst, verdict[2], verdict[3], key='%s|%s|%s|%s' % (R, tu.fn_file(hf), fn_name(hf), verdict[1]))
                        else:
                            ctx.undecided(R, hinst, '%s: %s' % (fn_name(hf), verdict[1]), tu.fn_loc(hf))
            if done:
                continue
        if len(ps) != 2 or len(mm) != 1:
            ctx.undecided(R, inst, 'expected two string parameters and one std::mismatch call (found %d)' % len(mm), tu.fn_loc(f))
            continue
        call, pos = mm[0]
        loc = tu.loc(call)
        args = tu.kids(call)[1:]
        K = [('var', p['id'], p['name']) for p in ps]
        B = [Poly.atom(('begin', k)) for k in K]
        S = [Poly.atom(('size', k)) for k in K]
        MIN = Poly.atom(('min',) + tuple(sorted(S, key=repr)))
        a = [x.poly_at(y, pos) for y in args]
        und, bad = [], []
        xi = 0 if a[0] == B[0] else 1 if a[0] == B[1] else None
        wl = word_loop_prefix(tu, x, f, ps, K, B, MIN, a, call) if xi is None else None
        if wl is not None:
            oks, bad, und = wl
            # the result string must still start at begin() of the string whose mismatch position ends it
            rets = [nd for b, i, nd in x.g.stmts() if nd.get('kind') == 'ReturnStmt']
            last, ks = None, []
            for r_ in rets:
                e = x.peel(tu.kids(r_)[0]) if tu.kids(r_) else None
                k_ = [y for y in tu.kids(e) if y.get('kind') != 'CXXDefaultArgExpr'] if e is not None and e.get('kind') in (
                    'CXXConstructExpr', 'CXXTemporaryObjectExpr') else []
                if len(k_) == 2:
                    last, ks = r_, k_
            fi = 0 if (a[0] - B[0]).as_atom() is not None and (a[0] - B[0]).as_atom()[0] == 'var' else 1
            if len(ks) != 2 or x.poly_at(ks[0], x.pos_of(last)) != B[fi]:
                und.append('the result after the word loop is not built from begin() of the scanned string')
            ctx.assume('word-at-a-time comparison: the analysed target is little-endian (the lowest set bit of w1 ^ w2 lies in the '
                       'first differing byte)')
            if bad:
                for k_, m_ in bad:
                    ctx.violation(R, inst, m_, loc, key=key + k_)
            elif und:
                for u_ in und:
                    ctx.undecided(R, inst, u_, loc)
            else:
                ctx.ok(R, inst, oks[0], loc)
            continue
        if xi is None:
            und.append('first range of mismatch does not start at begin() of a parameter (`%s`)' % a[0].show())
        else:
            yi = 1 - xi
            ln = a[1] - a[0]
            if len(a) == 3:
                if a[2] != B[yi]:
                    und.append('second range of mismatch does not start at begin() of the other parameter (`%s`)' % a[2].show())
                if ln == MIN:
                    pass
                elif ln == S[xi]:
                    bad.append(('mismatch-bound', 'std::mismatch scans `%s` characters of `%s` without regard to the length of `%s`: '
                                'reads behind the end of the shorter second string' % (ln.show(), ps[xi]['name'], ps[yi]['name'])))
                elif (ln - MIN).as_int() is not None:
                    c = (ln - MIN).as_int()
                    bad.append(('mismatch-bound', 'std::mismatch scans min(sizes) %+d characters: %s' % (
                        c, 'reads behind the end of the shorter string' if c > 0 else 'the last common character is never matched')))
                else:
                    und.append('scan length `%s` is not min(first.size(), second.size())' % ln.show())
            elif len(a) == 4:
                if not (ln == S[xi] and a[2] == B[yi] and a[3] - a[2] == S[yi]) and not (ln == MIN and a[2] == B[yi]):
                    und.append('four-iterator mismatch does not span both strings')
            else:
                und.append('unexpected number of arguments to std::mismatch')
            # returned string: [begin(X), mismatch(...).first)
            rets = [nd for b, i, nd in x.g.stmts() if nd.get('kind') == 'ReturnStmt']
            if len(rets) != 1:
                und.append('expected one return statement')
            else:
                e = x.peel(tu.kids(rets[0])[0])
                ks = [y for y in tu.kids(e) if y.get('kind') != 'CXXDefaultArgExpr'] if e.get('kind') in (
                    'CXXConstructExpr', 'CXXTemporaryObjectExpr') else []
                if len(ks) != 2:
                    und.append('result is not constructed from an iterator pair')
                else:
                    rp = x.pos_of(rets[0])
                    r0 = x.poly_at(ks[0], rp)
                    e1 = x.peel(ks[1])
                    d1 = x.var_of(e1)[0]
                    if d1 is not None and x.single_init(d1) is not None:
                        e1 = x.peel(x.single_init(d1))
                    if e1.get('kind') == 'MemberExpr' and e1.get('name') in ('first', 'second') and tu.kids(e1) and \
                            x.peel(tu.kids(e1)[0]) is not None and x.peel(tu.kids(e1)[0]).get('id') == call.get('id'):
                        which = xi if e1['name'] == 'first' else yi
                        if r0 != B[which]:
                            bad.append(('result-range', 'the result is built from begin() of one string and the mismatch position in the other'))
                    else:
                        und.append('end of the result is not the position reported by std::mismatch')
        if bad:
            for k, m in bad:
                ctx.violation(R, inst, m, loc, key=key + k)
        elif und:
            for u in und:
                ctx.undecided(R, inst, u, loc)
        else:
            ctx.ok(R, inst, 'mismatch over min(first.size(), second.size()) characters; result = [begin, mismatch.first)', loc)

    for f in tu.fns(q='rkcommon::utility::beginsWith'):
        if f['dep'] or tu.cfg(f) is None:
            continue
        n += 1
        x = FnX(tu, f)
        file, fname = tu.fn_file(f), fn_name(f)
        inst = '%s %s' % (fname, f['fty'])
        key = '%s|%s|%s|' % (R, file, fname)
        ps = f['params']
        rets = [nd for b, i, nd in x.g.stmts() if nd.get('kind') == 'ReturnStmt']
        calls = list(calls_in(x, ('longestBeginningMatch',)))
        if len(ps) == 2 and len(rets) > 1:
            # quick rejects in front of the real test: `return false` when the first characters differ
            keep, rej_bad = [], None
            for rnode in rets:
                fr_ = first_char_reject(tu, x, ps, rnode)
                if fr_ is None:
                    keep.append(rnode)
                elif fr_[0] == 'bad':
                    rej_bad = (rnode, fr_[1])
            if rej_bad is not None:
                ctx.violation(R, inst, '`return false` is reached whenever `%s`, and nothing on the way says that the prefix `%s` is not '
                              'empty: for an empty prefix `%s[0]` is the terminating NUL, which differs from the first character of every '
                              'non-empty input, so beginsWith(x, "") is false although every string begins with the empty string'
                              % (tu.show(rej_bad[1]), ps[1]['name'], ps[1]['name']), tu.loc(rej_bad[1]), key=key + 'rejects-empty-prefix')
                continue
            rets = keep
        if len(ps) == 2 and not calls and rets:
            cmpv = begins_with_compare(tu, x, f, ps, rets)
            if cmpv is not None:
                kind_, msg_, loc_ = cmpv
                if kind_ == 'ok':
                    ctx.ok(R, inst, msg_, loc_)
                elif kind_ == 'und':
                    ctx.undecided(R, inst, msg_, loc_)
                else:
                    ctx.violation(R, inst, msg_, loc_, key=key + kind_)
                continue
        if len(ps) == 2 and len(rets) == 1 and not calls:
            # alternative shape: <prefix length of the two parameters> == prefix.size()
            e = tu.strip(tu.kids(rets[0])[0], casts=True) if tu.kids(rets[0]) else None
            done = False
            if e is not None and e.get('kind') == 'BinaryOperator' and e.get('opcode') in ('==', '>=', '<=', '!='):
                l, r = tu.kids(e)[:2]
                op = e['opcode']
                pl = prefix_length_call(tu, x, l, ps)
                if pl is None:
                    pl = prefix_length_call(tu, x, r, ps)
                    l, r = r, l
                    op = {'==': '==', '>=': '<=', '<=': '>=', '!=': '!='}[op]
                if pl is not None:
                    verdict, pc, hf = pl
                    done = True
                    rp_ = x.pos_of(rets[0])
                    rhs = x.poly_at(r, rp_)
                    PRE = Poly.atom(('size', ('var', ps[1]['id'], ps[1]['name'])))
                    INP = Poly.atom(('size', ('var', ps[0]['id'], ps[0]['name'])))
                    loc = tu.loc(rets[0])
                    if verdict[0] == 'bad':
                        ctx.violation(R, inst, verdict[2], verdict[3], key='%s|%s|%s|%s' % (R, tu.fn_file(hf), fn_name(hf), verdict[1]))
                    elif op == '!=':
                        ctx.violation(R, inst, 'beginsWith returns `%s`: the result is inverted' % tu.show(e), loc, key=key + 'negated')
                    elif op not in ('==', '>='):
                        ctx.undecided(R, inst, 'result `%s` is not an equality of lengths' % tu.show(e), loc)
                    elif rhs == INP and rhs != PRE:
                        ctx.violation(R, inst, 'the match length is compared with the length of the input `%s` instead of the prefix `%s`: '
                                      'true only when the input is itself a prefix of the second argument' % (ps[0]['name'], ps[1]['name']),
                                      loc, key=key + 'compares-with-input')
                    elif (rhs - PRE).as_int() not in (None, 0):
                        ctx.violation(R, inst, 'the match length is compared with `%s`, expected `%s`' % (rhs.show(), PRE.show()), loc,
                                      key=key + 'prefix-length')
                    elif rhs != PRE:
                        ctx.undecided(R, inst, 'the match length is compared with `%s`' % rhs.show(), loc)
                    elif verdict[0] == 'und':
                        ctx.undecided(R, inst, '%s: %s' % (fn_name(hf), verdict[1]), tu.fn_loc(hf))
                    else:
                        ctx.ok(R, inst, '%s(input, prefix) == size(prefix); %s' % (fn_name(hf), verdict[1]), loc)
            if done:
                continue
        if len(ps) != 2 or len(rets) != 1 or len(calls) != 1:
            ctx.undecided(R, inst, 'expected one return and one longestBeginningMatch call', tu.fn_loc(f))
            continue
        call, cpos = calls[0]
        loc = tu.loc(rets[0])
        und, bad = [], []
        cargs = tu.kids(call)[1:]
        cvars = sorted(x.var_of(y)[0] or '' for y in cargs)
        if cvars != sorted(p['id'] for p in ps):
            und.append('longestBeginningMatch is not applied to the two parameters')
        # the match: either the call itself or a local initialised with it
        mkeys = [('expr', call.get('id'))]
        for d, v in x.vars.items():
            init = x.single_init(d)
            if init is not None and x.peel(init) is not None and x.peel(init).get('id') == call.get('id'):
                mkeys.append(('var', d, v['name']))
        e = tu.strip(tu.kids(rets[0])[0], casts=True)
        rp = x.pos_of(rets[0])
        if e.get('kind') == 'BinaryOperator' and e.get('opcode') in ('==', '>=', '<='):
            l, r = (x.poly_at(y, rp) for y in tu.kids(e)[:2])
            op = e['opcode']
            msz = [Poly.atom(('size', k)) for k in mkeys]
            if r in msz and l not in msz:
                l, r = r, l
                op = {'==': '==', '>=': '<=', '<=': '>='}[op]
            if l not in msz or op not in ('==', '>='):
                und.append('result `%s` does not compare the length of the match' % tu.show(e))
            else:
                PRE = Poly.atom(('size', ('var', ps[1]['id'], ps[1]['name'])))
                INP = Poly.atom(('size', ('var', ps[0]['id'], ps[0]['name'])))
                if r == PRE:
                    pass
                elif r == INP:
                    bad.append(('compares-with-input', 'the match length is compared with the length of the input `%s` instead of the '
                                'prefix `%s`: true only when the input is itself a prefix of the second argument'
                                % (ps[0]['name'], ps[1]['name'])))
                elif (r - PRE).as_int() is not None:
                    bad.append(('prefix-length', 'the match length is compared with `%s`, expected `%s`' % (r.show(), PRE.show())))
                else:
                    und.append('the match length is compared with `%s`' % r.show())
        elif e.get('kind') == 'BinaryOperator' and e.get('opcode') == '!=':
            bad.append(('negated', 'beginsWith returns `%s`: the result is inverted' % tu.show(e)))
        else:
            und.append('result `%s` is not a comparison of lengths' % tu.show(e))
        if bad:
            for k, m in bad:
                ctx.violation(R, inst, m, loc, key=key + k)
        elif und:
            for u in und:
                ctx.undecided(R, inst, u, loc)
        else:
            ctx.ok(R, inst, 'size(longestBeginningMatch(input, prefix)) == size(prefix)', loc)
    return n


# ====================================================================================================
#  R-C18-1 / R-C18-8  FileName: typestate of the dot position, cut points of the components
# ====================================================================================================
FNAME = 'rkcommon::FileName'
DOTISH = ('D?', 'D', 'DX', 'DU', 'DU?')


_MARKS_MEMO = {}


def marks_scan(tu, hf):
    """hf is a file-local helper of exactly this shape (anything else: None):

         R scan(const std::string &s) {
           R m;                                        // two size_t fields, both initialised to npos in the class
           for (size_t i = s.size(); i-- > 0;) {
             [const char c = s[i];]
             if (c == SEP [|| c == SEP2]) { m.F1 = i; [break;] }
             if (c == '.' [&& m.F2 is still npos]) m.F2 = i;
           }
           return m;
         }

    With the break and the guard, F1 is the position of the last separator (npos if none) and F2 the position of the last '.'
    behind it (npos if none) - what find_last_of gives plus the comparison `dot > sep`.  Without the guard F2 is the FIRST '.' of
    the last component; without the break F1 is not the last separator and F2 is the last '.' of the whole string.
    {'rec', 'sep', 'dot', 'has_break', 'guarded'}"""
    key = (id(tu), hf['id'] if hf else None)
    if key in _MARKS_MEMO:
        return _MARKS_MEMO[key]
    _MARKS_MEMO[key] = None
    if hf is None or hf['dep'] or hf.get('rec') or tu.body(hf) is None or len(hf.get('params', [])) != 1:
        return None
    par = hf['params'][0]
    if 'basic_string' not in par['ct'] or not par['ct'].startswith('const '):
        return None
    rt = hf['fty'].split(' (')[0].strip()
    recs = [r for r in tu.records.values() if r.get('q') == rt or r.get('type') == rt]
    if len(recs) != 1:
        return None
    rec = recs[0]
    flds = rec.get('fields', [])
    if len(flds) != 2 or any(plain_ct(fl['ct']) != 'unsigned long' or not fl.get('hasinit') for fl in flds):
        return None
    x = FnX(tu, hf)
    for fl in flds:
        fd = tu.node(fl['id'])
        ks = [y for y in (tu.kids(fd) if fd is not None else []) if not (y.get('kind') or '').endswith('Comment')]
        if not ks or not any(_nposish(tu, x, y) for y in tu.walk(ks[-1])):
            return None
    stm = [y for y in tu.kids(tu.body(hf)) if y.get('kind')]
    if len(stm) != 3 or [y.get('kind') for y in stm] != ['DeclStmt', 'ForStmt', 'ReturnStmt']:
        return None
    mv = [v for v in tu.kids(stm[0]) if v.get('kind') == 'VarDecl']
    if len(mv) != 1:
        return None
    mid = mv[0]['id']
    mk = tu.kids(mv[0])
    if mk and not (mk[0].get('kind') == 'CXXConstructExpr' and not [y for y in tu.kids(mk[0]) if y.get('kind') != 'CXXDefaultArgExpr']):
        return None
    rv = x.peel(tu.kids(stm[2])[0]) if tu.kids(stm[2]) else None
    if rv is None or rv.get('kind') != 'DeclRefExpr' or rv.get('referencedDecl', {}).get('id') != mid:
        return None

    def isref(e, did):
        e = tu.strip(e, casts=True)
        return e is not None and e.get('kind') == 'DeclRefExpr' and e.get('referencedDecl', {}).get('id') == did
    fs = stm[1].get('inner', [])
    if len(fs) != 5 or fs[1].get('kind') or fs[3].get('kind'):
        return None
    iv = [v for v in tu.kids(fs[0]) if v.get('kind') == 'VarDecl'] if fs[0].get('kind') == 'DeclStmt' else []
    if len(iv) != 1 or not tu.kids(iv[0]):
        return None
    iid = iv[0]['id']
    i0 = tu.strip(tu.kids(iv[0])[0], casts=True)
    if i0 is None or i0.get('kind') != 'CXXMemberCallExpr' or last_name(tu.sd(i0).get('q')) not in ('size', 'length') or \
            not isref(tu.call_parts(i0)[1], par['id']):
        return None
    c = tu.strip(fs[2], casts=True)
    if c is None or c.get('kind') != 'BinaryOperator' or c.get('opcode') not in ('>', '!='):
        return None
    l, r = tu.kids(c)[:2]
    l0 = tu.strip(l, casts=True)
    if l0 is None or l0.get('kind') != 'UnaryOperator' or l0.get('opcode') != '--' or not l0.get('isPostfix') or \
            not isref(tu.kids(l0)[0], iid) or num_const(tu, r) != 0:
        return None
    body = fs[4]
    bst = [y for y in (tu.kids(body) if body.get('kind') == 'CompoundStmt' else [body]) if y.get('kind')]
    cid = None
    if bst and bst[0].get('kind') == 'DeclStmt':
        cv = [v for v in tu.kids(bst[0]) if v.get('kind') == 'VarDecl']
        if len(cv) != 1 or not tu.kids(cv[0]):
            return None
        cid = cv[0]['id']
        if not _is_char_at(tu, tu.kids(cv[0])[0], par['id'], iid):
            return None
        bst = bst[1:]
    if len(bst) != 2 or any(y.get('kind') != 'IfStmt' or len(tu.kids(y)) != 2 for y in bst):
        return None

    def is_char(e):
        return (cid is not None and isref(e, cid)) or _is_char_at(tu, e, par['id'], iid)

    def char_test(e):
        """the character against a constant: 'sep' | 'dot' | None"""
        e = tu.strip(e, casts=True)
        while e is not None and e.get('kind') == 'ParenExpr':
            e = tu.strip(tu.kids(e)[0], casts=True)
        if e is None or e.get('kind') != 'BinaryOperator' or e.get('opcode') != '==':
            return None
        a, b = tu.kids(e)[:2]
        for u, v in ((a, b), (b, a)):
            if is_char(u):
                cvv = x.poly_at(v, None).as_int()
                if cvv in (47, 92):
                    return 'sep'
                if cvv == 46:
                    return 'dot'
        return None

    def field_store(st_, fname=None):
        st_ = tu.strip(st_, casts=True)
        if st_ is None or st_.get('kind') != 'BinaryOperator' or st_.get('opcode') != '=':
            return None
        lhs = tu.strip(tu.kids(st_)[0], casts=True)
        if lhs is None or lhs.get('kind') != 'MemberExpr' or not isref(tu.kids(lhs)[0], mid) or not isref(tu.kids(st_)[1], iid):
            return None
        return lhs.get('name')
    # -- separator test
    sc = tu.strip(tu.kids(bst[0])[0], casts=True)
    parts = [sc]
    if sc is not None and sc.get('kind') == 'BinaryOperator' and sc.get('opcode') == '||':
        parts = tu.kids(sc)[:2]
    if any(char_test(pz) != 'sep' for pz in parts):
        return None
    th = tu.kids(bst[0])[1]
    ths = [y for y in (tu.kids(th) if th.get('kind') == 'CompoundStmt' else [th]) if y.get('kind')]
    if not ths or len(ths) > 2:
        return None
    f1 = field_store(ths[0])
    has_break = len(ths) == 2 and ths[1].get('kind') == 'BreakStmt'
    if f1 is None or (len(ths) == 2 and not has_break):
        return None
    # -- dot test
    dc = tu.strip(tu.kids(bst[1])[0], casts=True)
    guarded = False
    dth = tu.kids(bst[1])[1]
    dths = [y for y in (tu.kids(dth) if dth.get('kind') == 'CompoundStmt' else [dth]) if y.get('kind')]
    f2 = field_store(dths[0]) if len(dths) == 1 else None
    if f2 is None or f2 == f1:
        return None
    if dc is not None and dc.get('kind') == 'BinaryOperator' and dc.get('opcode') == '&&':
        a, b = tu.kids(dc)[:2]
        if char_test(a) != 'dot':
            return None
        g = tu.strip(b, casts=True)
        neg = False
        while g is not None and g.get('kind') in ('UnaryOperator', 'ParenExpr') and (g.get('kind') == 'ParenExpr' or g.get('opcode') == '!'):
            if g.get('kind') == 'UnaryOperator':
                neg = not neg
            g = tu.strip(tu.kids(g)[0], casts=True)
        okg = False
        if g is not None and g.get('kind') == 'CXXMemberCallExpr' and neg:
            mf = tu.callee_fn(g)
            obj = tu.call_parts(g)[1]
            if mf is not None and isref(obj, mid) and _method_is_field_set(tu, x, mf, f2):
                okg = True
        elif g is not None and g.get('kind') == 'BinaryOperator' and g.get('opcode') == '==' and not neg:
            u, v = tu.kids(g)[:2]
            for p_, q_ in ((u, v), (v, u)):
                p0 = tu.strip(p_, casts=True)
                if p0 is not None and p0.get('kind') == 'MemberExpr' and p0.get('name') == f2 and isref(tu.kids(p0)[0], mid) and \
                        any(_nposish(tu, x, y) for y in tu.walk(q_)):
                    okg = True
        if not okg:
            return None
        guarded = True
    elif char_test(dc) != 'dot':
        return None
    if not has_break and not guarded:
        return None
    _MARKS_MEMO[key] = {'rec': rec, 'sep': f1, 'dot': f2, 'has_break': has_break, 'guarded': guarded, 'fn': hf}
    return _MARKS_MEMO[key]


def _nposish(tu, x, y):
    """a reference to std::string::npos (also where the side table has no entry: in-class member initialisers)"""
    return x.is_npos_ref(y) or (y.get('kind') in ('DeclRefExpr', 'MemberExpr') and
                                (y.get('referencedDecl', {}).get('name') == 'npos' or y.get('name') == 'npos'))


def _is_char_at(tu, e, sid, iid):
    """e is  s[i]  /  s.at(i)"""
    e = tu.strip(e, casts=True)
    if e is None:
        return False

    def isref(y, did):
        y = tu.strip(y, casts=True)
        return y is not None and y.get('kind') == 'DeclRefExpr' and y.get('referencedDecl', {}).get('id') == did
    if e.get('kind') == 'CXXOperatorCallExpr' and last_name(tu.sd(e).get('q')) == 'operator[]' and len(tu.kids(e)) == 3:
        return isref(tu.kids(e)[1], sid) and isref(tu.kids(e)[2], iid)
    if e.get('kind') == 'CXXMemberCallExpr' and last_name(tu.sd(e).get('q')) == 'at':
        s_, obj, args = tu.call_parts(e)
        return len(args) == 1 and isref(obj, sid) and isref(args[0], iid)
    return False


def _method_is_field_set(tu, x, mf, fname):
    """bool m() const { return FIELD != npos; }"""
    body = tu.body(mf)
    if body is None or mf.get('params'):
        return False
    st = [y for y in tu.kids(body) if y.get('kind')]
    if len(st) != 1 or st[0].get('kind') != 'ReturnStmt' or not tu.kids(st[0]):
        return False
    c = tu.strip(tu.kids(st[0])[0], casts=True)
    if c is None or c.get('kind') != 'BinaryOperator' or c.get('opcode') != '!=':
        return False
    u, v = tu.kids(c)[:2]
    for p_, q_ in ((u, v), (v, u)):
        p0 = tu.strip(p_, casts=True)
        if p0 is not None and p0.get('kind') == 'MemberExpr' and p0.get('name') == fname and \
                any(_nposish(tu, x, y) for y in tu.walk(q_)):
            return True
    return False


class FileNameTS:
    """Path-sensitive typestate over the size_t locals of one FileName member.

    values:  'S?' result of searching the last separator (may be npos)   'S' the same, known valid
             'N' npos   'Z' 0   'LEN' filename.size()   'L' first index of the last component (S+1, or 0 without separator)
             'D?' result of searching the last '.' in the whole name (may be npos), not yet compared with the separator
             'D'  the same, known valid      'DG' valid and known to lie in the last component ('DG?' may still be npos)
             'DX' known to lie before the last separator     'DU' dot searched in a string the rule does not know
             ('A', v) result of searching a separator behind the dot held by v     'D+1', 'D-L', 'LEN-L' derived
             ('=', v) copy of v     'T' anything else
    '$nosep' in the state: the name is known to contain no separator (every dot is in the last component)."""

    SUMMARIES = {}

    def __init__(self, tu, f, field, fkey=None, depth=0):
        self.tu = tu
        self.f = f
        self.x = FnX(tu, f)
        self.g = self.x.g
        self.field = field
        self.FKEY = fkey or ('field', ('this',), field)
        self.depth = depth
        self.is_base = False      # the analysed string is the last component (a helper that is handed base())
        self.boundaries = []      # ('lt' | 'le', comparison node): how the dot is compared with the start of the last component
        self.ret_vals = set()     # (abstract value, 'nosep' | 'sep' | None) of an integer-returning helper
        self.helper_kinds = {}    # dot-search kinds found in helpers that were followed
        self.uses = []        # (kind, var name, node)
        self.returns = []     # (node, string value, state dict)
        self.notes = []
        self.unknown_cmp = []

    # ---- state helpers
    @staticmethod
    def fz(d):
        return tuple(sorted(d.items(), key=lambda kv: str(kv[0])))

    def root(self, d, v):
        seen = 0
        while isinstance(d.get(v), tuple) and d[v][0] == '=' and seen < 8:
            v = d[v][1]
            seen += 1
        return v

    def val(self, d, v):
        return d.get(self.root(d, v), 'T')

    def setv(self, d, v, val):
        # break aliases that point at v
        old = d.get(v, 'T')
        for k, w in list(d.items()):
            if isinstance(w, tuple) and w[0] == '=' and w[1] == v:
                d[k] = old
        d[v] = val

    # ---- expression values
    def is_sep(self, e):
        c = self.x.poly_at(e, None).as_int() if e is not None else None
        return c in (47, 92)

    def is_dot(self, e):
        c = self.x.poly_at(e, None).as_int() if e is not None else None
        return c == 46

    def local(self, e):
        d, v = self.x.var_of(e)
        if d is not None and not v['param']:
            return d
        return None

    def base_like(self, obj, d):
        """is obj a string known to be the last component: base() or a local initialised with it"""
        tu = self.tu
        e = self.x.peel(obj)
        if e is None:
            return False
        if e.get('kind') == 'CXXMemberCallExpr' and tu.sd(e).get('q') == FNAME + '::base':
            return True
        dv = self.local(e)
        if dv is not None:
            init = self.x.single_init(dv)
            if init is not None:
                return self.base_like(init, d)
        if e.get('kind') == 'CXXMemberCallExpr' and last_name(tu.sd(e).get('q')) == 'substr':
            s, o, args = tu.call_parts(e)
            if self.x.objkey(o) == self.FKEY and len([a for a in args if a.get('kind') != 'CXXDefaultArgExpr']) == 1:
                return self.ev(args[0], d) == 'L'
        return False

    def marks_call(self, e):
        """(call node, summary) if e is  scan(<the name>)  with a verified marks helper, or a local struct initialised with it"""
        tu = self.tu
        e = self.x.peel(e) if e is not None else None
        for _ in range(4):
            if e is None:
                return None
            if e.get('kind') == 'CallExpr':
                ms = marks_scan(tu, tu.callee_fn(e))
                args = tu.kids(e)[1:]
                if ms is not None and len(args) == 1 and self.x.objkey(args[0]) == self.FKEY and \
                        tu.fn_file(ms['fn']) == tu.fn_file(self.f):
                    return e, ms
                return None
            dv, v = self.x.var_of(e)
            if dv is None or v['param'] or v['defs'] and len(v['defs']) != 1:
                return None
            if v['escaped'] and not top_const(v['ct']):
                return None
            init = self.x.single_init(dv)
            e = self.x.peel(init) if init is not None else None
        return None

    def marks_field(self, e, d):
        """abstract value of  marks.FIELD  (or FIELD inside a method of the marks struct that is being evaluated)"""
        tu = self.tu
        if e is None or e.get('kind') != 'MemberExpr' or tu.sd(e).get('k') != 'member':
            return None
        ks = tu.kids(e)
        base = tu.strip(ks[0], casts=True) if ks else None
        if (base is None or tu.is_this(base)) and getattr(self, '_mk', None) is not None:
            return d.get(('mk', self._mk, e.get('name')))
        mc = self.marks_call(base) if base is not None else None
        if mc is not None:
            return d.get(('mk', mc[0]['id'], e.get('name')))
        return None

    def marks_method(self, e):
        """(call id of the marks value, return expression) for  marks.m()  with  m() const { return <expr>; }"""
        tu = self.tu
        if e is None or e.get('kind') != 'CXXMemberCallExpr':
            return None
        s_, obj, args = tu.call_parts(e)
        if obj is None or args:
            return None
        mc = self.marks_call(obj)
        mf = tu.callee_fn(e)
        if mc is None or mf is None or mf.get('rec') != mc[1]['rec'].get('q') or not mf.get('const') or tu.body(mf) is None:
            return None
        st = [y for y in tu.kids(tu.body(mf)) if y.get('kind')]
        if len(st) != 1 or st[0].get('kind') != 'ReturnStmt' or not tu.kids(st[0]):
            return None
        return mc[0]['id'], tu.kids(st[0])[0]

    def sib_call(self, e):
        """the call node if e is `ext()` / `this->ext()` of the analysed FileName, or a string local initialised with it"""
        tu = self.tu
        if self.FKEY[0] != 'field':
            return None
        e = self.x.peel(e) if e is not None else None
        for _ in range(4):
            if e is None:
                return None
            if e.get('kind') == 'CXXMemberCallExpr' and tu.sd(e).get('q') == FNAME + '::ext':
                s, obj, args = tu.call_parts(e)
                if (obj is None or tu.is_this(obj)) and not args:
                    return e
                return None
            dv, v = self.x.var_of(e)
            if dv is None or v['param'] or 'basic_string' not in (v['ct'] or '') or \
                    not (top_const(v['ct']) or not v['escaped']):
                return None
            init = self.x.single_init(dv)
            e = self.x.peel(init) if init is not None else None
        return None

    def sib_of(self, obj, d):
        """'EXT0' (ext() found no extension dot and returned \"\") / 'EXT' (name[dot+1, end) behind a valid dot) / None"""
        c = self.sib_call(obj)
        return d.get(('sib', c['id'])) if c is not None else None

    def sib_state(self, d):
        vals = [w for k2, w in d.items() if isinstance(k2, tuple) and k2 and k2[0] == 'sib' and len(k2) == 2]
        return vals[0] if len(set(vals)) == 1 else None

    def ev(self, e, d):
        tu = self.tu
        x = self.x
        e = tu.strip(e, casts=True)
        if e is None:
            return 'T'
        k = e.get('kind')
        if k == 'DeclRefExpr':
            v = self.local(e)
            if v is not None:
                return self.val(d, v)
        if k == 'MemberExpr':
            mv = self.marks_field(e, d)
            if mv is not None:
                return mv
        if k == 'CXXMemberCallExpr':
            mm = self.marks_method(e)
            if mm is not None:
                save = getattr(self, '_mk', None)
                self._mk = mm[0]
                try:
                    return self.ev(mm[1], d)
                finally:
                    self._mk = save
        if k in ('CallExpr', 'CXXMemberCallExpr') and ('call', e.get('id')) in d:
            return d[('call', e['id'])]
        c = x.poly_at(e, None)
        if c == P_NPOS:
            return 'N'
        if c.as_int() == 0:
            return 'Z'
        if k == 'CXXMemberCallExpr':
            s, obj, args = tu.call_parts(e)
            q = s.get('q') or ''
            name = last_name(q)
            if q.startswith('std::basic_string<'):
                on_name = x.objkey(obj) == self.FKEY
                real = [a for a in args if a.get('kind') != 'CXXDefaultArgExpr']
                if name in ('size', 'length') and on_name:
                    return 'BLEN' if self.is_base else 'LEN'
                if name in ('size', 'length') and not real and self.base_like(obj, d):
                    return 'BLEN'           # length of the last component
                if name in ('size', 'length') and not real and self.sib_of(obj, d) is not None:
                    return 'Z' if self.sib_of(obj, d) == 'EXT0' else 'LEN-D-1'      # length of what ext() returned
                if name in ('size', 'length') and not real:
                    o_ = x.peel(obj)
                    if o_ is not None and o_.get('kind') == 'CXXMemberCallExpr' and tu.sd(o_).get('q') == FNAME + '::path' and \
                            (tu.call_parts(o_)[1] is None or tu.is_this(tu.call_parts(o_)[1])):
                        return 'L'          # path() ends right in front of the last component
                if name in FIND_LAST and real:
                    whole = len(real) == 1 or self.ev(real[1], d) == 'N'
                    if self.is_dot(real[0]):
                        if on_name and whole and self.is_base:
                            return 'DB?'        # position inside the last component (relative to its start)
                        if on_name and whole:
                            return 'DG?' if d.get('$nosep') else 'D?'
                        if self.base_like(obj, d) and whole:
                            return 'DB?'
                        return 'DU?'
                    if self.is_sep(real[0]) and on_name and whole:
                        return 'N' if d.get('$nosep') else 'S?'
                if name in FIND_DELIM and real and self.is_dot(real[0]):
                    # the *first* dot from a start position (siblings that search the last dot disagree: see the
                    # search-agreement clause of R-C18-1); it lies in the last component iff the search starts there
                    st0 = self.ev(real[1], d) if len(real) >= 2 else 'Z'
                    if on_name and self.is_base and st0 == 'Z':
                        return 'DB?'
                    if on_name and (st0 == 'L' or (st0 == 'Z' and d.get('$nosep'))):
                        return 'DG?'
                    if on_name and st0 == 'Z':
                        return 'D?'
                    if self.base_like(obj, d) and st0 == 'Z':
                        return 'DB?'
                    return 'DU?'
                if name in FIND_DELIM and len(real) == 2 and on_name and self.is_sep(real[0]):
                    v = self.local(real[1])
                    if v is not None and self.val(d, v) in ('D?', 'D', 'DG', 'DG?', 'DX'):
                        return ('A', self.root(d, v))
        if k == 'ConditionalOperator':
            # the branch edges of the condition were already taken on this path: evaluate it in the current state
            c, t, fl = tu.kids(e)[:3]
            tv = self.truth(c, d)
            if tv is True:
                return self.ev(t, d)
            if tv is False:
                return self.ev(fl, d)
            a, b = self.ev(t, d), self.ev(fl, d)
            return a if a == b else 'T'
        if k == 'BinaryOperator' and e.get('opcode') in ('+', '-'):
            a, b = (self.ev(y, d) for y in tu.kids(e)[:2])
            ca, cb = (x.poly_at(y, None).as_int() for y in tu.kids(e)[:2])
            if e['opcode'] == '+':
                if cb == 1 or ca == 1:
                    o = a if cb == 1 else b
                    if o in ('S', 'S?'):
                        return 'L'
                    if o in ('D', 'DG', 'D?', 'DG?', 'DX'):
                        return 'D+1'
                    if o in ('DB', 'DB?'):
                        return 'DB+1'
                    if o == 'L':
                        return 'L+1'
                if b == 'Z':
                    return a
                if a == 'Z':
                    return b
                if {a, b} == {'L', 'DB'}:
                    return 'DG'            # start of the last component + position inside it
                if (a == 'LEN-D-1' and cb == 1) or (b == 'LEN-D-1' and ca == 1):
                    return 'LEN-D'         # length of '.' + extension, the extension being what ext() returned
            else:
                if b == 'Z':
                    return a
                if a in ('D', 'DG') and b == 'L':
                    return 'D-L'
                if a == 'LEN' and b == 'L':
                    return 'LEN-L'
                if a == 'BLEN' and b == 'DB':
                    return 'BLEN-DB'       # length of '.' + extension
                if a == 'LEN' and b == 'BLEN-DB':
                    return 'DG'            # the same dot counted from the start of the whole name
                if a == 'LEN' and b == 'BLEN':
                    return 'L'
                if a == 'LEN' and b == 'LEN-D-1':
                    return 'DG+1'          # start of the extension ext() returned: right behind its (valid) dot
                if a == 'LEN' and b == 'LEN-D':
                    return 'DG'
                if a == 'DG+1' and cb == 1:
                    return 'DG'
                if a == 'LEN' and cb == 1:
                    return 'LEN-1'
        return 'T'

    def truth(self, c, d):
        """truth value of `v == npos` / `v != npos` in state d, None if unknown"""
        tu = self.tu
        c = tu.strip(c, casts=True)
        neg = False
        while c is not None and c.get('kind') == 'UnaryOperator' and c.get('opcode') == '!':
            neg = not neg
            c = tu.strip(tu.kids(c)[0], casts=True)
        mm = self.marks_method(c) if c is not None else None
        if mm is not None:
            save = getattr(self, '_mk', None)
            self._mk = mm[0]
            try:
                r = self.truth(mm[1], d)
            finally:
                self._mk = save
            return None if r is None else ((not r) if neg else r)
        if c is None or c.get('kind') != 'BinaryOperator' or c.get('opcode') not in ('==', '!='):
            return None
        la, ra = (self.ev(y, d) for y in tu.kids(c)[:2])
        if ra != 'N':
            la, ra = ra, la
        if ra != 'N':
            return None
        if la == 'N':
            r = True
        elif la in ('S', 'D', 'DG', 'DX', 'L', 'Z', 'LEN', 'D+1', 'DB', 'DB+1', 'BLEN'):
            r = False
        else:
            return None
        if c['opcode'] == '!=':
            r = not r
        return (not r) if neg else r

    def strval(self, e, d, depth=0):
        """abstract value of a returned string / FileName"""
        tu = self.tu
        x = self.x
        if depth > 12 or e is None:
            return 'T'
        e = x.peel(e)
        if e is None:
            return 'T'
        k = e.get('kind')
        q = tu.sd(e).get('q') or ''
        if k in ('CXXConstructExpr', 'CXXTemporaryObjectExpr', 'CXXFunctionalCastExpr'):
            ks = [y for y in tu.kids(e) if y.get('kind') != 'CXXDefaultArgExpr']
            if k == 'CXXFunctionalCastExpr' and ks:
                return self.strval(ks[-1], d, depth + 1)
            if not ks:
                return 'empty' if q.startswith('std::basic_string<') else 'T'
            if len(ks) == 1 and (q == FNAME + '::FileName' or q.startswith('std::basic_string<')):
                return self.strval(ks[0], d, depth + 1)
            return 'T'
        if k == 'StringLiteral':
            return 'empty' if e.get('value') == '""' else 'T'
        if k == 'MemberExpr' and x.objkey(e) == self.FKEY:
            return 'whole'
        if k == 'UnaryOperator' and e.get('opcode') == '*' and tu.is_this(tu.kids(e)[0]):
            return 'whole'
        if k == 'CallExpr' and ('scall', e.get('id')) in d:
            return d[('scall', e['id'])]
        if k == 'DeclRefExpr' and x.objkey(e) == self.FKEY:
            return 'whole'
        if k == 'DeclRefExpr':
            dd, v = x.var_of(e)
            if dd is not None and v['param']:
                return ('param', dd)
            if dd is not None and x.single_init(dd) is not None:
                return self.strval(x.single_init(dd), d, depth + 1)
            return 'T'
        if k == 'CXXMemberCallExpr' and last_name(q) == 'substr' and q.startswith('std::basic_string<'):
            s, obj, args = tu.call_parts(e)
            if x.objkey(obj) != self.FKEY:
                # the tail of the last component is the tail of the name
                real_ = [y for y in args if y.get('kind') != 'CXXDefaultArgExpr']
                if self.base_like(obj, d):
                    a0 = self.ev(real_[0], d) if real_ else 'T'
                    a1 = self.ev(real_[1], d) if len(real_) == 2 else None
                    if len(real_) == 1 and a0 == 'DB+1':
                        return ('sub', 'D+1', None)       # base.substr(dot + 1): the tail of the last component
                    if len(real_) == 1 and a0 == 'DB':
                        return ('sub', 'D', None)          # base.substr(dot): the tail including the dot
                    if len(real_) == 2 and a0 == 'Z' and a1 == 'DB':
                        return ('sub', 'L', 'D-L')         # base.substr(0, dot)  ==  name[L, dot)
                    if a0 == 'Z' and (a1 == 'N' or (len(real_) == 1)):
                        return ('sub', 'L', None)          # the whole last component
                return 'T'
            a = self.ev(args[0], d) if args else 'T'
            if len(args) < 2 or args[1].get('kind') == 'CXXDefaultArgExpr' or self.ev(args[1], d) == 'N':
                return ('sub', a, None)
            return ('sub', a, self.ev(args[1], d))
        if k == 'CXXOperatorCallExpr' and last_name(q) == 'operator+':
            ks = tu.kids(e)[1:]
            if len(ks) == 2:
                return ('cat', self.strval(ks[0], d, depth + 1), self.strval(ks[1], d, depth + 1))
        if k == 'ConditionalOperator':
            c, t, fl = tu.kids(e)[:3]
            tv = self.truth(c, d)
            if tv is True:
                return self.strval(t, d, depth + 1)
            if tv is False:
                return self.strval(fl, d, depth + 1)
            a, b = self.strval(t, d, depth + 1), self.strval(fl, d, depth + 1)
            return a if a == b else 'T'
        if k == 'CXXMemberCallExpr' and q.startswith(FNAME + '::'):
            s, obj, args = tu.call_parts(e)
            outer = last_name(q)
            if (obj is None or tu.is_this(obj)) and outer == 'base' and not args:
                return ('sub', 'L', None)          # the last component of this name
            inner = x.peel(obj) if obj is not None else None
            dloc = x.var_of(inner)[0] if inner is not None else None
            if dloc is not None and x.single_init(dloc) is not None:
                inner = x.peel(x.single_init(dloc))       # a named temporary: const FileName stem = dropExt();
            if inner is not None and inner.get('kind') == 'CXXMemberCallExpr' and (tu.sd(inner).get('q') or '').startswith(FNAME + '::'):
                s2, obj2, args2 = tu.call_parts(inner)
                if obj2 is None or tu.is_this(obj2):
                    return ('compose', outer, last_name(tu.sd(inner).get('q')))
        return 'T'

    # ---- transfer / refine
    def transfer(self, blk, idx, el, st):
        if el[0] != 'S':
            return [st]
        tu = self.tu
        n = tu.node(el[1])
        if n is None:
            return [st]
        k = n.get('kind')
        d = dict(st)
        if k == 'DeclStmt':
            for vd in tu.kids(n):
                if vd.get('kind') == 'VarDecl' and vd['id'] in self.x.vars and is_int_ct(self.x.vars[vd['id']]['ct']):
                    init = tu.kids(vd)[0] if vd.get('init') and tu.kids(vd) else None
                    self.assign(d, vd['id'], init)
            return [self.fz(d)]
        if k == 'BinaryOperator' and n.get('opcode') == '=':
            v = self.local(tu.kids(n)[0])
            if v is not None and is_int_ct(self.x.vars[v]['ct']):
                self.assign(d, v, tu.kids(n)[1])
                return [self.fz(d)]
            return [st]
        if k == 'UnaryOperator' and n.get('opcode') in ('++', '--'):
            v = self.local(tu.kids(n)[0])
            if v is not None:
                cur = self.val(d, v)
                self.setv(d, v, 'L' if (n['opcode'] == '++' and cur in ('S', 'S?')) else
                          'D+1' if (n['opcode'] == '++' and cur in ('D', 'DG')) else 'T')
                return [self.fz(d)]
            return [st]
        if k == 'CompoundAssignOperator':
            v = self.local(tu.kids(n)[0])
            if v is not None:
                cur = self.val(d, v)
                c = self.x.poly_at(tu.kids(n)[1], None).as_int()
                self.setv(d, v, 'L' if (n.get('opcode') == '+=' and c == 1 and cur in ('S', 'S?')) else 'T')
                return [self.fz(d)]
            return [st]
        if k == 'DeclRefExpr':
            v = self.local(n)
            if v is not None:
                cur = self.val(d, v)
                if cur in DOTISH and not d.get('$nosep'):
                    self.note_use(n, v, cur)
            return [st]
        if k == 'ReturnStmt':
            ks = tu.kids(n)
            if ks:
                if is_int_ct(tu.sd(tu.strip(ks[0], casts=True)).get('ct') or tu.sd(ks[0]).get('ct')):
                    rv = self.ev(ks[0], d)
                    if isinstance(rv, tuple):
                        rv = self.val(d, rv[1]) if rv[0] == '=' else 'T'
                    self.ret_vals.add((rv, 'nosep' if d.get('$nosep') else 'sep' if d.get('$sep') else None))
                else:
                    self.returns.append((n, self.strval(ks[0], d), d))
            return [st]
        if k == 'CallExpr' and ('mk', n['id']) not in d:
            mc = self.marks_call(n)
            if mc is not None and mc[0] is n:
                ms = mc[1]
                out = []
                for sepv in (('N', 'S') if ms['has_break'] else ('T',)):
                    for dotv in ('N', 'DG' if ms['has_break'] else 'D'):
                        if (sepv == 'N' and d.get('$sep')) or (sepv == 'S' and d.get('$nosep')):
                            continue
                        d2 = dict(d)
                        d2[('mk', n['id'])] = True
                        d2[('mk', n['id'], ms['sep'])] = sepv
                        d2[('mk', n['id'], ms['dot'])] = dotv
                        if sepv == 'N':
                            d2['$nosep'] = True
                        elif sepv == 'S':
                            d2['$sep'] = True
                        out.append(self.fz(d2))
                return out
        if k == 'MemberExpr':
            cur = self.marks_field(n, d)
            if cur in DOTISH and not d.get('$nosep'):
                self.note_use(n, None, cur, name=tu.show(n))
            return [st]
        if k == 'CXXMemberCallExpr' and self.sib_call(n) is n and ('sib', n['id']) not in d:
            # ext() of the same name: by its own contract (checked for ext() itself under R-C18-8) it returns "" when the last
            # component has no extension dot and name[dot+1, end) - which may be empty, too - when it has one
            self.sibling_used = True
            out = []
            for val in ('EXT0', 'EXT'):
                cur = self.sib_state(d)
                if cur is not None and cur != val:
                    continue
                d2 = dict(d)
                d2[('sib', n['id'])] = val
                if val == 'EXT':
                    d2[('sib', n['id'], 'dot')] = 'DG'
                out.append(self.fz(d2))
            return out
        if k == 'CallExpr' and ('scall', n['id']) not in d:
            ss = self.strhelper(n)
            if ss is not None:
                out = []
                for sv, dstate, sstate in ss:
                    if (sstate == 'nosep' and d.get('$sep')) or (sstate == 'sep' and d.get('$nosep')):
                        continue
                    d2 = dict(d)
                    d2[('scall', n['id'])] = sv
                    mark = {'valid': 'DG', 'valid-unguarded': 'D', 'open': 'D?'}.get(dstate)
                    if mark is not None:
                        d2[('sib', n['id'], 'dot')] = mark
                    if sstate == 'nosep':
                        d2['$nosep'] = True
                    elif sstate == 'sep':
                        d2['$sep'] = True
                    z = self.fz(d2)
                    if z not in out:
                        out.append(z)
                return out
        if k in ('CallExpr', 'CXXMemberCallExpr'):
            summ = self.helper(n)
            if summ is not None:
                out = []
                expanded = []
                for rv, flag in sorted(summ, key=str):
                    if rv in ('D?', 'DG?', 'DB?', 'DU?'):
                        expanded += [('N', flag), (rv[:-1], flag)]     # "may be npos": both cases, so that a direct use is definite
                    else:
                        expanded.append((rv, flag))
                for rv, flag in expanded:
                    if (flag == 'nosep' and d.get('$sep')) or (flag == 'sep' and d.get('$nosep')):
                        continue
                    d2 = dict(d)
                    if rv in ('D?', 'D') and d2.get('$nosep'):
                        rv = 'DG?' if rv == 'D?' else 'DG'
                    d2[('call', n['id'])] = rv
                    if flag == 'nosep':
                        d2['$nosep'] = True
                    elif flag == 'sep':
                        d2['$sep'] = True
                    z = self.fz(d2)
                    if z not in out:
                        out.append(z)
                return out
        return [st]

    def helper(self, call):
        """summary {(returned abstract value, separator flag)} of a file-local / member helper that is handed the name and
        returns a position; None if the call is not such a helper"""
        tu = self.tu
        if self.depth > 3:
            return None
        hf = tu.callee_fn(call)
        if hf is None or hf['dep'] or tu.cfg(hf) is None or hf['id'] == self.f['id']:
            return None
        if not is_int_ct(tu.sd(call).get('ct')):
            return None
        s, obj, args = tu.call_parts(call)
        fkey = None
        if hf.get('rec') == FNAME and call.get('kind') == 'CXXMemberCallExpr':
            if not hf.get('const') or not (obj is None or tu.is_this(obj)) or self.FKEY[0] != 'field':
                return None
            fkey = self.FKEY
        elif not hf.get('rec'):
            hits = [i for i, a in enumerate(args) if self.x.objkey(a) == self.FKEY]
            on_base = False
            if not hits:
                hits = [i for i, a in enumerate(args) if self.base_like(a, {})]
                on_base = bool(hits)
            ps = hf.get('params', [])
            if len(hits) != 1 or hits[0] >= len(ps) or 'basic_string' not in ps[hits[0]]['ct'] or \
                    not ps[hits[0]]['ct'].startswith('const '):
                return None
            p = ps[hits[0]]
            fkey = ('var', p['id'], p['name'])
            base_mode = on_base or self.is_base
        else:
            return None
        memo = FileNameTS.SUMMARIES.setdefault(id(tu), {})
        base_mode = locals().get('base_mode', False)
        key = (hf['id'], fkey[0], base_mode)
        if key not in memo:
            sub = FileNameTS(tu, hf, self.field, fkey=fkey, depth=self.depth + 1)
            sub.is_base = base_mode
            sub.run()
            memo[key] = sub
        sub = memo[key]
        for u in sub.uses:
            if u not in self.uses:
                self.uses.append(u)
        self.unknown_cmp += [c for c in sub.unknown_cmp if c not in self.unknown_cmp]
        for bd in sub.boundaries:
            if not any(b[0] == bd[0] for b in self.boundaries):
                self.boundaries.append(bd)
        self.followed = getattr(self, 'followed', [])
        if hf not in self.followed:
            self.followed.append(hf)
        return sub.ret_vals or None

    def strhelper(self, call):
        """summary [(returned abstract string, dot state, separator state)] of a file-local helper that is handed the name by
        const reference and returns a string cut out of it (withoutExt(filename)); None if the call is not such a helper"""
        tu = self.tu
        if self.depth > 3:
            return None
        hf = tu.callee_fn(call)
        if hf is None or hf['dep'] or tu.cfg(hf) is None or hf['id'] == self.f['id'] or hf.get('rec'):
            return None
        if 'basic_string' not in (tu.sd(call).get('ct') or '') or tu.fn_file(hf) != tu.fn_file(self.f):
            return None
        args = tu.kids(call)[1:]
        hits = [i for i, a in enumerate(args) if self.x.objkey(a) == self.FKEY]
        ps = hf.get('params', [])
        if len(hits) != 1 or hits[0] >= len(ps) or 'basic_string' not in ps[hits[0]]['ct'] or \
                not ps[hits[0]]['ct'].startswith('const ') or len(args) != 1:
            return None
        p = ps[hits[0]]
        fkey = ('var', p['id'], p['name'])
        memo = FileNameTS.SUMMARIES.setdefault(id(tu), {})
        key = (hf['id'], 'str', self.is_base)
        if key not in memo:
            sub = FileNameTS(tu, hf, self.field, fkey=fkey, depth=self.depth + 1)
            sub.is_base = self.is_base
            sub.run()
            memo[key] = sub
        sub = memo[key]
        for u in sub.uses:
            if u not in self.uses:
                self.uses.append(u)
        self.unknown_cmp += [c for c in sub.unknown_cmp if c not in self.unknown_cmp]
        for bd in sub.boundaries:
            if not any(b[0] == bd[0] for b in self.boundaries):
                self.boundaries.append(bd)
        self.followed = getattr(self, 'followed', [])
        if hf not in self.followed:
            self.followed.append(hf)
        tvars = set(sub.x.vars)
        out = []
        for node, sv, d in sub.returns:
            dstate, sstate = state_class(d, tvars)
            if (sv, dstate, sstate) not in out:
                out.append((sv, dstate, sstate))
        return out or None

    def assign(self, d, v, rhs):
        if rhs is None:
            self.setv(d, v, 'T')
            return
        src = self.local(rhs)
        if src is not None and src != v:
            self.setv(d, v, ('=', self.root(d, src)))
            return
        self.setv(d, v, self.ev(rhs, d))

    def note_use(self, n, v, cur, name=None):
        tu = self.tu
        p = tu.par(n)
        lval = True
        while p is not None and p.get('kind') in ('ImplicitCastExpr', 'ParenExpr'):
            if p.get('castKind') == 'LValueToRValue':
                lval = False
            n, p = p, tu.par(p)
        if p is None:
            return
        pk = p.get('kind')
        if lval:
            return          # written, not read
        if pk == 'BinaryOperator' and p.get('opcode') in ('==', '!=', '<', '<=', '>', '>='):
            return          # compared
        if pk == 'VarDecl' or (pk == 'BinaryOperator' and p.get('opcode') == '=' and tu.kids(p)[1] is n):
            return          # plain copy: the copy carries the same state
        if pk == 'CXXMemberCallExpr':
            s, obj, args = tu.call_parts(p)
            if last_name(s.get('q')) in FIND_DELIM and args and self.is_sep(args[0]) and self.x.objkey(obj) == self.FKEY:
                return      # looking for a separator behind the dot is the comparison itself
        # what consumes the value?  (through + / - arithmetic)
        q = p
        hops = 0
        while q is not None and hops < 8 and q.get('kind') in ('BinaryOperator', 'ImplicitCastExpr', 'ParenExpr', 'CStyleCastExpr',
                                                               'CXXStaticCastExpr', 'CXXFunctionalCastExpr') and \
                (q.get('kind') != 'BinaryOperator' or q.get('opcode') in ('+', '-')):
            q = tu.par(q)
            hops += 1
        how = 'other'
        if q is not None and q.get('kind') in ('CXXMemberCallExpr', 'CXXOperatorCallExpr', 'CXXConstructExpr', 'CXXTemporaryObjectExpr'):
            cq = tu.sd(q).get('q') or ''
            if cq.startswith('std::basic_string<') or '__normal_iterator' in cq:
                how = 'boundary'
        self.uses.append((cur, name if name is not None else self.x.vars[v]['name'], n, how))

    def refine(self, blk, si, st):
        c = deciding_cond(self.tu, blk, self.g)
        if c is None:
            return [st]
        return self.refine_expr(c, si == 0, st)

    def refine_expr(self, c, truth, st):
        tu = self.tu
        c = tu.strip(c, casts=True)
        while c is not None and c.get('kind') == 'UnaryOperator' and c.get('opcode') == '!':
            truth = not truth
            c = tu.strip(tu.kids(c)[0], casts=True)
        if c is not None and c.get('kind') == 'BinaryOperator' and c.get('opcode') in ('&&', '||'):
            a, b = tu.kids(c)[:2]
            conj = (c['opcode'] == '&&') == truth       # both operands have the value `truth`
            out = []
            if conj:
                for s1 in self.refine_expr(a, truth, st):
                    out += self.refine_expr(b, truth, s1)
            else:
                out += self.refine_expr(a, truth, st)
                for s1 in self.refine_expr(a, not truth, st):
                    out += self.refine_expr(b, truth, s1)
            res = []
            for o in out:
                if o not in res:
                    res.append(o)
            return res
        if c is not None and c.get('kind') == 'CXXMemberCallExpr' and self.marks_method(c) is not None:
            t = self.truth(c, dict(st))
            if t is None:
                return [st]
            return [st] if t == truth else []
        if c is not None and c.get('kind') == 'CXXMemberCallExpr' and last_name(tu.sd(c).get('q')) == 'empty' and \
                (tu.sd(c).get('q') or '').startswith('std::basic_string<'):
            s_, obj, args = tu.call_parts(c)
            d = dict(st)
            sv = self.sib_of(obj, d)
            if sv == 'EXT0':
                return [st] if truth else []
            if sv == 'EXT':
                # name[dot+1, end) is empty exactly when the extension dot is the last character of the name
                if d.get('$dotlast') is not None:
                    return [st] if d['$dotlast'] == truth else []
                d['$dotlast'] = truth
                return [self.fz(d)]
            if self.x.objkey(obj) == self.FKEY and self.sib_state(d) == 'EXT':
                return [] if truth else [st]          # a name with an extension dot is not empty
            return [st]
        if c is None or c.get('kind') != 'BinaryOperator' or c.get('opcode') not in ('==', '!=', '<', '<=', '>', '>='):
            return [st]
        d = dict(st)
        l, r = tu.kids(c)[:2]
        op = c['opcode']
        if not truth:
            op = {'==': '!=', '!=': '==', '<': '>=', '<=': '>', '>': '<=', '>=': '<'}[op]
        # ---- a character of the name against '.'
        if op in ('==', '!=') and (self.is_dot(l) or self.is_dot(r)):
            ce = tu.strip(r if self.is_dot(l) else l, casts=True)
            at = None
            if ce is not None and ce.get('kind') == 'CXXMemberCallExpr' and last_name(tu.sd(ce).get('q')) == 'back' and \
                    self.x.objkey(tu.call_parts(ce)[1]) == self.FKEY:
                at = 'LEN-1'
            elif ce is not None and ce.get('kind') == 'CXXOperatorCallExpr' and last_name(tu.sd(ce).get('q')) == 'operator[]' and \
                    len(tu.kids(ce)) == 3 and self.x.objkey(tu.kids(ce)[1]) == self.FKEY:
                at = self.ev(tu.kids(ce)[2], d)
            elif ce is not None and ce.get('kind') == 'CXXMemberCallExpr' and last_name(tu.sd(ce).get('q')) == 'at' and \
                    self.x.objkey(tu.call_parts(ce)[1]) == self.FKEY and tu.call_parts(ce)[2]:
                at = self.ev(tu.call_parts(ce)[2][0], d)
            isdot = None          # is the character a '.' ?
            if at in ('DG', 'D'):
                isdot = True
            elif at == 'LEN-1':
                sv = self.sib_state(d)
                if sv == 'EXT':
                    if d.get('$dotlast') is None:
                        # the last character is the extension dot, or the (dot-free) extension ends the name
                        out = []
                        for val in (True, False):
                            if (op == '==') == val:
                                d2 = dict(d)
                                d2['$dotlast'] = val
                                out.append(self.fz(d2))
                        return out
                    isdot = d['$dotlast']
                elif sv == 'EXT0' and self.lt_boundary_only():
                    isdot = False     # a '.' as the last character lies in the last component and would be its extension dot
            if isdot is not None:
                return [st] if (op == '==') == isdot else []
            return [st]
        lv, rv = self.local(l), self.local(r)
        la, ra = self.ev(l, d), self.ev(r, d)
        # ---- comparison with npos
        if op in ('==', '!=') and (la == 'N' or ra == 'N'):
            v, a = (rv, ra) if la == 'N' else (lv, la)
            if la == 'N' and ra == 'N':
                return [st] if op == '==' else []
            eq = (op == '==')
            if v is None and isinstance(a, tuple) and a[0] == 'A':
                cur = d.get(a[1], 'T')
                d[a[1]] = {'D': 'DG', 'D?': 'DG?'}.get(cur, cur) if eq else 'DX'
                return [self.fz(d)]
            if v is None and a in ('S', 'D', 'DG', 'DX', 'L', 'Z', 'LEN', 'D+1', 'DB', 'DB+1', 'BLEN'):
                return [] if eq else [st]         # a value that is known not to be npos (a field of the scan result)
            if v is None:
                return [st]
            v = self.root(d, v)
            if a == 'S?':
                self.setv(d, v, 'N' if eq else 'S')
                if not eq:
                    if d.get('$nosep'):
                        return []
                    d['$sep'] = True
                if eq:
                    if d.get('$sep'):
                        return []
                    d['$nosep'] = True
                    for k2, w in list(d.items()):
                        if w == 'D?':
                            d[k2] = 'DG?'
                        elif w == 'D':
                            d[k2] = 'DG'
            elif a in ('D?', 'DG?', 'DU?', 'DB?'):
                self.setv(d, v, 'N' if eq else a[:-1])
            elif isinstance(a, tuple) and a[0] == 'A':
                dv = a[1]
                cur = d.get(dv, 'T')
                if eq:
                    d[dv] = {'D': 'DG', 'D?': 'DG?'}.get(cur, cur)
                else:
                    d[dv] = 'DX'
            elif a in ('S', 'D', 'DG', 'DX', 'L', 'Z', 'LEN', 'D+1', 'DB', 'DB+1', 'BLEN') and eq:
                return []
            elif a == 'N' and not eq:
                return []
            return [self.fz(d)]
        # ---- a position behind a character of the name against 0
        POSITIVE = ('DG+1', 'D+1', 'L+1', 'DB+1', 'LEN-D')
        if op in ('==', '!=') and ((la in POSITIVE and ra == 'Z') or (ra in POSITIVE and la == 'Z')):
            return [] if op == '==' else [st]
        # ---- dot position against the separator
        flip = {'<': '>', '<=': '>=', '>': '<', '>=': '<=', '==': '==', '!=': '!='}
        if la not in ('D', 'DG', 'D?', 'DG?', 'DX') and ra in ('D', 'DG', 'D?', 'DG?', 'DX'):
            lv, rv, la, ra, op = rv, lv, ra, la, flip[op]
        if lv is not None and la in ('D', 'D?', 'DG', 'DG?', 'DX') and ra in ('L', 'S', 'S?', 'Z'):
            v = self.root(d, lv)
            # where is the boundary between "extension dot" and "not an extension dot"?  dot < start  ('lt': a dot that
            # is the first character of the last component counts as the extension dot)  or  dot <= start  ('le')
            if ra in ('S', 'S?') or (ra in ('L', 'Z') and (ra == 'L' or rv is not None)):
                cls = 'lt' if ra in ('S', 'S?') or op in ('<', '>=') else 'le' if op in ('<=', '>') else None
                if cls is not None and not any(b[0] == cls for b in self.boundaries):
                    self.boundaries.append((cls, c))
            if ra == 'Z':
                return [] if op == '<' else [st]
            guarded = {'D': 'DG', 'D?': 'DG?', 'DG': 'DG', 'DG?': 'DG?'}.get(la)
            kind = None
            if ra == 'L':
                kind = {'<': 'LT', '>=': 'GE', '>': 'GE'}.get(op)
            elif ra == 'S':
                kind = {'<': 'LT', '<=': 'LT', '>': 'GE', '>=': 'GE'}.get(op)
            elif ra == 'S?' and la in ('D', 'DG') and op in ('>', '>='):
                # d > npos is impossible: on this edge the separator exists and the dot lies behind it
                kind = 'GE'
                if rv is not None:
                    self.setv(d, self.root(d, rv), 'S')
            if kind == 'LT':
                if la in ('DG', 'DG?'):
                    return []
                self.setv(d, v, 'DX')
                return [self.fz(d)]
            if kind == 'GE':
                if la == 'DX':
                    return []
                self.setv(d, v, guarded)
                return [self.fz(d)]
            return [st]
        if (la in ('D', 'D?') and ra not in ('N', 'LEN', 'Z')) or (ra in ('D', 'D?') and la not in ('N', 'LEN', 'Z')):
            self.unknown_cmp.append(c)
        return [st]

    def lt_boundary_only(self):
        """ext() counts a dot that is the first character of the last component as the extension dot (`dot < start` is the
        only way it rejects a dot): then a name without extension dot cannot end in '.'"""
        tu = self.tu
        memo = FileNameTS.SUMMARIES.setdefault(id(tu), {})
        if 'ext-boundary' not in memo:
            res = False
            fs = [f for f in tu.fns(q=FNAME + '::ext') if not f['dep'] and tu.cfg(f) is not None]
            if len(fs) == 1 and fs[0]['id'] != self.f['id']:
                sub = FileNameTS(tu, fs[0], self.field)
                kinds = {}
                search_kinds(tu, sub, fs[0], kinds, 0)
                sub.run()
                cls = {b[0] for b in sub.boundaries}
                res = set(kinds) == {'last'} and not sub.unknown_cmp and cls <= {'lt'}
            memo['ext-boundary'] = res
        return memo['ext-boundary']

    def run(self):
        self.g.explore([()], self.transfer, self.refine)


def search_kinds(tu, ts, f, kinds, depth, seen=None):
    """kinds of '.' searches ('last' / 'first' -> example call) made by f or by file-local / member helpers it calls;
    returns whether the last separator is searched"""
    seen = seen if seen is not None else set()
    if f['id'] in seen or depth > 3 or tu.cfg(f) is None:
        return False
    seen.add(f['id'])
    has_sep = False
    for b, i, n in tu.cfg(f).stmts():
        k = n.get('kind')
        q = tu.sd(n).get('q') or ''
        if k == 'CXXMemberCallExpr' and last_name(q) in FIND_LAST + FIND_DELIM and q.startswith('std::basic_string<'):
            s, obj, args = tu.call_parts(n)
            last = last_name(q) in FIND_LAST
            if args and ts.is_dot(args[0]):
                kinds.setdefault('last' if last else 'first', n)
            if args and ts.is_sep(args[0]) and last:
                has_sep = True
        elif k == 'CallExpr' and marks_scan(tu, tu.callee_fn(n)) is not None:
            ms = marks_scan(tu, tu.callee_fn(n))
            kinds.setdefault('last' if ms['guarded'] else 'first', n)
            has_sep = True
        elif k in ('CallExpr', 'CXXMemberCallExpr'):
            hf = tu.callee_fn(n)
            if hf is not None and not hf['dep'] and (not hf.get('rec') or hf.get('rec') == FNAME) and \
                    (is_int_ct(tu.sd(n).get('ct')) or (hf.get('rec') == FNAME and last_name(hf['q']) in CUT_SPEC) or
                     (not hf.get('rec') and 'basic_string' in (tu.sd(n).get('ct') or '') and
                      any('basic_string' in p_['ct'] and p_['ct'].startswith('const ') for p_ in hf.get('params', [])))) and \
                    tu.fn_file(hf) == tu.fn_file(f):
                has_sep = search_kinds(tu, ts, hf, kinds, depth + 1, seen) or has_sep
    return has_sep


def filename_field(tu):
    for r in tu.records.values():
        if r.get('q') == FNAME:
            fs = [fl for fl in r.get('fields', []) if 'basic_string' in fl['ct']]
            if len(fs) == 1:
                return fs[0]['name']
    return None


def check_filename(ctx, tu):
    R1, R8 = 'R-C18-1', 'R-C18-8'
    ctx.describe(R1, "FileName: the position of the last '.' is used as an extension boundary only on paths on which it was "
                     "compared with the position of the last path separator (a dot in a directory name is not an extension dot)")
    ctx.describe(R8, 'cut points: path = [0, sep+1), base = [sep+1, end), ext = [dot+1, end), dropExt = [0, dot), '
                     'name = [sep+1, dot), setExt = [0, dot) + ext; without a (valid) dot the whole remainder')
    field = filename_field(tu)
    if field is None:
        ctx.broken('R-C18-1: cannot identify the string member of %s' % FNAME)
        return 0, 0
    n1 = n8 = 0
    searches = {}
    tstates = {}
    composes = []
    for f in sorted(tu.functions.values(), key=lambda f: f['l']):
        if f.get('rec') != FNAME or f['dep'] or tu.cfg(f) is None or f.get('ctor') or f.get('dtor'):
            continue
        ts = FileNameTS(tu, f, field)
        # does the function look for a dot or a separator in the name?
        kinds = {}
        has_sep = search_kinds(tu, ts, f, kinds, 0)
        has_dot = bool(kinds)
        name = last_name(f['q'])
        if has_dot:
            searches[name] = (kinds, f)
            tstates[name] = ts
        if not (has_dot or has_sep):
            continue
        file, fname = tu.fn_file(f), fn_name(f)
        inst = '%s %s' % (fname, f['fty'])
        if not f.get('const'):
            ctx.undecided(R1, inst, 'member is not const: the name may change between the searches', tu.fn_loc(f))
            continue
        ts.run()
        if has_dot:
            n1 += 1
            bad = [u for u in ts.uses if u[0] in ('D', 'D?', 'DX') and u[3] == 'boundary']
            unk = [u for u in ts.uses if u[0] in ('DU', 'DU?')]
            oth = [u for u in ts.uses if u[0] in ('D', 'D?', 'DX') and u[3] != 'boundary']
            if (bad or oth) and ts.unknown_cmp:
                ctx.undecided(R1, inst, 'the dot position is compared in `%s`, which the rule cannot relate to the last path separator'
                              % tu.show(ts.unknown_cmp[0]), tu.loc(ts.unknown_cmp[0]))
            elif oth and not bad:
                ctx.undecided(R1, inst, 'the dot position `%s` flows into an expression the rule does not follow' % oth[0][1],
                              tu.loc(oth[0][2]))
            elif bad:
                seen = set()
                for cur, vn, node, how in bad:
                    if (cur, node['id']) in seen:
                        continue
                    seen.add((cur, node['id']))
                    par = node
                    for _ in range(6):
                        p2 = tu.par(par)
                        if p2 is None or p2.get('kind') in ('ReturnStmt', 'DeclStmt', 'CompoundStmt', 'IfStmt'):
                            break
                        par = p2
                    why = {'D': "`%s` holds the position of the last '.' of the whole name and is used here without having been "
                                'compared with the last path separator: a dot in a directory name is taken for the extension dot '
                                '("/a.b/c")',
                           'D?': "`%s` holds the result of searching the last '.' of the whole name and is used here without "
                                 'having been compared with npos and the last path separator',
                           'DX': "`%s` is used here although it is known to lie before the last path separator"}[cur] % vn
                    ctx.violation(R1, inst, '%s; in `%s`' % (why, tu.show(par)), tu.loc(node),
                                  key='%s|%s|%s|dot-unguarded' % (R1, file, fname),
                                  path=['%s: %s' % (tu.fn_loc(f), f['q']), 'use at %s: %s' % (tu.loc(node), tu.show(par))])
            elif unk:
                ctx.undecided(R1, inst, "the '.' is searched in a string the rule cannot relate to the last component", tu.loc(unk[0][2]))
            else:
                ctx.ok(R1, inst, "every use of the dot position is reached only after the comparison with the separator "
                       '(or the dot is searched in the last component only)', tu.fn_loc(f))
        spec = CUT_SPEC.get(name)
        if spec is None:
            continue
        tvars = set(ts.x.vars)
        for node, sv, d in ts.returns:
            n8 += 1
            dstate, sstate = state_class(d, tvars)
            unguarded = dstate == 'valid-unguarded'
            if unguarded:
                # not compared with the separator (R-C18-1 reports that): a cut made at the dot must still be the right cut
                dstate = 'valid'
            want = spec(dstate, sstate)
            if unguarded and want is not None and not mentions_dot(canon_str(sv, sstate)):
                want = None
            rinst = '%s: `%s` [dot: %s, separator: %s]' % (fname, tu.show(node), dstate, sstate)
            if want is None:
                ctx.ok(R8, rinst, 'state not specific enough to prescribe a cut (covered by R-C18-1 / other paths)', tu.loc(node),
                       nontrivial=False)
                continue
            got = canon_str(sv, sstate)
            if isinstance(got, tuple) and got and got[0] == 'compose':
                composes.append((f, name, node, got, rinst))
                continue
            if got in want:
                ctx.ok(R8, rinst, 'returns %s' % show_str(got), tu.loc(node))
            elif has_T(got):
                ctx.undecided(R8, rinst, 'cannot classify the returned string (%s)' % show_str(got), tu.loc(node))
            elif d.get('$dotlast') is True and ts.sib_state(d) == 'EXT' and not mentions_dot(got):
                ctx.violation(R8, rinst, 'returns %s, expected %s: this return is reached when ext() returned an empty string, which '
                              'the code takes for "no extension"; ext() is also empty when the last component ends in its extension '
                              'dot ("notes.", ".."), and then the dot must still be cut off (dropExt().base() != name(), setExt(".x") '
                              'gives "notes..x")' % (show_str(got), ' or '.join(sorted({show_str(w) for w in want}))),
                              tu.loc(node), key='%s|%s|%s|empty-ext-taken-for-no-dot' % (R8, file, fname))
            else:
                ctx.violation(R8, rinst, 'returns %s, expected %s' % (show_str(got), ' or '.join(sorted({show_str(w) for w in want}))),
                              tu.loc(node), key='%s|%s|%s|cut' % (R8, file, fname))
    # ---- search agreement: every sibling locates the extension dot with the same search as ext()
    ref = searches.get('ext')
    if ref is not None and set(ref[0]) == {'first'} and marks_scan(tu, tu.callee_fn(ref[0]['first'])) is not None:
        node = ref[0]['first']
        ms_ = marks_scan(tu, tu.callee_fn(node))
        n1 += 1
        ctx.violation(R1, '%s: which dot starts the extension' % fn_name(ref[1]),
                      "the scan in `%s` stores every '.' it passes on its way back to the separator into `%s`, so what is left is the "
                      "FIRST '.' of the last component: ext() of \"a.tar.gz\" becomes \"tar.gz\" and name() \"a\"; the extension "
                      "starts behind the LAST '.' (the scan must keep the first dot it meets)" % (fn_name(ms_['fn']), ms_['dot']),
                      tu.loc(node), key='%s|%s|%s|dot-search-first' % (R1, tu.fn_file(ref[1]), fn_name(ref[1])))
    for name in sorted(searches):
        if name == 'ext' or name not in CUT_SPEC:
            continue
        kinds, f = searches[name]
        inst = '%s: dot search agrees with ext()' % fn_name(f)
        if ref is None or len(ref[0]) != 1:
            ctx.undecided(R1, inst, "ext() does not locate the extension dot with exactly one kind of search", tu.fn_loc(f))
            continue
        want = list(ref[0])[0]
        words = {'last': "the last '.'", 'first': "the first '.'"}
        wrong = [k for k in kinds if k != want]
        if wrong:
            node = kinds[wrong[0]]
            ctx.violation(R1, inst, "`%s` locates the extension dot as %s while ext() uses %s (`%s`): for a last component with "
                          "two dots (\"a.tar.gz\") the siblings cut at different dots and base() != name() + '.' + ext()"
                          % (tu.show(node), words[wrong[0]], words[want], tu.show(list(ref[0].values())[0])), tu.loc(node),
                          key='%s|%s|%s|dot-search-%s-vs-%s' % (R1, tu.fn_file(f), fn_name(f), wrong[0], want))
        else:
            ctx.ok(R1, inst, 'searches %s like ext()' % words[want], tu.fn_loc(f))
    # ---- boundary agreement: a dot that is the first character of the last component (".bashrc")
    rts = tstates.get('ext')
    rcls = {b[0] for b in rts.boundaries} if rts is not None else set()
    if not rcls:
        rcls = {'lt'} if rts is not None and not rts.unknown_cmp else set()   # no comparison with the start: a leading dot counts
    for name in sorted(tstates):
        if name == 'ext' or name not in CUT_SPEC:
            continue
        ts = tstates[name]
        f = ts.f
        inst = '%s: leading dot of the last component treated like ext()' % fn_name(f)
        mine = {b[0] for b in ts.boundaries}
        if len(rcls) != 1 or ts.unknown_cmp or (rts is not None and rts.unknown_cmp):
            ctx.undecided(R1, inst, 'cannot tell how ext() / %s compare the dot with the start of the last component' % name, tu.fn_loc(f))
            continue
        want = list(rcls)[0]
        if not mine:
            mine = {'lt'}
        wrong = [b for b in ts.boundaries if b[0] != want]
        if wrong and mine != {want}:
            node = wrong[0][1]
            ctx.violation(R1, inst, 'for a last component whose last dot is its first character (".bashrc", "dir/.config") `%s` decides '
                          '"%s" while ext() decides "%s": the siblings disagree on where the extension begins (%s)'
                          % (tu.show(node), 'no extension' if wrong[0][0] == 'le' else 'extension dot',
                             'no extension' if want == 'le' else 'extension dot',
                             'setExt(".x") gives ".bashrc.x" although name() is "" and ext() is "bashrc"' if name == 'setExt'
                             else 'base() != name() + "." + ext() or dropExt/setExt do not recompose'), tu.loc(node),
                          key='%s|%s|%s|dot-boundary-%s-vs-%s' % (R1, tu.fn_file(f), fn_name(f), wrong[0][0], want))
        else:
            ctx.ok(R1, inst, 'boundary `dot %s start` like ext()' % ('<' if want == 'lt' else '<='), tu.fn_loc(f), nontrivial=bool(ts.boundaries))
    # ---- an accessor computed from the result of another cut: X().base() evaluates base() on a FileName that was
    #      re-normalised by the constructor (trailing separators stripped)
    for f, name, node, got, rinst in composes:
        outer, inner = got[1], got[2]
        file, fname = tu.fn_file(f), fn_name(f)
        if name == 'name' and outer == 'base' and inner == 'dropExt' and len(rcls) == 1:
            if 'lt' in rcls:
                ctx.violation(R8, rinst, 'name() is computed as dropExt().base(): when the extension dot is the first character of the last '
                              'component ("d/.bashrc", which ext() treats as extension "bashrc") dropExt() yields "d/", the FileName '
                              'constructor strips that trailing separator, and base() of the result is the parent directory "d" instead '
                              'of the empty name: name() is no longer taken from the last component and base() != name() + "." + ext()',
                              tu.loc(node), key='%s|%s|%s|cut-through-renormalised-temporary' % (R8, file, fname))
            else:
                ctx.ok(R8, rinst, 'dropExt().base(): the extension dot is never the first character of the last component, so the '
                       'intermediate name cannot end in a separator', tu.loc(node))
        else:
            ctx.undecided(R8, rinst, 'cannot classify %s() of the temporary returned by %s()' % (outer, inner), tu.loc(node))
    return n1, n8


def state_class(d, tvars):
    """(dot state: open | valid | valid-unguarded | none,  separator state: open | nosep | sep) of a typestate at a return"""
    dots = [{'DB': 'DG', 'DB?': 'DG?'}.get(w, w) for k2, w in d.items()
            if w in ('D', 'D?', 'DG', 'DG?', 'DX', 'DU', 'DU?', 'DB', 'DB?')
            and not (isinstance(k2, tuple) and k2 and k2[0] == 'call' and
                     any(w2 in ('N', w, w.rstrip('?')) for k3, w2 in d.items() if not isinstance(k3, tuple) and k3 in tvars))]
    nosep = bool(d.get('$nosep'))
    seps = [w for w in d.values() if w in ('S?', 'S', 'L')]
    if any(w in ('D?', 'DU', 'DU?', 'DG?') for w in dots):
        dstate = 'open'
    elif 'DG' in dots:
        dstate = 'valid'
    elif 'D' in dots:
        dstate = 'valid-unguarded'
    else:
        dstate = 'none'     # no dot found, or only one in a directory
    if 'S?' in seps and not nosep:
        sstate = 'open'
    else:
        sstate = 'nosep' if nosep else 'sep'
    return dstate, sstate


def mentions_dot(s):
    if s in ('D', 'D+1', 'DG', 'D-L', 'DG+1'):
        return True
    if isinstance(s, tuple):
        return any(mentions_dot(y) for y in s)
    return False


def has_T(s):
    if s == 'T':
        return True
    if isinstance(s, tuple):
        return any(has_T(y) for y in s)
    return False


def canon_str(s, sstate):
    """normalise: substr(a, rest-of-string) == substr(a); substr(0) == whole; without separator L == 0"""
    if isinstance(s, tuple) and s[0] == 'sub':
        a, n = s[1], s[2]
        if sstate == 'nosep' and a == 'L':
            a = 'Z'
        if n == 'LEN' and a == 'Z':
            n = None
        if n == 'LEN-L' and a == 'L':
            n = None
        if sstate == 'nosep':
            if n == 'D-L':
                n = 'D'
            if n == 'L':
                n = 'Z'
        if a == 'Z' and n is None:
            return 'whole'
        if n == 'Z':
            return 'empty'
        if n == 'D-L' and a == 'L':
            return ('seg', 'L', 'D')
        if a == 'Z' and n is not None:
            return ('seg', 'Z', n)
        if n is None:
            return ('seg', a, 'LEN')
        return ('sub', a, n)
    if isinstance(s, tuple) and s[0] == 'cat':
        return ('cat', canon_str(s[1], sstate), canon_str(s[2], sstate))
    if isinstance(s, tuple) and s[0] == 'param':
        return 'param'
    return s


def show_str(s):
    names = {'Z': '0', 'L': 'sep+1', 'D': 'dot', 'D+1': 'dot+1', 'LEN': 'end', 'DG': 'dot', 'S': 'sep', 'T': '?'}
    if isinstance(s, tuple) and s[0] == 'seg':
        return 'name[%s, %s)' % (names.get(s[1], s[1]), names.get(s[2], s[2]))
    if isinstance(s, tuple) and s[0] == 'sub':
        return 'name.substr(%s, %s)' % (names.get(s[1], s[1]), names.get(s[2], s[2]))
    if isinstance(s, tuple) and s[0] == 'cat':
        return '%s + %s' % (show_str(s[1]), show_str(s[2]))
    return {'whole': 'the whole name', 'empty': 'the empty string', 'param': '<argument>', 'T': '<unknown>'}.get(s, str(s))


def _spec_path(dstate, sstate):
    if sstate == 'nosep':
        return ['empty']
    if sstate == 'sep':
        return [('seg', 'Z', 'L')]
    return None


def _spec_base(dstate, sstate):
    if sstate == 'nosep':
        return ['whole']
    if sstate == 'sep':
        return [('seg', 'L', 'LEN')]
    return None


def _spec_ext(dstate, sstate):
    if dstate == 'valid':
        return [('seg', 'D+1', 'LEN')]
    if dstate == 'none':
        return ['empty']
    return None


def _spec_dropext(dstate, sstate):
    if dstate == 'valid':
        return [('seg', 'Z', 'DG'), ('seg', 'Z', 'D')]
    if dstate == 'none':
        return ['whole']
    return None


def _spec_name(dstate, sstate):
    first = 'Z' if sstate == 'nosep' else 'L'
    if sstate == 'open':
        return None
    if dstate == 'valid':
        return [('seg', first, 'D'), ('seg', first, 'DG')]
    if dstate == 'none':
        return ['whole'] if first == 'Z' else [('seg', 'L', 'LEN')]
    return None


def _spec_setext(dstate, sstate):
    if dstate == 'valid':
        return [('cat', ('seg', 'Z', 'DG'), 'param'), ('cat', ('seg', 'Z', 'D'), 'param')]
    if dstate == 'none':
        return [('cat', 'whole', 'param')]
    return None


CUT_SPEC = {'path': _spec_path, 'base': _spec_base, 'ext': _spec_ext, 'dropExt': _spec_dropext, 'name': _spec_name,
            'setExt': _spec_setext}


# ====================================================================================================
#  R-C18-4  PseudoURL::getValue (last duplicate wins, throws when absent) / hasParam (any match)
# ====================================================================================================
URL = 'rkcommon::utility::PseudoURL'
INF = float('inf')


class MatchScan:
    """scan of the name=value list of one PseudoURL member: the match test, its loop, what happens on a match"""

    def __init__(self, tu, f, helper=False):
        self.tu = tu
        self.f = f
        self.x = FnX(tu, f)
        self.g = self.x.g
        self.why = None
        self.match = None
        self.direction = None
        self.index = None
        self.helper = helper
        self._find_match()

    def _find_match(self):
        tu, x = self.tu, self.x
        name_params = [p['id'] for p in self.f.get('params', []) if 'basic_string' in p['ct'] and 'vector' not in p['ct']]
        if not self.helper:
            name_params = name_params[:1]
        cands = []
        for b in self.g.blocks.values():
            if b.cond is None or len(b.succ) != 2:
                continue
            c = tu.strip(deciding_cond(tu, b, self.g), casts=True)
            neg = False
            while c is not None and c.get('kind') == 'UnaryOperator' and c.get('opcode') == '!':
                neg = not neg
                c = tu.strip(tu.kids(c)[0], casts=True)
            if c is None or c.get('kind') != 'CXXOperatorCallExpr':
                continue
            q = tu.sd(c).get('q') or ''
            if q not in ('std::operator==', 'std::operator!='):
                continue
            if q.endswith('!='):
                neg = not neg
            ks = [tu.strip(y, casts=True) for y in tu.kids(c)[1:]]
            if len(ks) != 2:
                continue
            fi = [i for i, y in enumerate(ks) if y.get('kind') == 'MemberExpr' and y.get('name') in ('first', 'second')
                  and (tu.sd(y).get('q') or '').startswith('std::pair<')]
            pi = [i for i, y in enumerate(ks) if x.var_of(y)[0] in name_params]
            if len(fi) == 1 and len(pi) == 1 and fi[0] != pi[0]:
                cands.append((b, c, ks[fi[0]], neg))
        if len(cands) != 1:
            self.why = 'expected one comparison of a parameter name (`.first`) with the argument, found %d' % len(cands)
            return
        b, c, fe, neg = cands[0]
        self.match = {'block': b, 'cond': c, 'field': fe.get('name'), 'elem': tu.kids(fe)[0] if tu.kids(fe) else None,
                      'true_succ': b.succ[1 if neg else 0], 'false_succ': b.succ[0 if neg else 1]}
        # the loop around it
        self.header = None
        for h in loops_of(self.x):
            body = CountLoop._body_blocks(_Hdr(self.x, h))
            if b.id in body:
                if self.header is not None:
                    self.why = 'the name comparison sits in nested loops'
                    return
                self.header = h
                self.body = body
        if self.header is None:
            self.why = 'the name comparison is not inside a loop over the parameters'
            return
        self._direction()

    def _direction(self):
        tu, x = self.tu, self.x
        hb = self.g.blocks[self.header]
        self.direction = None
        self.index = None
        term = tu.node(hb.term) if hb.term else None
        el = tu.strip(self.match['elem'], casts=True) if self.match['elem'] is not None else None
        if term is not None and term.get('kind') == 'CXXForRangeStmt':
            # range-for over this->params: ascending by the language rules
            rng = None
            for vd in tu.walk(term):
                if vd.get('kind') == 'VarDecl' and (vd.get('name') or '').startswith('__range'):
                    rng = vd
                    break
            init = tu.strip(tu.kids(rng)[0], casts=True) if rng is not None and tu.kids(rng) else None
            if init is not None and init.get('kind') == 'MemberExpr' and x.objkey(init)[0] == 'field':
                # the element compared must be the loop variable
                lv = None
                for vd in tu.kids(term):
                    if vd.get('kind') == 'DeclStmt':
                        for v2 in tu.kids(vd):
                            if v2.get('kind') == 'VarDecl' and not (v2.get('name') or '').startswith('__'):
                                lv = v2
                if lv is not None and el is not None and x.var_of(el)[0] == lv['id']:
                    self.direction = 'asc'
                    self.elemvar = lv['id']
                    return
            self.why = 'cannot relate the range-for to the parameter list'
            return
        lp = CountLoop(x, self.header)
        if not lp.ok:
            self.why = lp.why
            return
        self.lp = lp
        # element must be params[index]
        if el is None or el.get('kind') != 'CXXOperatorCallExpr' or last_name(tu.sd(el).get('q')) != 'operator[]':
            self.why = 'the compared element is not list[index]'
            return
        ks = tu.kids(el)[1:]
        lk = x.objkey(ks[0])
        eidx = x.poly_at(ks[1], x.pos_of(el))
        self.elem_index = eidx
        if self.helper and lk[0] in ('field', 'var') and (eidx - Poly.atom(lp.ivar)).as_int() == -1 and lp.step == -1 and \
                not lp.ascending_test and lp.lower_incl.as_int() == 1 and lp.init == Poly.atom(('size', lk)):
            # for (i = size; i > 0; --i) ... list[i - 1]: the whole list from the back
            self.listkey = lk
            self.index = lp.ivar
            self.direction = 'desc'
            return
        if self.helper and lk[0] in ('field', 'var') and (eidx - Poly.atom(lp.ivar)).as_int() == -1 and lp.step == -1 and \
                not lp.ascending_test and lp.lower_incl.as_int() not in (None, 1) and lp.init == Poly.atom(('size', lk)):
            self.listkey = lk
            self.index = lp.ivar
            self.direction = 'desc-partial'
            self.why = 'the scan from the back stops at index %d instead of 0' % (lp.lower_incl.as_int() - 1)
            return
        if self.helper and lk[0] == 'var' and eidx == Poly.atom(lp.ivar):
            self.listkey = lk
            self.index = lp.ivar
            if lp.step == 1 and lp.ascending_test and lp.init.as_int() == 0 and lp.bound_excl == Poly.atom(('size', lk)):
                self.direction = 'asc'
            else:
                self.why = 'loop `%s` is not a scan of the whole list' % tu.show(lp.cond)
            return
        if lk[0] != 'field' or eidx != Poly.atom(lp.ivar):
            self.why = 'the compared element is not list[loop index]'
            return
        self.listkey = lk
        self.index = lp.ivar
        if lp.step == 1 and lp.ascending_test and lp.init.as_int() == 0 and lp.bound_excl == Poly.atom(('size', self.listkey)):
            self.direction = 'asc'
        elif lp.step == 1 and lp.ascending_test:
            self.direction = 'asc-partial'
            self.why = 'the scan covers [%s, %s) instead of the whole list' % (lp.init.show(), lp.bound_excl.show())
        else:
            self.why = 'loop `%s` with step %s is not a plain ascending scan' % (tu.show(lp.cond), lp.step)

    def reach_blocks(self, start, avoid):
        seen = {start}
        st = [start]
        while st:
            b = st.pop()
            if avoid is not None and b == avoid:
                continue
            for s in self.g.blocks[b].succ:
                if s is not None and s not in seen:
                    seen.add(s)
                    st.append(s)
        return seen

    def exits_on_match(self):
        """can the function be left / the loop be abandoned after a match without looking at later elements?"""
        r = self.reach_blocks(self.match['true_succ'], self.header)
        return self.g.exit in r


class _Hdr:
    def __init__(self, x, h):
        self.x = x
        self.header = h


def explore_match(ms, tracked):
    """explore with state (matched, value of the tracked local); returns list of (matched, val, kind, node)
    kind in 'return' / 'throw'.  tracked: decl id of the local that remembers the match (or None)."""
    tu, x, g = ms.tu, ms.x, ms.g
    recs = []
    mb = ms.match['block']

    def bounds_of(val):
        def bounds(atom):
            if isinstance(atom, tuple) and atom[0] == 'var' and atom[1] == tracked:
                if isinstance(val, tuple) and val[0] == 'c':
                    return (val[1], val[1])
                if val == 'idx':
                    return (0, INF)
                if val == 'ptr':
                    return (1, INF)
            return (-INF, INF)
        return bounds

    def transfer(blk, idx, el, st):
        if el[0] != 'S':
            return [st]
        n = tu.node(el[1])
        if n is None:
            return [st]
        matched, val = st
        k = n.get('kind')
        if k == 'ReturnStmt':
            recs.append((matched, val, 'return', n))
            return [st]
        if k == 'CXXThrowExpr':
            recs.append((matched, val, 'throw', n))
            return []
        if tracked is not None:
            newv = None
            if k == 'DeclStmt':
                for vd in tu.kids(n):
                    if vd.get('id') == tracked:
                        init = tu.kids(vd)[0] if vd.get('init') and tu.kids(vd) else None
                        newv = classify_val(ms, init, (blk.id, idx))
            elif k == 'BinaryOperator' and n.get('opcode') == '=' and x.var_of(tu.kids(n)[0])[0] == tracked:
                newv = classify_val(ms, tu.kids(n)[1], (blk.id, idx))
            if newv is not None:
                return [(matched, newv)]
        return [st]

    def refine(blk, si, st):
        matched, val = st
        if blk.id == mb.id:
            hit = blk.succ[si] == ms.match['true_succ'] and (ms.match['true_succ'] != ms.match['false_succ'])
            return [('Y' if hit else matched, val)]
        c = deciding_cond(tu, blk, g)
        if c is None or tracked is None:
            return [st]
        nf = x.cond_at(c, si == 0, x.pos_of(c))
        from rkstatic.x_expr import decide_bool
        try:
            v = decide_bool(nf, bounds_of(val))
        except Exception:
            v = None
        if v is False:
            return []
        return [st]

    g.explore([('N', 'T')], transfer, refine)
    return recs


def classify_val(ms, e, pos):
    tu, x = ms.tu, ms.x
    if e is None:
        return 'T'
    p = x.poly_at(e, pos)
    c = p.as_int()
    if c is not None:
        return ('c', c)
    if ms.index is not None and p == Poly.atom(ms.index):
        return 'idx'
    s = tu.strip(e, casts=True)
    if s is not None and s.get('kind') == 'UnaryOperator' and s.get('opcode') == '&':
        return 'ptr'
    return 'T'


# ====================================================================================================
#  how the constructor stores a parameter: append always / update an existing entry of the same name in place
# ====================================================================================================
def _is_empty_string(tu, x, e):
    e = x.peel(e)
    if e is None:
        return False
    for _ in range(6):
        k = e.get('kind')
        if k == 'StringLiteral':
            return e.get('value') == '""'
        if k in ('CXXConstructExpr', 'CXXTemporaryObjectExpr', 'CXXFunctionalCastExpr'):
            ks = [y for y in tu.kids(e) if y.get('kind') != 'CXXDefaultArgExpr']
            if not ks:
                return True
            if len(ks) == 1:
                e = x.peel(ks[0])
                if e is None:
                    return False
                continue
        return False
    return False


def _pair_parts(tu, x, call):
    """(name expr, value expr) of the pair appended by push_back(make_pair(a, b)) / push_back(pair(a, b)) / emplace_back(a, b)"""
    s, obj, args = tu.call_parts(call)
    nm = last_name(s.get('q'))
    if nm == 'emplace_back' and len(args) == 2:
        return args[0], args[1]
    if len(args) != 1:
        return None
    e = x.peel(args[0])
    for _ in range(6):
        if e is None:
            return None
        k = e.get('kind')
        if k == 'CallExpr' and tu.sd(e).get('q') == 'std::make_pair' and len(tu.kids(e)) == 3:
            return tu.kids(e)[1], tu.kids(e)[2]
        if k in ('CXXConstructExpr', 'CXXTemporaryObjectExpr', 'CXXFunctionalCastExpr'):
            ks = [y for y in tu.kids(e) if y.get('kind') != 'CXXDefaultArgExpr']
            if len(ks) == 2 and 'pair' in (tu.sd(e).get('q') or tu.sd(e).get('ct') or ''):
                return ks[0], ks[1]
            if len(ks) == 1:
                e = x.peel(ks[0])
                continue
        return None
    return None


def store_scheme(tu, f, x, sites, fq):
    """Can the list hold two entries with the same name after the constructor?
    returns dict(dup='yes'|'no'|'unknown', unguarded=[append nodes], updates=[(node, pos)], problems=[(kind, msg, node)],
                 why=text)"""
    g = x.g
    res = {'dup': 'yes', 'unguarded': [], 'updates': [], 'problems': [], 'why': 'every token is appended', 'und': []}
    # ---- searches: auto it = std::find_if(list.begin(), list.end(), [&](const pair &p) { return p.first == NAME; })
    searches = {}
    for d, v in x.vars.items():
        init = x.single_init(d)
        e = x.peel(init) if init is not None else None
        if e is None or e.get('kind') != 'CallExpr' or tu.sd(e).get('q') != 'std::find_if':
            continue
        args = tu.kids(e)[1:]
        if len(args) != 3:
            continue
        okr = all(any(y.get('kind') == 'MemberExpr' and tu.sd(y).get('q') == fq for y in tu.walk(a)) for a in args[:2])
        lam = None
        for y in tu.walk(args[2]):
            if y.get('kind') == 'LambdaExpr':
                lam = y
        namevar = None
        if lam is not None:
            op = tu.functions.get(tu.sd(lam).get('op'))
            body = tu.body(op) if op is not None else None
            rets = [y for y in tu.walk(body) if y.get('kind') == 'ReturnStmt'] if body is not None else []
            if len(rets) == 1 and tu.kids(rets[0]):
                c = tu.strip(tu.kids(rets[0])[0], casts=True)
                if c is not None and c.get('kind') == 'CXXOperatorCallExpr' and tu.sd(c).get('q') == 'std::operator==':
                    ks = [tu.strip(y, casts=True) for y in tu.kids(c)[1:]]
                    fi = [y for y in ks if y.get('kind') == 'MemberExpr' and y.get('name') == 'first']
                    ot = [y for y in ks if y.get('kind') == 'DeclRefExpr']
                    if len(fi) == 1 and len(ot) == 1:
                        namevar = ot[0].get('referencedDecl', {}).get('id')
        if okr and namevar is not None:
            searches[d] = {'namevar': namevar, 'call': e, 'name': v['name']}
        else:
            res['und'].append('cannot read the search `%s`' % tu.show(e))

    def found_guard(pos):
        """[(search var, found?)] for the dominating tests `it != list.end()` / `it == list.end()`"""
        out = []
        for cn, truth, blk in x.guards(pos):
            c = tu.strip(cn, casts=True)
            neg = False
            while c is not None and c.get('kind') == 'UnaryOperator' and c.get('opcode') == '!':
                neg = not neg
                c = tu.strip(tu.kids(c)[0], casts=True)
            if c is None or c.get('kind') != 'CXXOperatorCallExpr' or last_name(tu.sd(c).get('q')) not in ('operator!=', 'operator=='):
                continue
            ks = tu.kids(c)[1:]
            sv = [x.var_of(y)[0] for y in ks if x.var_of(y)[0] in searches]
            isend = any(y.get('kind') == 'CXXMemberCallExpr' and last_name(tu.sd(y).get('q')) in ('end', 'cend') for k2 in ks for y in tu.walk(k2))
            if len(sv) == 1 and isend:
                ne = last_name(tu.sd(c).get('q')) == 'operator!='
                out.append((sv[0], (ne == truth) != neg))
        return out

    # ---- in-place updates: it->second = V  under `found`
    for b, i, n in g.stmts():
        if n.get('kind') != 'CXXOperatorCallExpr' or last_name(tu.sd(n).get('q')) != 'operator=' or \
                not (tu.sd(n).get('q') or '').startswith('std::basic_string<'):
            continue
        lhs = tu.strip(tu.kids(n)[1], casts=True)
        if lhs is None or lhs.get('kind') != 'MemberExpr' or lhs.get('name') not in ('first', 'second') or \
                not (tu.sd(lhs).get('q') or '').startswith('std::pair<'):
            continue
        base = tu.strip(tu.kids(lhs)[0], casts=True)
        sv = None
        for y in tu.walk(base) if base is not None else ():
            if y.get('kind') == 'DeclRefExpr' and y.get('referencedDecl', {}).get('id') in searches:
                sv = y['referencedDecl']['id']
        pos = (b.id, i)
        if sv is None or lhs.get('name') != 'second' or (sv, True) not in found_guard(pos):
            res['und'].append('an entry of the list is modified by `%s`' % tu.show(n))
            continue
        res['updates'].append({'node': n, 'pos': pos, 'search': sv, 'value': tu.kids(n)[2]})
    if not searches and not res['updates'] and not res['und']:
        res['unguarded'] = [nd for nd, pos in sites]
        return res
    if res['und']:
        res['dup'] = 'unknown'
        res['why'] = res['und'][0]
        return res
    # ---- every append: is it made only when no entry with its own name exists, and paired with an overwrite?
    guarded = 0
    for nd, pos in sites:
        parts = _pair_parts(tu, x, nd)
        nv = x.var_of(parts[0])[0] if parts is not None else None
        gs = [(sv, fnd) for sv, fnd in found_guard(pos) if not fnd and searches[sv]['namevar'] == nv and nv is not None]
        if not gs:
            res['unguarded'].append(nd)
            continue
        # the name / search must still be current at the append
        sv = gs[0][0]
        spos = x.pos_of(searches[sv]['call'])
        if not x.clean(spos, pos, [nv]) or x.vars[nv]['escaped']:
            res['dup'] = 'unknown'
            res['why'] = 'the name `%s` may change between the search and the append' % x.vars[nv]['name']
            return res
        guarded += 1
        ups = [u for u in res['updates'] if u['search'] == sv]
        if not ups:
            res['problems'].append(('store-once-keeps-first', 'when `%s` finds an entry of the same name nothing is stored: the value of '
                                    'the earlier occurrence is kept instead of the last' % tu.show(searches[sv]['call']), nd))
            continue
        for u in ups:
            uv, av = x.var_of(u['value'])[0], x.var_of(parts[1])[0]
            same = (uv is not None and uv == av) or (_is_empty_string(tu, x, u['value']) and _is_empty_string(tu, x, parts[1]))
            if not same:
                res['dup'] = 'unknown'
                res['why'] = 'cannot see that the in-place update `%s` stores the value of the current token' % tu.show(u['node'])
                return res
    if res['unguarded']:
        res['dup'] = 'yes'
        res['why'] = 'entries are updated in place only for some token forms'
    else:
        res['dup'] = 'no'
        res['why'] = 'every append is made only when no entry of that name exists, otherwise the entry is overwritten in place'
    return res


def url_store_scheme(tu):
    """store scheme of the PseudoURL constructor (shared by R-C18-4 and R-C18-9)"""
    fq = URL + '::params'
    for f in tu.fns(q=URL + '::PseudoURL'):
        if f['dep'] or tu.cfg(f) is None or f.get('implicit') or f.get('ctor') in ('copy', 'move') or not f.get('params'):
            continue
        x = FnX(tu, f)
        sites = []
        for b, i, n in x.g.stmts():
            if n.get('kind') == 'CXXMemberCallExpr' and last_name(tu.sd(n).get('q')) in VEC_APPEND:
                s, obj, args = tu.call_parts(n)
                if obj is not None and tu.sd(tu.strip(obj, casts=True)).get('q') == fq:
                    sites.append((n, (b.id, i)))
        sch = store_scheme(tu, f, x, sites, fq)
        sch['x'] = x
        sch['f'] = f
        return sch
    return {'dup': 'unknown', 'why': 'constructor not found', 'unguarded': [], 'updates': [], 'problems': []}


def describe_unguarded(tu, sch):
    """which token form still appends without looking for an existing entry"""
    x = sch.get('x')
    out = []
    for nd in sch.get('unguarded', []):
        parts = _pair_parts(tu, x, nd) if x is not None else None
        form = 'a bare name (empty value)' if parts is not None and _is_empty_string(tu, x, parts[1]) else 'name=value'
        out.append('`%s` at %s, i.e. %s' % (tu.show(nd), tu.loc(nd), form))
    return '; '.join(out)


def lookup_helper(tu, hf, dup='yes'):
    """Does the helper hf(list, name) return a pointer to the LAST element of the list whose name matches, or null?
    Recognised shape: scan from the back (index size..1, element list[i-1]) that returns the address of the element at
    the first hit, and null behind the loop.   ('ok', text) | ('bad', kind, message, loc) | ('und', why)"""
    ms = MatchScan(tu, hf, helper=True)
    if ms.match is None:
        return ('und', ms.why or 'no name comparison found')
    if ms.direction is None:
        return ('und', ms.why or 'scan direction not recognised')
    x = ms.x
    loc = tu.loc(ms.match['cond'])
    if ms.match['field'] != 'first':
        return ('bad', 'match-field', 'the argument is compared with `.%s` of the parameter instead of its name `.first`' % ms.match['field'], loc)
    if ms.direction == 'asc' and ms.exits_on_match() and dup == 'yes':
        return ('bad', 'first-match-wins', 'the scan from the front is left on the first match although the constructor can store two '
                'entries with the same name: for a repeated parameter the first value is found instead of the last', loc)
    if ms.direction == 'asc' and ms.exits_on_match() and dup == 'unknown':
        return ('und', 'the scan returns the first match; whether two entries of one name can be stored is not decided')
    if ms.direction == 'desc-partial':
        return ('bad', 'scan-range', ms.why, loc)
    if ms.direction != 'desc' and not (ms.direction == 'asc' and ms.exits_on_match() and dup == 'no'):
        return ('und', 'only a scan from the back is recognised inside a lookup helper (found: %s)' % ms.direction)
    g = x.g
    # on a match: return &list[matched index] at once
    tb = g.blocks[ms.match['true_succ']]
    rets = [tu.node(e[1]) for e in tb.el if e[0] == 'S' and tu.node(e[1]) is not None and tu.node(e[1]).get('kind') == 'ReturnStmt']
    if len(rets) != 1 or ms.header in ms.reach_blocks(ms.match['true_succ'], None):
        return ('bad', 'first-match-wins', 'the scan from the back is not left at the first hit: an earlier duplicate can win', loc) \
            if ms.header in ms.reach_blocks(ms.match['true_succ'], None) else ('und', 'the match branch does not return directly')
    e = tu.strip(tu.kids(rets[0])[0], casts=True) if tu.kids(rets[0]) else None
    okr = False
    if e is not None and e.get('kind') == 'UnaryOperator' and e.get('opcode') == '&':
        t = tu.strip(tu.kids(e)[0], casts=True)
        if t is not None and t.get('kind') == 'CXXOperatorCallExpr' and last_name(tu.sd(t).get('q')) == 'operator[]':
            ks = tu.kids(t)[1:]
            if x.objkey(ks[0]) == ms.listkey and x.poly_at(ks[1], x.pos_of(rets[0])) == ms.elem_index:
                okr = True
    if not okr:
        return ('und', 'the match branch does not return the address of the matching element')
    # every other return is null
    for b, i, nd in g.stmts():
        if nd.get('kind') == 'ReturnStmt' and nd is not rets[0]:
            v = x.poly_at(tu.kids(nd)[0], (b.id, i)).as_int() if tu.kids(nd) else None
            if v != 0:
                return ('und', '`%s` is not a null result' % tu.show(nd))
    return ('ok', 'scan from the back over the whole list, first hit returned by address, else null')


def run_assuming(tu, x, atom_is, bounds_val):
    """explore x's function with the value of one atom assumed ((0,0) = null / (1,inf) = non-null): returns
    [(kind 'return'|'throw', node)] reachable under the assumption"""
    from rkstatic.x_expr import decide_bool
    recs = []
    g = x.g

    def bounds(a):
        if atom_is(a):
            return bounds_val
        return (-INF, INF)

    def transfer(blk, idx, el, st):
        if el[0] != 'S':
            return [st]
        n = tu.node(el[1])
        if n is None:
            return [st]
        if n.get('kind') == 'ReturnStmt':
            recs.append(('return', n))
        elif n.get('kind') == 'CXXThrowExpr':
            recs.append(('throw', n))
            return []
        return [st]

    def refine(blk, si, st):
        c = deciding_cond(tu, blk, g)
        if c is None:
            return [st]
        nf = x.cond_at(c, si == 0, x.pos_of(c))
        try:
            v = decide_bool(nf, bounds)
        except Exception:
            v = None
        return [] if v is False else [st]

    g.explore([0], transfer, refine)
    return recs, bounds


def lookup_via_helper(ctx, tu, f, R, inst, key, want, dup='yes'):
    """getValue / hasParam written on top of a lookup helper; want: 'value' or 'bool'.  Returns True if handled."""
    from rkstatic.x_expr import decide_bool
    x = FnX(tu, f)
    cands = []
    for b, i, nd in x.g.stmts():
        if nd.get('kind') == 'CallExpr':
            hf = tu.callee_fn(nd)
            if hf is None or hf['dep'] or hf.get('rec') or tu.cfg(hf) is None:
                continue
            args = tu.kids(nd)[1:]
            keys = [x.objkey(a) for a in args]
            if len(args) == 2 and any(k[0] == 'field' and k[2] == 'params' for k in keys) and \
                    any(k[0] == 'var' and k[1] in x.params for k in keys):
                cands.append((nd, hf, (b.id, i)))
    if len(cands) != 1:
        return False
    call, hf, cpos = cands[0]
    verdict = lookup_helper(tu, hf, dup)
    loc = tu.loc(call)
    hname = fn_name(hf)
    if verdict[0] == 'bad':
        ctx.violation(R, inst, '%s: %s' % (hname, verdict[2]), verdict[3], key='%s|%s|%s|%s' % (R, tu.fn_file(hf), hname, verdict[1]))
        return True
    if verdict[0] == 'und':
        ctx.undecided(R, inst, 'lookup helper %s: %s' % (hname, verdict[1]), tu.fn_loc(hf))
        return True
    # which atom carries the result: a local set once from the call, or the call itself
    tracked = None
    for d, v in x.vars.items():
        init = x.single_init(d)
        if init is not None and x.peel(init) is not None and x.peel(init).get('id') == call.get('id'):
            tracked = d

    def atom_is(a):
        if tracked is not None:
            return isinstance(a, tuple) and a[0] == 'var' and a[1] == tracked
        return isinstance(a, tuple) and a[0] == 'expr' and a[1] == call.get('id')

    bad, und = [], []
    for label, bv in (('absent', (0, 0)), ('found', (1, INF))):
        recs, bounds = run_assuming(tu, x, atom_is, bv)
        if not recs:
            und.append('no exit found for the case `%s`' % label)
        for kind, node in recs:
            if want == 'value':
                if label == 'absent' and kind != 'throw':
                    bad.append(('no-throw', 'the function can return at %s although the lookup found no parameter: it must throw' % tu.loc(node)))
                elif label == 'found' and kind == 'throw':
                    bad.append(('throws-when-found', 'the exception at %s can be reached although the lookup found the parameter' % tu.loc(node)))
                elif label == 'found':
                    e = x.peel(tu.kids(node)[0]) if tu.kids(node) else None
                    okr = False
                    if e is not None and e.get('kind') == 'MemberExpr' and e.get('name') in ('first', 'second') and tracked is not None:
                        base = tu.strip(tu.kids(e)[0], casts=True)
                        while base is not None and base.get('kind') == 'UnaryOperator' and base.get('opcode') == '*':
                            base = tu.strip(tu.kids(base)[0], casts=True)
                        if x.var_of(base)[0] == tracked:
                            okr = True
                            if e['name'] != 'second':
                                bad.append(('returns-name', 'the name `.first` of the matching parameter is returned instead of its value `.second`'))
                    if not okr:
                        und.append('cannot relate the returned `%s` to the looked-up element' % (tu.show(e) if e else '?'))
            else:
                if kind == 'throw':
                    bad.append(('throws', 'hasParam throws at %s' % tu.loc(node)))
                    continue
                e = tu.kids(node)[0] if tu.kids(node) else None
                rv = None
                if e is not None:
                    try:
                        rv = decide_bool(x.cond_at(e, True, x.pos_of(node)), bounds)
                    except Exception:
                        rv = None
                if rv is None:
                    und.append('cannot evaluate the result `%s`' % (tu.show(e) if e is not None else '?'))
                elif label == 'found' and rv is False:
                    bad.append(('false-on-match', '`%s` is false although the lookup found the parameter' % tu.show(node)))
                elif label == 'absent' and rv is True:
                    bad.append(('true-without-match', '`%s` is true although the lookup found nothing' % tu.show(node)))
    if bad:
        seen = set()
        for k, m in bad:
            if (k, m) not in seen:
                seen.add((k, m))
                ctx.violation(R, inst, m, loc, key=key + k)
    elif und:
        for u in sorted(set(und)):
            ctx.undecided(R, inst, u, loc)
    else:
        ctx.ok(R, inst, 'via %s: %s; %s' % (hname, verdict[1], 'absent -> throw, found -> its value' if want == 'value'
                                           else 'true iff found'), loc)
    return True


def name_predicate(tu, lam):
    """for a lambda  [..](const pair &p) { return p.first == NAME; }  ->  (field compared, decl id of NAME, negated?)"""
    op = tu.functions.get(tu.sd(lam).get('op'))
    body = tu.body(op) if op is not None else None
    rets = [y for y in tu.walk(body) if y.get('kind') == 'ReturnStmt'] if body is not None else []
    if len(rets) != 1 or not tu.kids(rets[0]):
        return None
    c = tu.strip(tu.kids(rets[0])[0], casts=True)
    if c is None or c.get('kind') != 'CXXOperatorCallExpr' or tu.sd(c).get('q') not in ('std::operator==', 'std::operator!='):
        return None
    ks = [tu.strip(y, casts=True) for y in tu.kids(c)[1:]]
    fi = [y for y in ks if y.get('kind') == 'MemberExpr' and y.get('name') in ('first', 'second') and
          (tu.sd(y).get('q') or '').startswith('std::pair<')]
    ot = [y for y in ks if y.get('kind') == 'DeclRefExpr']
    if len(fi) != 1 or len(ot) != 1:
        return None
    pbase = tu.strip(tu.kids(fi[0])[0], casts=True) if tu.kids(fi[0]) else None
    if pbase is None or pbase.get('kind') != 'DeclRefExpr' or pbase.get('referencedDecl', {}).get('id') not in [p['id'] for p in op.get('params', [])]:
        return None
    return fi[0].get('name'), ot[0].get('referencedDecl', {}).get('id'), tu.sd(c).get('q').endswith('!=')


def algo_search(tu, x, e, fq):
    """std::find_if / std::any_of over the whole parameter list with a name predicate:
       dict(algo, reverse, field, namevar, call) or None"""
    e = x.peel(e)
    if e is None or e.get('kind') != 'CallExpr' or tu.sd(e).get('q') not in ('std::find_if', 'std::any_of', 'std::none_of'):
        return None
    args = tu.kids(e)[1:]
    if len(args) != 3:
        return None
    ends = []
    for a in args[:2]:
        nm = None
        for y in tu.walk(a):
            if y.get('kind') == 'CXXMemberCallExpr' and last_name(tu.sd(y).get('q')) in ('begin', 'end', 'cbegin', 'cend', 'rbegin', 'rend',
                                                                                          'crbegin', 'crend'):
                s, obj, aa = tu.call_parts(y)
                o = tu.strip(obj, casts=True) if obj is not None else None
                if o is not None and o.get('kind') == 'MemberExpr' and tu.sd(o).get('q') == fq and not aa:
                    nm = last_name(tu.sd(y).get('q'))
        ends.append(nm)
    fwd = ends[0] in ('begin', 'cbegin') and ends[1] in ('end', 'cend')
    rev = ends[0] in ('rbegin', 'crbegin') and ends[1] in ('rend', 'crend')
    if not (fwd or rev):
        return None
    lam = None
    for y in tu.walk(args[2]):
        if y.get('kind') == 'LambdaExpr':
            lam = y
    pr = name_predicate(tu, lam) if lam is not None else None
    if pr is None:
        return None
    return {'algo': last_name(tu.sd(e).get('q')), 'reverse': rev, 'field': pr[0], 'namevar': pr[1], 'neg': pr[2], 'call': e}


def lookup_via_algorithm(ctx, tu, f, R, inst, key, want, sch):
    """getValue / hasParam written with std::find_if / std::any_of over params.  Returns True if handled."""
    fq = URL + '::params'
    x = FnX(tu, f)
    found = []
    for b, i, nd in x.g.stmts():
        if nd.get('kind') == 'CallExpr':
            a = algo_search(tu, x, nd, fq)
            if a is not None:
                found.append(a)
    if len(found) != 1:
        return False
    a = found[0]
    call = a['call']
    loc = tu.loc(call)
    bad, und = [], []
    name_param = f['params'][0]['id'] if f.get('params') else None
    if a['namevar'] != name_param or a['neg']:
        und.append('the predicate of `%s` does not compare with the argument' % tu.show(call))
    if a['field'] != 'first':
        bad.append(('match-field', 'the argument is compared with `.%s` of the parameter instead of its name `.first`' % a['field']))
    if want == 'bool':
        rets = [nd for b, i, nd in x.g.stmts() if nd.get('kind') == 'ReturnStmt']
        e = x.peel(tu.kids(rets[0])[0]) if len(rets) == 1 and tu.kids(rets[0]) else None
        okb = None
        if e is not None and e.get('id') == call.get('id') and a['algo'] in ('any_of', 'none_of'):
            okb = a['algo'] == 'any_of'
        elif e is not None and e.get('kind') == 'CXXOperatorCallExpr' and last_name(tu.sd(e).get('q')) in ('operator!=', 'operator==') \
                and a['algo'] == 'find_if':
            ks = [x.peel(y) for y in tu.kids(e)[1:]]
            isc = [y for y in ks if y is not None and y.get('id') == call.get('id')]
            endn = 'rend' if a['reverse'] else 'end'
            ise = [y for y in ks if y is not None and y.get('kind') == 'CXXMemberCallExpr' and
                   last_name(tu.sd(y).get('q')).lstrip('c') == endn]
            if len(isc) == 1 and len(ise) == 1:
                okb = last_name(tu.sd(e).get('q')) == 'operator!='
        if okb is None:
            und.append('cannot relate the result to `%s`' % tu.show(call))
        elif not okb:
            bad.append(('false-on-match', 'hasParam is true exactly when NO parameter matches'))
    else:
        if a['algo'] != 'find_if':
            und.append('`%s` does not yield the matching element' % tu.show(call))
        else:
            tracked = None
            for d, v in x.vars.items():
                init = x.single_init(d)
                if init is not None and x.peel(init) is not None and x.peel(init).get('id') == call.get('id'):
                    tracked = d
            if tracked is None:
                und.append('the result of `%s` is not kept in a local that is set once' % tu.show(call))
            else:
                if not a['reverse']:
                    if sch['dup'] == 'yes':
                        bad.append(('first-match-wins', 'std::find_if from begin() to end() yields the FIRST parameter of that name, but the '
                                    'constructor can store two entries with the same name (%s): for a repeated parameter the first value '
                                    'is returned instead of the last' % sch['why']))
                    elif sch['dup'] == 'unknown':
                        und.append('find_if yields the first match; whether two entries of one name can be stored is not decided')
                endn = 'rend' if a['reverse'] else 'end'

                def truth_of(c):
                    c = tu.strip(c, casts=True)
                    neg = False
                    while c is not None and c.get('kind') == 'UnaryOperator' and c.get('opcode') == '!':
                        neg = not neg
                        c = tu.strip(tu.kids(c)[0], casts=True)
                    if c is None or c.get('kind') != 'CXXOperatorCallExpr' or last_name(tu.sd(c).get('q')) not in ('operator==', 'operator!='):
                        return None
                    ks = tu.kids(c)[1:]
                    isv = [y for y in ks if x.var_of(y)[0] == tracked]
                    ise = [y for y in ks for z in tu.walk(y) if z.get('kind') == 'CXXMemberCallExpr' and
                           last_name(tu.sd(z).get('q')).lstrip('c') == endn and
                           tu.sd(tu.strip(tu.call_parts(z)[1], casts=True)).get('q') == fq]
                    if len(isv) != 1 or not ise:
                        return None
                    eq = last_name(tu.sd(c).get('q')) == 'operator=='
                    return ('absent-if', eq != neg)     # the comparison is true  <=>  (absent if eq) / (found if ne)
                for label in ('absent', 'found'):
                    recs = []

                    def transfer(blk, idx, el, st, recs=recs):
                        if el[0] != 'S':
                            return [st]
                        n = tu.node(el[1])
                        if n is None:
                            return [st]
                        if n.get('kind') == 'ReturnStmt':
                            recs.append(('return', n))
                        elif n.get('kind') == 'CXXThrowExpr':
                            recs.append(('throw', n))
                            return []
                        return [st]

                    def refine(blk, si, st, label=label):
                        c = deciding_cond(tu, blk, x.g)
                        t = truth_of(c) if c is not None else None
                        if t is None:
                            return [st]
                        cond_true = (label == 'absent') == t[1]
                        return [st] if cond_true == (si == 0) else []
                    x.g.explore([0], transfer, refine)
                    if not recs:
                        und.append('no exit found for the case `%s`' % label)
                    for kind, node in recs:
                        if label == 'absent' and kind != 'throw':
                            bad.append(('no-throw', 'the function can return at %s although no parameter matched: it must throw' % tu.loc(node)))
                        elif label == 'found' and kind == 'throw':
                            bad.append(('throws-when-found', 'the exception at %s can be reached although a parameter matched' % tu.loc(node)))
                        elif label == 'found':
                            e = x.peel(tu.kids(node)[0]) if tu.kids(node) else None
                            okr = False
                            if e is not None and e.get('kind') == 'MemberExpr' and e.get('name') in ('first', 'second'):
                                if tracked in [y.get('referencedDecl', {}).get('id') for y in tu.walk(tu.kids(e)[0]) if y.get('kind') == 'DeclRefExpr']:
                                    okr = True
                                    if e['name'] != 'second':
                                        bad.append(('returns-name', 'the name `.first` of the matching parameter is returned instead of its value `.second`'))
                            if not okr:
                                und.append('cannot relate the returned `%s` to the element found' % (tu.show(e) if e else '?'))
    if bad:
        seen = set()
        for k, m in bad:
            if (k, m) not in seen:
                seen.add((k, m))
                ctx.violation(R, inst, m, loc, key=key + k)
    elif und:
        for u in sorted(set(und)):
            ctx.undecided(R, inst, u, loc)
    else:
        ctx.ok(R, inst, ('std::%s over %s with the name predicate: %s' % (
            a['algo'], 'rbegin()..rend()' if a['reverse'] else 'begin()..end()',
            ('the first hit from the back is the last entry; ' if a['reverse'] else 'at most one entry per name; ') +
            'absent -> throw, found -> its value' if want == 'value' else 'true iff some parameter matches')), loc)
    return True


def sorted_scheme(tu):
    """the constructor groups the list by name behind its last append:  std::stable_sort(params.begin(), params.end(), cmp)  with a
    comparator that looks at the names only and orders them ascending; nothing else rearranges the list.
    {'label', 'fn', 'call'} or None"""
    fq = URL + '::params'
    recs = order_scan(tu, fq)
    if any(k in ('destroy', 'undecided') for k, t, n, f in recs):
        return None
    keeps = [(n, f) for k, t, n, f in recs if k == 'keep']
    if not keeps or any(f is not keeps[0][1] for n, f in keeps):
        return None
    f = keeps[0][1]
    if not f.get('ctor') or f.get('rec') != URL or tu.cfg(f) is None:
        return None
    sorts = []
    for b, i, nd in tu.cfg(f).stmts():
        if nd.get('kind') == 'CallExpr' and tu.sd(nd).get('q') == 'std::stable_sort':
            sorts.append((nd, (b.id, i)))
    if len(sorts) != 1 or len(tu.kids(sorts[0][0])) != 4:
        return None
    call, pos = sorts[0]
    cmp_ = names_only_cmp(tu, tu.kids(call)[3])
    if cmp_ is None or not cmp_['asc']:
        return None
    g = tu.cfg(f)
    after = _reach_blocks(g, pos[0])
    x = FnX(tu, f)
    for k, t, n, ff in recs:
        if k == 'append':
            if ff is not f:
                return None
            ap = x.pos_of(n)
            if ap is None or ap[0] in after:
                return None           # an append that can run behind the sort
    # every path that appends reaches the sort: the sort is on every path from the last append to the exit
    if not g.postdominates(pos, (g.entry, 0)):
        seen = {g.entry}
        st = [g.entry]
        apb = {x.pos_of(n)[0] for k, t, n, ff in recs if k == 'append'}
        # paths that bypass the sort must not pass an append
        while st:
            b = st.pop()
            if b == pos[0]:
                continue
            if b in apb:
                pass
            for s_ in g.blocks[b].succ:
                if s_ is not None and s_ not in seen:
                    seen.add(s_)
                    st.append(s_)
        for a in apb:
            # can the exit be reached from the append without passing the sort?
            r = _reach_blocks(g, a, stop=pos[0])
            if g.exit in r:
                return None
    return {'label': cmp_['label'], 'fn': cmp_['fn'], 'call': call}


def lookup_via_sorted(ctx, tu, f, R, inst, key, want):
    """getValue / hasParam on a list that the constructor keeps grouped by name (sorted_scheme):
       value:  last = std::upper_bound(begin, end, pair(name, ..), cmp);  absent iff last == begin || (last - 1)->first != name,
               else (last - 1)->second  - the end of the run of equal names is the entry written last
       bool:   std::binary_search(begin, end, pair(name, ..), cmp)
    Returns True if handled."""
    fq = URL + '::params'
    x = FnX(tu, f)
    algos = [(nd, (b.id, i)) for b, i, nd in x.g.stmts() if nd.get('kind') == 'CallExpr' and
             tu.sd(nd).get('q') in ('std::upper_bound', 'std::lower_bound', 'std::binary_search', 'std::equal_range')]
    if len(algos) != 1:
        return False
    call, cpos = algos[0]
    loc = tu.loc(call)
    algo = last_name(tu.sd(call).get('q'))
    sc = sorted_scheme(tu)
    if sc is None:
        ctx.undecided(R, inst, '`%s` presupposes a list ordered by name, but the constructor is not seen to group the entries with '
                      'std::stable_sort and a names-only comparator behind its last append' % tu.show(call), loc)
        return True
    args = tu.kids(call)[1:]
    bad, und = [], []
    if len(args) != 4:
        und.append('`%s` is not called with (begin, end, key, comparator)' % tu.show(call))
    else:
        ends = []
        for a in args[:2]:
            nm = None
            for y in tu.walk(a):
                if y.get('kind') == 'CXXMemberCallExpr' and last_name(tu.sd(y).get('q')) in ('begin', 'end', 'cbegin', 'cend'):
                    s_, obj, aa = tu.call_parts(y)
                    o = tu.strip(obj, casts=True) if obj is not None else None
                    if o is not None and o.get('kind') == 'MemberExpr' and tu.sd(o).get('q') == fq and not aa:
                        nm = last_name(tu.sd(y).get('q')).lstrip('c')
            ends.append(nm)
        if ends != ['begin', 'end']:
            und.append('`%s` does not search the whole list' % tu.show(call))
        c2 = names_only_cmp(tu, args[3])
        if c2 is None or c2['fn'] != sc['fn']:
            und.append('`%s` does not search with the comparator `%s` the constructor sorts with' % (tu.show(call), sc['label']))
        # the key: a pair whose name is the argument
        ke = x.peel(args[2])
        for _ in range(3):
            dv = x.var_of(ke)[0] if ke is not None else None
            if dv is not None and x.single_init(dv) is not None:
                ke = x.peel(x.single_init(dv))
            else:
                break
        okk = False
        name_param = f['params'][0]['id'] if f.get('params') else None
        if ke is not None and ke.get('kind') in ('CXXConstructExpr', 'CXXTemporaryObjectExpr', 'CXXFunctionalCastExpr', 'CallExpr'):
            ks = [y for y in tu.kids(ke) if y.get('kind') != 'CXXDefaultArgExpr']
            if ke.get('kind') == 'CallExpr':
                ks = ks[1:] if tu.sd(ke).get('q') == 'std::make_pair' else []
            if len(ks) == 2 and x.var_of(ks[0])[0] == name_param:
                okk = True
        if not okk:
            und.append('the search key `%s` is not a pair whose name is the argument' % tu.show(args[2]))
    if want == 'bool':
        rets = [nd for b, i, nd in x.g.stmts() if nd.get('kind') == 'ReturnStmt']
        e = x.peel(tu.kids(rets[0])[0]) if len(rets) == 1 and tu.kids(rets[0]) else None
        if algo != 'binary_search' or e is None or e.get('id') != call.get('id'):
            und.append('hasParam is not `return std::binary_search(...)`')
    else:
        tracked = None
        for d, v in x.vars.items():
            init = x.single_init(d)
            if init is not None and x.peel(init) is not None and x.peel(init).get('id') == call.get('id'):
                tracked = d
        if algo != 'upper_bound':
            und.append('`std::%s` does not yield the end of the run of entries with the name; how its result leads to the entry written '
                       'last is not decided' % algo)
            tracked = None
        elif tracked is None:
            und.append('the result of `%s` is not kept in a local that is set once' % tu.show(call))
        if tracked is not None:
            def prev_elem(e):
                """e is (last - 1)->  /  *(last - 1)  /  *std::prev(last)  -> 'prev';  last-> / *last -> 'at'"""
                e = tu.strip(e, casts=True)
                if e is None:
                    return None
                if e.get('kind') == 'CXXOperatorCallExpr' and last_name(tu.sd(e).get('q')) in ('operator->', 'operator*'):
                    e = tu.strip(tu.kids(e)[1], casts=True)
                elif e.get('kind') == 'UnaryOperator' and e.get('opcode') == '*':
                    e = tu.strip(tu.kids(e)[0], casts=True)
                else:
                    return None
                for _ in range(4):
                    if e is not None and e.get('kind') in ('MaterializeTemporaryExpr', 'CXXBindTemporaryExpr', 'ParenExpr') and tu.kids(e):
                        e = tu.strip(tu.kids(e)[0], casts=True)
                if x.var_of(e)[0] == tracked:
                    return 'at'
                if e is not None and e.get('kind') == 'CXXOperatorCallExpr' and last_name(tu.sd(e).get('q')) == 'operator-' and \
                        len(tu.kids(e)) == 3 and x.var_of(tu.kids(e)[1])[0] == tracked and x.poly_at(tu.kids(e)[2], None).as_int() == 1:
                    return 'prev'
                if e is not None and e.get('kind') == 'CallExpr' and tu.sd(e).get('q') == 'std::prev' and len(tu.kids(e)) in (2, 3) and \
                        x.var_of(tu.kids(e)[1])[0] == tracked:
                    return 'prev'
                return None

            def cond_kind(c):
                """('front', eq)  last == begin   |   ('name', eq, which)  <elem>->first == name"""
                c = tu.strip(c, casts=True)
                neg = False
                while c is not None and c.get('kind') == 'UnaryOperator' and c.get('opcode') == '!':
                    neg = not neg
                    c = tu.strip(tu.kids(c)[0], casts=True)
                if c is None or c.get('kind') != 'CXXOperatorCallExpr' or last_name(tu.sd(c).get('q')) not in ('operator==', 'operator!='):
                    return None
                eq = (last_name(tu.sd(c).get('q')) == 'operator==') != neg
                ks = tu.kids(c)[1:]
                if len(ks) != 2:
                    return None
                for u, v in ((ks[0], ks[1]), (ks[1], ks[0])):
                    if x.var_of(u)[0] == tracked:
                        for z in tu.walk(v):
                            if z.get('kind') == 'CXXMemberCallExpr' and last_name(tu.sd(z).get('q')) in ('begin', 'cbegin') and \
                                    tu.sd(tu.strip(tu.call_parts(z)[1], casts=True)).get('q') == fq:
                                return ('front', eq)
                    ue = tu.strip(u, casts=True)
                    if ue is not None and ue.get('kind') == 'MemberExpr' and ue.get('name') == 'first' and x.var_of(v)[0] == name_param:
                        w = prev_elem(tu.kids(ue)[0])
                        if w is not None:
                            return ('name', eq, w)
                return None
            recs = []
            odd = []

            def transfer(blk, idx, el, st):
                if el[0] != 'S':
                    return [st]
                n = tu.node(el[1])
                if n is None:
                    return [st]
                if n.get('kind') == 'ReturnStmt':
                    recs.append(('return', n, st))
                elif n.get('kind') == 'CXXThrowExpr':
                    recs.append(('throw', n, st))
                    return []
                return [st]

            def refine_e(c, val, st):
                c0 = tu.strip(c, casts=True)
                while c0 is not None and c0.get('kind') in ('ExprWithCleanups', 'ParenExpr') and tu.kids(c0):
                    c0 = tu.strip(tu.kids(c0)[0], casts=True)
                if c0 is not None and c0.get('kind') == 'UnaryOperator' and c0.get('opcode') == '!' and \
                        tu.strip(tu.kids(c0)[0], casts=True).get('kind') == 'BinaryOperator':
                    return refine_e(tu.kids(c0)[0], not val, st)
                if c0 is not None and c0.get('kind') == 'BinaryOperator' and c0.get('opcode') in ('&&', '||'):
                    a, b = tu.kids(c0)[:2]
                    conj = (c0['opcode'] == '&&') == val
                    out = []
                    if conj:
                        for s1 in refine_e(a, val, st):
                            out += refine_e(b, val, s1)
                    else:
                        out += refine_e(a, val, st)
                        for s1 in refine_e(a, not val, st):
                            out += refine_e(b, val, s1)
                    res = []
                    for o in out:
                        if o not in res:
                            res.append(o)
                    return res
                ck = cond_kind(c0) if c0 is not None else None
                if ck is None:
                    return [st]
                front, same = st
                if ck[0] == 'front':
                    isfront = val == ck[1]
                    if front is not None and front != isfront:
                        return []
                    return [(isfront, same)]
                if ck[2] != 'prev':
                    odd.append('`%s` looks at the element AT the upper bound, which is the first entry behind the run of that name (or '
                               'end()): the entry in front of it is the last one written' % tu.show(c0))
                if front is not False:
                    odd.append('`%s` looks at the element in front of the upper bound although the bound may be begin()' % tu.show(c0))
                issame = val == ck[1]
                if same is not None and same != issame:
                    return []
                return [(front, issame)]

            def refine(blk, si, st):
                c = deciding_cond(tu, blk, x.g)
                if c is None:
                    return [st]
                return refine_e(c, si == 0, st)
            x.g.explore([(None, None)], transfer, refine)
            for o in odd:
                (bad if 'AT the upper bound' in o else und).append(('upper-bound-element', o) if 'AT the upper bound' in o else o)
            for kind, node, (front, same) in recs:
                present = front is False and same is True
                absent = front is True or same is False
                if kind == 'throw' and present:
                    bad.append(('throws-when-found', 'the exception at %s can be reached although the entry in front of the upper bound '
                                'carries the name' % tu.loc(node)))
                elif kind == 'return' and absent:
                    bad.append(('no-throw', 'the function can return at %s although no parameter matched: it must throw' % tu.loc(node)))
                elif kind == 'return' and present:
                    e = x.peel(tu.kids(node)[0]) if tu.kids(node) else None
                    w = prev_elem(tu.kids(e)[0]) if e is not None and e.get('kind') == 'MemberExpr' and tu.kids(e) else None
                    if e is None or e.get('kind') != 'MemberExpr' or w is None:
                        und.append('cannot relate the returned `%s` to the upper bound' % (tu.show(e) if e else '?'))
                    elif w != 'prev':
                        bad.append(('upper-bound-element', 'the element AT the upper bound is returned; the last entry of the name is the '
                                    'one in front of it'))
                    elif e.get('name') != 'second':
                        bad.append(('returns-name', 'the name `.first` of the matching parameter is returned instead of its value `.second`'))
                elif kind == 'return':
                    und.append('the return at %s is reached without both tests (bound == begin, name of the entry in front)' % tu.loc(node))
            if not any(r[0] == 'throw' for r in recs):
                bad.append(('no-throw', 'no exception is thrown when the parameter is absent'))
    bad = [b for b in bad if isinstance(b, tuple)]
    if bad:
        seen = set()
        for k, m in bad:
            if (k, m) not in seen:
                seen.add((k, m))
                ctx.violation(R, inst, m, loc, key=key + k)
    elif und:
        for u in sorted(set(u if isinstance(u, str) else u[1] for u in und)):
            ctx.undecided(R, inst, u, loc)
    else:
        ctx.ok(R, inst, ('the list is grouped by name by the constructor (std::stable_sort with `%s`, entries of one name in URL order); '
                         % sc['label']) +
               ('the entry in front of std::upper_bound is the last one written with that name; absent -> throw' if want == 'value'
                else 'std::binary_search with the same comparator is true iff some entry has the name'), loc)
    return True


def check_url_lookup(ctx, tu, sch=None):
    sch = sch or url_store_scheme(tu)
    R = 'R-C18-4'
    ctx.describe(R, 'PseudoURL::getValue returns the value of the last parameter with the given name (ascending scan, no exit on a '
                    'match) and throws when there is none; hasParam is true iff some parameter matches')
    n = 0
    for f in tu.fns(q=URL + '::getValue'):
        if f['dep'] or tu.cfg(f) is None:
            continue
        n += 1
        file, fname = tu.fn_file(f), fn_name(f)
        inst = '%s %s' % (fname, f['fty'])
        key = '%s|%s|%s|' % (R, file, fname)
        ms = MatchScan(tu, f)
        if ms.match is None and lookup_via_helper(ctx, tu, f, R, inst, key, 'value', sch['dup']):
            continue
        if ms.match is None and lookup_via_algorithm(ctx, tu, f, R, inst, key, 'value', sch):
            continue
        if ms.match is None and lookup_via_sorted(ctx, tu, f, R, inst, key, 'value'):
            continue
        if ms.match is None or ms.direction is None:
            ctx.undecided(R, inst, ms.why or 'cannot find the scan', tu.fn_loc(f))
            continue
        x = ms.x
        loc = tu.loc(ms.match['cond'])
        bad, und = [], []
        if ms.match['field'] != 'first':
            bad.append(('match-field', 'the argument is compared with `.%s` of the parameter instead of its name `.first`' % ms.match['field']))
        if ms.direction == 'asc-partial':
            bad.append(('scan-range', ms.why))
        if ms.exits_on_match():
            if sch['dup'] == 'yes':
                ung = describe_unguarded(tu, sch)
                mixed = bool(sch.get('updates'))
                bad.append(('first-match-wins', 'the ascending scan is left on the first match, but the constructor can %sstore two entries '
                            'with the same name (%s): for a repeated parameter the first value is returned instead of the last'
                            % ('still ' if mixed else '', ('%s: it still appends %s without looking for an existing entry'
                                                         % (sch['why'], ung)) if mixed else sch['why'])))
            elif sch['dup'] == 'unknown':
                und.append('the scan returns the first match; whether the constructor can store two entries of one name is not decided (%s)'
                           % sch.get('why'))
            else:
                # at most one entry per name: the first match is the only one; it must be returned, and absence must throw
                recs = explore_match(ms, None)
                for matched, val2, kind2, node2 in recs:
                    if kind2 == 'throw' and matched == 'Y':
                        bad.append(('throws-when-found', 'the exception at %s can be reached although a parameter matched' % tu.loc(node2)))
                    elif kind2 == 'return' and matched == 'N':
                        bad.append(('no-throw', 'the function can return at %s although no parameter matched: it must throw' % tu.loc(node2)))
                    elif kind2 == 'return':
                        e = x.peel(tu.kids(node2)[0]) if tu.kids(node2) else None
                        okr = False
                        if e is not None and e.get('kind') == 'MemberExpr' and e.get('name') in ('first', 'second'):
                            base = tu.strip(tu.kids(e)[0], casts=True)
                            el = tu.strip(ms.match['elem'], casts=True) if ms.match['elem'] is not None else None
                            if base is not None and el is not None and tu.show(base) == tu.show(el) and \
                                    (x.var_of(base)[0] == x.var_of(el)[0]):
                                okr = True
                                if e['name'] != 'second':
                                    bad.append(('returns-name', 'the name `.first` of the matching parameter is returned instead of its value `.second`'))
                        if not okr:
                            und.append('cannot relate the returned `%s` to the matching element' % (tu.show(e) if e else '?'))
                if not any(r[2] == 'throw' for r in recs):
                    bad.append(('no-throw', 'no exception is thrown when the parameter is absent'))
        # the local that remembers the match: defined inside the loop on the match edge
        tracked = None
        tdefs = []
        for d, v in x.vars.items():
            if v['param'] or (ms.index is not None and d == ms.index[1]):
                continue
            ins = [df for df in v['defs'] if df[2] and df[2][0] in ms.body and df[0] in ('assign', 'init')]
            if ins and not (v['name'] or '').startswith('__') and d != getattr(ms, 'elemvar', None):
                tdefs.append((d, v, ins))
        recs = []
        if not ms.exits_on_match():
            if len(tdefs) != 1 or len(tdefs[0][2]) != 1:
                und.append('expected exactly one local that records the match inside the loop, found %d' % len(tdefs))
            else:
                tracked, tv, ins = tdefs[0]
                kind, node, dpos = ins[0]
                # executed exactly on the match edge
                onmatch = any(blk.id == ms.match['block'].id and (blk.succ[0 if truth else 1] == ms.match['true_succ'])
                              for cn, truth, blk in x.guards(dpos))
                if not onmatch:
                    bad.append(('record', '`%s` is assigned in the loop but not under the name comparison' % tv['name']))
                elif ms.header in ms.reach_blocks(ms.match['true_succ'], dpos[0]) and ms.match['true_succ'] != dpos[0]:
                    bad.append(('record-conditional', 'a match does not always overwrite `%s` (a further condition guards the '
                                'assignment): the value of an earlier duplicate can be kept instead of the last' % tv['name']))
                val = classify_val(ms, node, dpos)
                if val == 'idx':
                    pass
                elif val == 'ptr':
                    s = tu.strip(node, casts=True)
                    tgt = tu.strip(tu.kids(s)[0], casts=True)
                    okp = False
                    if tgt.get('kind') == 'MemberExpr' and tgt.get('name') == 'second':
                        okp = True
                        ms.ptr_to = 'second'
                    elif x.var_of(tgt)[0] == getattr(ms, 'elemvar', None) or tgt.get('kind') == 'CXXOperatorCallExpr':
                        okp = True
                        ms.ptr_to = 'elem'
                    if not okp:
                        und.append('`%s` is set to `%s`' % (tv['name'], tu.show(node)))
                elif isinstance(val, tuple):
                    bad.append(('record', 'on a match `%s` is set to the constant %d instead of the position of the match' % (tv['name'], val[1])))
                else:
                    und.append('`%s` is set to `%s`, which the rule cannot relate to the matching element' % (tv['name'], tu.show(node)))
                recs = explore_match(ms, tracked)
                for matched, val2, kind2, node2 in recs:
                    if kind2 == 'throw':
                        if matched == 'Y' and val2 in ('idx', 'ptr'):
                            bad.append(('throws-when-found', 'the exception at %s can be reached although a parameter matched (`%s` is %s)'
                                        % (tu.loc(node2), tv['name'], 'an index >= 0' if val2 == 'idx' else 'non-null')))
                    else:
                        if not (val2 in ('idx', 'ptr')):
                            bad.append(('no-throw', 'the function can return at %s although no parameter matched (`%s` still has its '
                                        'initial value): it must throw' % (tu.loc(node2), tv['name'])))
                        else:
                            e = x.peel(tu.kids(node2)[0]) if tu.kids(node2) else None
                            okr = False
                            if e is not None and e.get('kind') == 'MemberExpr' and e.get('name') in ('first', 'second'):
                                base = tu.strip(tu.kids(e)[0], casts=True)
                                if val2 == 'idx' and base.get('kind') == 'CXXOperatorCallExpr' and last_name(tu.sd(base).get('q')) == 'operator[]':
                                    ks = tu.kids(base)[1:]
                                    if x.objkey(ks[0]) == ms.listkey and x.poly_at(ks[1], x.pos_of(node2)) == Poly.atom(('var', tracked, tv['name'])):
                                        okr = True
                                if val2 == 'ptr' and getattr(ms, 'ptr_to', None) == 'elem' and base.get('kind') in ('UnaryOperator', 'DeclRefExpr') \
                                        and tracked in [y.get('referencedDecl', {}).get('id') for y in tu.walk(base)]:
                                    okr = True
                                if okr and e.get('name') != 'second':
                                    bad.append(('returns-name', 'the name `.first` of the matching parameter is returned instead of its value `.second`'))
                            elif e is not None and val2 == 'ptr' and getattr(ms, 'ptr_to', None) == 'second' and \
                                    e.get('kind') == 'UnaryOperator' and e.get('opcode') == '*' and x.var_of(tu.kids(e)[0])[0] == tracked:
                                okr = True
                            if not okr:
                                und.append('cannot relate the returned `%s` to the recorded match' % (tu.show(e) if e else '?'))
                if not any(r[2] == 'throw' for r in recs):
                    bad.append(('no-throw', 'no exception is thrown when the parameter is absent'))
                # nothing else writes the record after the loop
                outs = [df for df in tv['defs'] if not (df[2] and df[2][0] in ms.body)]
                if len(outs) != 1:
                    und.append('`%s` is written %d times outside the loop' % (tv['name'], len(outs)))
        if bad:
            seen = set()
            for k, m in bad:
                if (k, m) not in seen:
                    seen.add((k, m))
                    ctx.violation(R, inst, m, loc, key=key + k)
        elif und:
            for u in sorted(set(und)):
                ctx.undecided(R, inst, u, loc)
        else:
            if ms.exits_on_match():
                ctx.ok(R, inst, 'the constructor keeps at most one entry per name (%s), so the first match is the last one; '
                       'absent -> throw; returns the value of the matching element' % sch['why'], loc)
            else:
                ctx.ok(R, inst, 'ascending scan of the whole list, every match overwrites the record, no exit on a match; '
                       'absent -> throw; returns the value of the recorded element', loc)

    for f in tu.fns(q=URL + '::hasParam'):
        if f['dep'] or tu.cfg(f) is None:
            continue
        n += 1
        file, fname = tu.fn_file(f), fn_name(f)
        inst = '%s %s' % (fname, f['fty'])
        key = '%s|%s|%s|' % (R, file, fname)
        ms = MatchScan(tu, f)
        if ms.match is None and lookup_via_helper(ctx, tu, f, R, inst, key, 'bool', sch['dup']):
            continue
        if ms.match is None and lookup_via_algorithm(ctx, tu, f, R, inst, key, 'bool', sch):
            continue
        if ms.match is None and lookup_via_sorted(ctx, tu, f, R, inst, key, 'bool'):
            continue
        if ms.match is None or ms.direction is None:
            ctx.undecided(R, inst, ms.why or 'cannot find the scan', tu.fn_loc(f))
            continue
        x = ms.x
        loc = tu.loc(ms.match['cond'])
        bad, und = [], []
        if ms.match['field'] != 'first':
            bad.append(('match-field', 'the argument is compared with `.%s` of the parameter instead of its name `.first`' % ms.match['field']))
        if ms.direction == 'asc-partial':
            bad.append(('scan-range', ms.why))
        # a boolean local that remembers a match?
        tdefs = []
        for d, v in x.vars.items():
            if v['param'] or (ms.index is not None and d == ms.index[1]) or (v['name'] or '').startswith('__') or \
                    d == getattr(ms, 'elemvar', None):
                continue
            if [df for df in v['defs'] if df[2] and df[2][0] in ms.body and df[0] in ('assign', 'init')]:
                tdefs.append(d)
        tracked = tdefs[0] if len(tdefs) == 1 else None
        if len(tdefs) > 1:
            und.append('more than one local is written inside the loop')
        recs = explore_match(ms, tracked)
        for matched, val, kind, node in recs:
            if kind == 'throw':
                bad.append(('throws', 'hasParam throws at %s' % tu.loc(node)))
                continue
            e = tu.strip(tu.kids(node)[0], casts=True) if tu.kids(node) else None
            rv = None
            if e is not None:
                c = x.poly_at(e, x.pos_of(node)).as_int()
                if c is not None:
                    rv = bool(c)
                elif tracked is not None and x.var_of(e)[0] == tracked and isinstance(val, tuple):
                    rv = bool(val[1])
            if rv is None:
                und.append('cannot evaluate the result `%s`' % (tu.show(e) if e else '?'))
            elif matched == 'Y' and rv is False:
                bad.append(('false-on-match', '`%s` can be reached after a parameter matched: hasParam reports an existing parameter as absent'
                            % tu.show(node)))
            elif matched == 'N' and rv is True:
                bad.append(('true-without-match', '`%s` can be reached without any parameter matching' % tu.show(node)))
        if not recs:
            und.append('no return found')
        if bad:
            seen = set()
            for k, m in bad:
                if (k, m) not in seen:
                    seen.add((k, m))
                    ctx.violation(R, inst, m, loc, key=key + k)
        elif und:
            for u in sorted(set(und)):
                ctx.undecided(R, inst, u, loc)
        else:
            ctx.ok(R, inst, 'true on every path with a match, false on every path without', loc)
    return n


# ====================================================================================================
#  R-C18-8 (PseudoURL)  cut points of the constructor
# ====================================================================================================
def literal_of(tu, x, e):
    """(text for messages, length) of a delimiter argument: a string / character literal, or a const array / char
    variable initialised with one"""
    e = tu.strip(e, casts=True)
    for _ in range(4):
        if e is None:
            return None
        k = e.get('kind')
        if k == 'StringLiteral':
            lit = e.get('value', '""')
            try:
                return lit, len(bytes(lit[1:-1], 'utf-8').decode('unicode_escape'))
            except Exception:
                return None
        if k == 'CharacterLiteral':
            return repr(chr(int(e.get('value')))), 1
        if k == 'DeclRefExpr':
            d = tu.node(e.get('referencedDecl', {}).get('id'))
            if d is None or d.get('kind') != 'VarDecl' or not (d.get('type', {}).get('qualType', '').startswith('const ')):
                return None
            ks = tu.kids(d)
            e = tu.strip(ks[0], casts=True) if ks else None
            continue
        return None
    return None


def in_lambda_of(tu, f, nid):
    """is node `nid` inside the body of a lambda written in function f (rather than a statement of f itself)?"""
    i = tu.parent.get(nid)
    for _ in range(200):
        if i is None or i == f['id'] or i == f.get('body'):
            return False
        y = tu.nodes.get(i)
        if y is not None and y.get('kind') == 'LambdaExpr':
            return True
        i = tu.parent.get(i)
    return False


def find_cuts(tu, x):
    """[(decl id, var info, literal text, literal length, source key, V, NOTFOUND, search call, kind)] for every local that is
    set once to the position of a literal delimiter: s.find(lit) (index) or std::find(s.begin(), s.end(), 'c') (iterator)"""
    out = []
    for d, v in sorted(x.vars.items(), key=lambda kv: kv[1]['name'] or ''):
        init = x.single_init(d)
        if init is None:
            continue
        e = x.peel(init)
        if e is None:
            continue
        V = Poly.atom(('var', d, v['name']))
        if in_lambda_of(tu, x.f, d):
            continue                   # declared inside a lambda body: not a statement of this function (the lambda is looked at on its own)
        if is_int_ct(v['ct']) and e.get('kind') == 'CXXMemberCallExpr' and last_name(tu.sd(e).get('q')) in FIND_DELIM and \
                (tu.sd(e).get('q') or '').startswith('std::basic_string<'):
            s, obj, args = tu.call_parts(e)
            real = [a for a in args if a.get('kind') != 'CXXDefaultArgExpr']
            lt = literal_of(tu, x, real[0]) if len(real) == 1 else None
            if lt is not None:
                out.append((d, v, lt[0], lt[1], x.objkey(obj), V, P_NPOS, e, 'index'))
        elif e.get('kind') == 'CallExpr' and tu.sd(e).get('q') == 'std::find' and len(tu.kids(e)) == 4:
            a = tu.kids(e)[1:]
            lt = literal_of(tu, x, a[2])
            pos = v['defs'][0][2]
            b_, e_ = x.poly_at(a[0], pos), x.poly_at(a[1], pos)
            ba = b_.as_atom()
            if lt is not None and isinstance(ba, tuple) and ba[0] == 'begin' and e_ == b_ + Poly.atom(('size', ba[1])):
                out.append((d, v, lt[0], lt[1], ba[1], V, e_, e, 'iter'))
            elif lt is not None and not any(isinstance(a_, tuple) and a_[0] in ('expr', 'unk') for a_ in (b_ - e_).atoms(deep=True)):
                # a range [b, e) given by two pointers / iterators (a component addressed inside a larger string)
                out.append((d, v, lt[0], lt[1], ('range', b_, e_), V, e_, e, 'iter'))
    return out


def cut_uses(tu, x, src, kind):
    """expressions that take a part of the string `src`:
       ('range', (start, length | None))   src.substr(a[, n]) / X.assign(src, a[, n]) / std::string(src, a[, n])
       ('iters', (first, last))            std::string(first, last) / X.assign(first, last)
       ('offset', (value,))                a position returned / passed on as the start of the remainder"""
    g = x.g
    for b, i, nd in g.stmts():
        pos = (b.id, i)
        k = nd.get('kind')
        q = tu.sd(nd).get('q') or ''
        if k == 'CXXMemberCallExpr' and q.startswith('std::basic_string<') and last_name(q) == 'substr':
            s, obj, args = tu.call_parts(nd)
            if x.objkey(obj) != src:
                continue
            ps = [x.poly_at(a, pos) for a in args if a.get('kind') != 'CXXDefaultArgExpr']
            if len(ps) == 1:
                yield nd, pos, 'range', (ps[0], None)
            elif len(ps) == 2:
                yield nd, pos, 'range', (ps[0], None if ps[1] == P_NPOS else ps[1])
            continue
        args = None
        if k == 'CXXMemberCallExpr' and q.startswith('std::basic_string<') and last_name(q) == 'assign':
            args = tu.call_parts(nd)[2]
        elif k in ('CXXConstructExpr', 'CXXTemporaryObjectExpr') and q.startswith('std::basic_string<'):
            args = [a for a in tu.kids(nd)]
        if args is not None:
            real = [a for a in args if a.get('kind') != 'CXXDefaultArgExpr' and 'allocator' not in (tu.sd(a).get('ct') or '')]
            if len(real) in (2, 3) and 'basic_string' in (tu.sd(tu.strip(real[0], casts=True)).get('ct') or '') and \
                    '__normal_iterator' not in (tu.sd(tu.strip(real[0], casts=True)).get('ct') or '') and x.objkey(real[0]) == src:
                st_ = x.poly_at(real[1], pos)
                ln_ = x.poly_at(real[2], pos) if len(real) == 3 else None
                yield nd, pos, 'range', (st_, None if ln_ is None or ln_ == P_NPOS else ln_)
            elif len(real) == 2 and all('__normal_iterator' in (tu.sd(tu.strip(a, casts=True)).get('ct') or tu.sd(a).get('ct') or '') or
                                        plain_ct(tu.sd(tu.strip(a, casts=True)).get('ct') or tu.sd(a).get('ct') or '') in ('char *', 'const char *')
                                        for a in real):
                yield nd, pos, 'iters', (x.poly_at(real[0], pos), x.poly_at(real[1], pos))
            continue
        if kind == 'index' and k == 'ReturnStmt' and tu.kids(nd) and is_int_ct(tu.sd(tu.strip(tu.kids(nd)[0], casts=True)).get('ct')):
            yield nd, pos, 'offset', (x.poly_at(tu.kids(nd)[0], pos),)
        if kind == 'index' and k == 'BinaryOperator' and nd.get('opcode') == '=' and is_int_ct(tu.sd(nd).get('ct')) and \
                x.var_of(tu.kids(nd)[0])[0] is not None:
            yield nd, pos, 'offset', (x.poly_at(tu.kids(nd)[1], pos),)       # remainder = position + c, handed on as an offset


def check_url_cuts(ctx, tu):
    R = 'R-C18-8'
    n = 0
    fns = []
    lits_seen, lits_ok = set(), set()
    for f in tu.fns(q=URL + '::PseudoURL'):
        if f['dep'] or tu.cfg(f) is None or f.get('ctor') in ('copy', 'move') or f.get('implicit') or not f.get('params'):
            continue
        fns.append(f)
        # file-local helpers the constructor hands its pieces to (parse order is theirs as much as the constructor's)
        work = [f]
        for y in tu.walk(tu.body(f)):
            if y.get('kind') == 'LambdaExpr':
                lf = tu.functions.get(tu.sd(y).get('op'))
                if lf is not None and tu.cfg(lf) is not None and lf not in fns:
                    fns.append(lf)
                    work.append(lf)
        while work:
            cur = work.pop()
            for b, i, nd in tu.cfg(cur).stmts():
                if nd.get('kind') == 'CallExpr':
                    hf = tu.callee_fn(nd)
                    if hf is not None and not hf['dep'] and not hf.get('rec') and tu.cfg(hf) is not None and \
                            tu.fn_file(hf) == tu.fn_file(f) and hf not in fns:
                        fns.append(hf)
                        work.append(hf)
    for f in fns:
        x = FnX(tu, f)
        file, fname = tu.fn_file(f), fn_name(f)
        for cut in find_cuts(tu, x):
            d, v, lit, dl, src, V, NOTFOUND, e, kind = cut
            n += 1
            inst = '%s: cut at `%s` = %s' % (fname, v['name'], tu.show(e))
            key = '%s|%s|%s|cut-%s' % (R, file, fname, re.sub(r'[^A-Za-z0-9:/=]', '', lit))
            bad, und, seen = [], [], []
            vatom = ('var', d, v['name'])
            for nd, pos, form, ps in cut_uses(tu, x, src, kind):
                if not any(vatom in p.atoms(deep=True) for p in ps if p is not None):
                    continue
                found = False
                for cn, truth, blk in x.guards(pos):
                    nf = x.cond_at(cn, truth, x.pos_of(cn))
                    for lf in (rels_of(nf) or []):
                        if lf is not None and lf[0] == 'rel' and lf[1] == Rel.make(V, '!=', NOTFOUND):
                            found = True
                if src[0] == 'range':
                    BEGIN, END = src[1], src[2]
                else:
                    BEGIN = Poly.atom(('begin', src))
                    END = BEGIN + Poly.atom(('size', src))
                # normalise every form to (start, end) offsets relative to the cut position; None = open
                head_c = tail_c = None
                if form == 'range':            # (start index, length or None)
                    st_, ln_ = ps
                    if st_.as_int() == 0 and ln_ is not None:
                        head_c = (ln_ - V).as_int()
                        if head_c is None:
                            und.append('length of `%s`' % tu.show(nd))
                            continue
                    elif ln_ is None:
                        tail_c = (st_ - V).as_int()
                        if tail_c is None:
                            und.append('start of `%s`' % tu.show(nd))
                            continue
                    else:
                        und.append('`%s` is neither the part before nor the part behind the delimiter' % tu.show(nd))
                        continue
                elif form == 'iters':          # (first iterator, last iterator)
                    b_, e_ = ps
                    if b_ == BEGIN:
                        head_c = (e_ - V).as_int()
                        if head_c is None:
                            und.append('end of `%s`' % tu.show(nd))
                            continue
                    elif e_ == END:
                        tail_c = (b_ - V).as_int()
                        if tail_c is None:
                            und.append('start of `%s`' % tu.show(nd))
                            continue
                    else:
                        und.append('`%s` is neither the part before nor the part behind the delimiter' % tu.show(nd))
                        continue
                elif form == 'offset':         # V + c handed on as the start of the remainder
                    tail_c = (ps[0] - V).as_int()
                    if tail_c is None or tail_c < 1:
                        continue
                if head_c is not None:
                    if head_c != 0:
                        bad.append(('head', 'the part before the delimiter is `%s`: it ends %+d characters from the delimiter' % (tu.show(nd), head_c)))
                    else:
                        seen.append('head [0, %s)' % v['name'])
                if tail_c is not None:
                    if not found:
                        bad.append(('unguarded', '`%s` is evaluated although `%s` may say "not found"' % (tu.show(nd), v['name'])))
                    elif tail_c != dl:
                        bad.append(('tail', 'the part behind the delimiter %s starts at `%s`, i.e. %+d from it; the delimiter is %d character(s) '
                                    'long: %s' % (lit, (V + tail_c).show(), tail_c, dl,
                                                  'part of the delimiter is kept' if tail_c < dl else 'the first character(s) of the remainder are lost')))
                    else:
                        seen.append('tail [%s + %d, end)' % (v['name'], dl))
            # a pair whose first component is the uncut string itself (the "no delimiter" form) must be built only when the
            # delimiter was NOT found: otherwise a component that does contain it is stored whole as a name
            for b2, i2, nd in x.g.stmts():
                first = None
                k2 = nd.get('kind')
                if k2 == 'CallExpr' and tu.sd(nd).get('q') == 'std::make_pair' and len(tu.kids(nd)) == 3:
                    first = tu.kids(nd)[1]
                elif k2 in ('CXXConstructExpr', 'CXXTemporaryObjectExpr') and 'std::pair<' in (tu.sd(nd).get('q') or tu.sd(nd).get('ct') or ''):
                    ks_ = [y for y in tu.kids(nd) if y.get('kind') != 'CXXDefaultArgExpr']
                    if len(ks_) == 2:
                        first = ks_[0]
                elif k2 == 'CXXMemberCallExpr' and last_name(tu.sd(nd).get('q')) == 'emplace_back' and len(tu.call_parts(nd)[2]) == 2:
                    first = tu.call_parts(nd)[2][0]
                whole = first is not None and x.objkey(x.peel(first)) == src
                if first is not None and src[0] == 'range':
                    fe = x.peel(first)
                    fk = [y for y in tu.kids(fe) if y.get('kind') != 'CXXDefaultArgExpr' and 'allocator' not in (tu.sd(y).get('ct') or '')] \
                        if fe is not None and fe.get('kind') in ('CXXConstructExpr', 'CXXTemporaryObjectExpr') else []
                    if len(fk) == 2 and x.poly_at(fk[0], (b2.id, i2)) == src[1] and x.poly_at(fk[1], (b2.id, i2)) == src[2]:
                        whole = True
                if not whole:
                    continue
                pos2 = (b2.id, i2)
                notfound = False
                for cn, truth, blk in x.guards(pos2):
                    nf = x.cond_at(cn, truth, x.pos_of(cn))
                    for lf in (rels_of(nf) or []):
                        if lf is not None and lf[0] == 'rel' and lf[1] == Rel.make(V, '==', NOTFOUND):
                            notfound = True
                if notfound:
                    seen.append('whole component as name only when %s is absent' % lit)
                else:
                    bad.append(('whole-component-with-delimiter', '`%s` stores the uncut component as the name, and this is not limited to '
                                'components without %s: a component that does contain it but fails the other condition of the test '
                                '(e.g. `name=` with an empty value) is stored under a name that includes the %s, so hasParam / '
                                'getValue of the real name fail' % (tu.show(nd), lit, lit)))
            loc = tu.loc(e)
            if bad:
                seenk = set()
                for k, m in bad:
                    if (k, m) in seenk:
                        continue
                    seenk.add((k, m))
                    ctx.violation(R, inst, m, loc, key='%s-%s' % (key, k))
            elif und:
                for u in und:
                    ctx.undecided(R, inst, u, loc)
            elif not any(s_.startswith('head') for s_ in seen) or not any(s_.startswith('tail') for s_ in seen):
                ctx.undecided(R, inst, 'expected a head and a tail cut at this delimiter, found %s' % seen, loc)
            else:
                lits_ok.add(lit)
                ctx.ok(R, inst, ', '.join(sorted(set(seen))), loc)
            lits_seen.add(lit)
    # ---- by role: the constructor (or a helper of it) must cut type://rest and name=value somewhere
    for lit, what in (('"://"', 'the type from the rest at "://"'), ("'='", "name=value at the first '='")):
        if lit in lits_seen or not fns:
            continue
        n += 1
        f0 = fns[0]
        inst = '%s: cuts %s' % (fn_name(f0), what)
        done = False
        if lit == "'='":
            # recognised wrong: the value is the second field of a tokenisation at every '='
            for f in fns:
                x = FnX(tu, f)
                for d, v in x.vars.items():
                    init = x.single_init(d)
                    e = x.peel(init) if init is not None else None
                    if e is None or e.get('kind') != 'CallExpr' or tu.sd(e).get('q') not in ('rkcommon::utility::split',):
                        continue
                    args = tu.kids(e)[1:]
                    if len(args) < 2 or x.poly_at(args[1], None).as_int() != 61:
                        continue
                    idx, other = set(), []
                    for y in tu.walk(tu.body(f)):
                        if y.get('kind') == 'DeclRefExpr' and y.get('referencedDecl', {}).get('id') == d:
                            p = tu.par(y)
                            while p is not None and p.get('kind') in ('ImplicitCastExpr', 'ParenExpr'):
                                p = tu.par(p)
                            if p is not None and p.get('kind') == 'CXXOperatorCallExpr' and last_name(tu.sd(p).get('q')) == 'operator[]':
                                c = x.poly_at(tu.kids(p)[2], None).as_int()
                                idx.add(c)
                            elif p is not None and p.get('kind') == 'MemberExpr' and p.get('name') in ('size', 'empty'):
                                pass
                            elif p is not None and p.get('kind') == 'VarDecl':
                                pass
                            else:
                                other.append(p)
                    if 1 in idx and idx <= {0, 1} and not other:
                        done = True
                        ctx.violation(R, inst, "`%s` cuts the component at EVERY '=' and only field [1] is used as the value: a value "
                                      "that itself contains '=' (filter=x=0..1) is truncated at its first '='; the value must be "
                                      "everything behind the first '='" % tu.show(e), tu.loc(e),
                                      key='%s|%s|%s|cut-=-value-from-split' % (R, tu.fn_file(f), fn_name(f)))
        if not done:
            ctx.undecided(R, inst, 'cannot find where the constructor (or a helper it calls) cuts %s' % what, tu.fn_loc(f0))
    return n


def show_key(k):
    if isinstance(k, tuple) and k and k[0] == 'var':
        return k[2]
    if isinstance(k, tuple) and k and k[0] == 'field':
        return k[2]
    return str(k)


# ====================================================================================================
#  R-C18-9  the parameter list keeps URL order (only appended to, never reordered)
# ====================================================================================================
ORDER_DESTROY = {'sort', 'partial_sort', 'nth_element', 'shuffle', 'random_shuffle', 'partition', 'unique', 'remove',
                 'remove_if', 'make_heap', 'push_heap', 'pop_heap', 'sort_heap', 'next_permutation', 'prev_permutation',
                 'inplace_merge', 'replace', 'replace_if', 'fill', 'fill_n', 'generate', 'generate_n', 'swap_ranges',
                 'iter_swap'}
ORDER_KEEP_UNKNOWN = {'reverse', 'rotate', 'stable_sort', 'stable_partition'}
ORDER_READ = {'find', 'find_if', 'find_if_not', 'any_of', 'all_of', 'none_of', 'count', 'count_if', 'for_each', 'equal_range',
              'lower_bound', 'upper_bound', 'binary_search', 'distance', 'next', 'prev', 'advance', 'max_element',
              'min_element', 'minmax_element', 'accumulate', 'equal', 'mismatch', 'search', 'adjacent_find', 'is_sorted',
              'find_end', 'find_first_of', 'begin', 'end', 'cbegin', 'cend'}
VEC_APPEND = {'push_back', 'emplace_back'}
VEC_READ = {'size', 'empty', 'capacity', 'reserve', 'shrink_to_fit', 'max_size', 'at', 'operator[]', 'front', 'back', 'data',
            'cbegin', 'cend', 'crbegin', 'crend', 'get_allocator'}
VEC_ITER = {'begin', 'end', 'rbegin', 'rend'}
WRAP = ('MaterializeTemporaryExpr', 'ImplicitCastExpr', 'CXXBindTemporaryExpr', 'ExprWithCleanups', 'ParenExpr',
        'CXXConstructExpr', 'CXXFunctionalCastExpr', 'CXXStaticCastExpr')


def _owned_by_lambda(tu, f, nid):
    """node `nid` lies in the body of a lambda written in f whose call operator is a function of its own in this unit"""
    i = tu.parent.get(nid)
    for _ in range(200):
        if i is None or i == f['id'] or i == f.get('body'):
            return False
        y = tu.nodes.get(i)
        if y is not None and y.get('kind') == 'LambdaExpr':
            op = tu.functions.get(tu.sd(y).get('op'))
            return op is not None and not op['dep'] and tu.body(op) is not None and op is not f
        i = tu.parent.get(i)
    return False


def names_only_order(tu, e):
    """name of the comparator if e is a function / lambda  (const pair &a, const pair &b) { return a.first < b.first; }
    (or >): a strict order on the names that never looks at the values"""
    r = names_only_cmp(tu, e)
    return r['label'] if r is not None else None


def names_only_cmp(tu, e):
    """{'label', 'fn': id of the comparator function / call operator, 'asc': a.first < b.first in parameter order} or None"""
    e = tu.strip(e, casts=True)
    for _ in range(6):
        if e is not None and e.get('kind') in ('MaterializeTemporaryExpr', 'CXXBindTemporaryExpr', 'ExprWithCleanups', 'UnaryOperator') \
                and tu.kids(e):
            e = tu.strip(tu.kids(e)[0], casts=True)
        elif e is not None and e.get('kind') == 'CXXConstructExpr' and len(tu.kids(e)) == 1:
            e = tu.strip(tu.kids(e)[0], casts=True)
        else:
            break
    fn = None
    label = None
    if e is not None and e.get('kind') == 'DeclRefExpr':
        fn = tu.functions.get(e.get('referencedDecl', {}).get('id'))
        label = e.get('referencedDecl', {}).get('name')
    elif e is not None and e.get('kind') == 'LambdaExpr':
        fn = tu.functions.get(tu.sd(e).get('op'))
        label = 'the lambda at %s' % tu.loc(e)
    if fn is None or fn['dep'] or tu.body(fn) is None or len(fn.get('params', [])) != 2:
        return None
    stm = [y for y in tu.walk(tu.body(fn)) if y.get('kind') in ('ReturnStmt', 'IfStmt', 'ForStmt', 'WhileStmt', 'DeclStmt', 'CallExpr',
                                                                  'CXXMemberCallExpr', 'ConditionalOperator')]
    if len(stm) != 1 or stm[0].get('kind') != 'ReturnStmt' or not tu.kids(stm[0]):
        return None
    c = tu.strip(tu.kids(stm[0])[0], casts=True)
    if c is None or c.get('kind') != 'CXXOperatorCallExpr' or tu.sd(c).get('q') not in ('std::operator<', 'std::operator>'):
        return None
    ks = [tu.strip(y, casts=True) for y in tu.kids(c)[1:]]
    pids = [p_['id'] for p_ in fn['params']]
    got = []
    for y in ks:
        if y is None or y.get('kind') != 'MemberExpr' or y.get('name') != 'first' or not (tu.sd(y).get('q') or '').startswith('std::pair<'):
            return None
        b = tu.strip(tu.kids(y)[0], casts=True) if tu.kids(y) else None
        if b is None or b.get('kind') != 'DeclRefExpr':
            return None
        got.append(b.get('referencedDecl', {}).get('id'))
    if sorted(got) != sorted(pids) or got[0] == got[1]:
        return None
    asc = (got == pids) == (tu.sd(c).get('q') == 'std::operator<')
    return {'label': label, 'fn': fn['id'], 'asc': asc}


def order_scan(tu, field_q):
    """classify every access to the member `field_q` in every function body of the unit:
       [(kind, text, node, function)]  kind: append | read | iterate | destroy | undecided"""
    out = []

    def algo(call, fn, depth):
        q = tu.sd(call).get('q') or ''
        nm = last_name(q)
        nargs = len(tu.kids(call)) - 1
        if q in ('std::sort', 'std::stable_sort') and nargs == 3:
            cmpf = names_only_order(tu, tu.kids(call)[3])
            if cmpf is not None and q == 'std::stable_sort':
                return ('keep', 'std::stable_sort with `%s`, which looks at the names only: entries of one name stay in URL order' % cmpf)
            if cmpf is not None:
                return ('destroy', 'std::sort is not a stable sort: `%s` looks at the names only, so entries of one name compare equal '
                                   'and may come out in any order (libstdc++ permutes them from 17 elements on): the URL order of '
                                   'parameters with equal names is lost' % cmpf)
        if q.startswith('std::') and nm in ORDER_DESTROY:
            return ('destroy', 'std::%s reorders / overwrites the elements: the URL order of parameters with equal names is lost' % nm)
        if q == 'std::stable_sort' and nargs == 2:
            return ('destroy', 'std::stable_sort without a comparator orders std::pair by name and then by value: parameters with '
                               'equal names are reordered by value')
        if q.startswith('std::') and nm in ORDER_KEEP_UNKNOWN:
            return ('undecided', 'std::%s rearranges the list; whether equal names keep their URL order is not decided' % nm)
        if q.startswith('std::') and nm in ORDER_READ:
            return ('read', 'std::%s' % nm)
        return ('undecided', 'iterator into the list is passed to `%s`' % (q or tu.show(call)))

    def follow(node, fn, depth=0):
        """what happens to an iterator value produced by `node`"""
        if depth > 6:
            return [('undecided', 'iterator flow too deep')]
        cur = node
        p = tu.par(cur)
        while p is not None and p.get('kind') in WRAP:
            if p.get('kind') == 'CXXConstructExpr' and '__normal_iterator' not in (tu.sd(p).get('q') or '') \
                    and 'reverse_iterator' not in (tu.sd(p).get('q') or ''):
                break
            cur, p = p, tu.par(p)
        if p is None:
            return [('undecided', 'iterator use not understood')]
        k = p.get('kind')
        if k == 'CallExpr':
            return [algo(p, fn, depth)]
        if k in ('CXXOperatorCallExpr', 'CXXMemberCallExpr'):
            nm = last_name(tu.sd(p).get('q'))
            if nm in ('operator+', 'operator-', 'operator++', 'operator--', 'operator+=', 'operator-=') and \
                    '__normal_iterator' in (tu.sd(p).get('ct') or ''):
                return follow(p, fn, depth + 1)
            if nm in ('operator!=', 'operator==', 'operator<', 'operator*', 'operator->', 'operator-', 'operator++', 'operator--',
                      'operator+=', 'operator-=', 'base', 'operator<=', 'operator>', 'operator>='):
                return [('iterate', nm)]
            return [('undecided', 'iterator is passed to `%s`' % tu.show(p))]
        if k == 'VarDecl':
            if (p.get('name') or '').startswith('__begin') or (p.get('name') or '').startswith('__end'):
                return [('iterate', 'range-for')]
            res = []
            body = tu.body(fn)
            for y in tu.walk(body):
                if y.get('kind') == 'DeclRefExpr' and y.get('referencedDecl', {}).get('id') == p.get('id'):
                    res += follow(y, fn, depth + 1)
            return res or [('iterate', 'unused iterator')]
        if k in ('MemberExpr',):
            return [('iterate', 'member of iterator')]
        if k == 'BinaryOperator' and p.get('opcode') in ('==', '!='):
            return [('iterate', 'compare')]
        return [('undecided', 'iterator flows into `%s`' % tu.show(p))]

    seen_nodes = set()
    for f in tu.functions.values():
        if f['dep'] or f.get('implicit') or f.get('defaulted'):
            continue
        body = tu.body(f)
        if body is None:
            continue
        for n in tu.walk(body):
            if n.get('kind') != 'MemberExpr' or tu.sd(n).get('q') != field_q or tu.sd(n).get('k') != 'member':
                continue
            if n['id'] in seen_nodes or _owned_by_lambda(tu, f, n['id']):
                continue               # inside a lambda body: reported once, for the lambda's call operator
            seen_nodes.add(n['id'])
            if (tu.sd(n).get('ct') or '').startswith('const '):
                out.append(('read', 'const access', n, f))
                continue
            p = tu.par(n)
            cur = n
            const = False
            while p is not None and p.get('kind') in ('ImplicitCastExpr', 'ParenExpr'):
                if p.get('castKind') == 'NoOp' and (tu.sd(p).get('ct') or '').startswith('const '):
                    const = True
                cur, p = p, tu.par(p)
            if const:
                out.append(('read', 'const access', n, f))
                continue
            pk = p.get('kind') if p else None
            if pk == 'MemberExpr':
                mname = p.get('name')
                call = tu.par(p)
                if mname in VEC_APPEND:
                    out.append(('append', mname, call, f))
                elif mname in VEC_READ:
                    out.append(('read', mname, call, f))
                elif mname in VEC_ITER:
                    for kind, text in follow(call, f):
                        out.append((kind, text, call, f))
                elif mname in ('insert', 'emplace'):
                    args = tu.kids(call)[1:] if call is not None else []
                    at_end = False
                    if args:
                        for y in tu.walk(args[0]):
                            if y.get('kind') == 'MemberExpr' and y.get('name') in ('end', 'cend'):
                                at_end = True
                    out.append(('append', mname + ' at end()', call, f) if at_end else
                               ('undecided', '`%s` inserts into the list at a position other than its end' % tu.show(call), call, f))
                else:
                    out.append(('undecided', 'the list is modified by `%s`' % mname, call, f))
            elif pk == 'CXXOperatorCallExpr' and last_name(tu.sd(p).get('q')) == 'operator[]':
                out.append(('read', 'operator[]', p, f))
            elif pk == 'VarDecl' and (p.get('name') or '').startswith('__range'):
                out.append(('iterate', 'range-for', p, f))
            elif pk == 'CallExpr':
                kind, text = algo(p, f, 0)
                out.append((kind if kind != 'read' else 'undecided', 'the whole list is passed to `%s`' % (tu.sd(p).get('q') or '?'), p, f))
            else:
                out.append(('undecided', 'the list is used in `%s`' % (tu.show(p) if p else '?'), n, f))
    return out


def visitor_store_order(ctx, tu, f, x, recs, sch, R, inst, key):
    """the constructor hands a lambda to the tokeniser's worker (the function checked under R-C18-2 / R-C18-7, or another
    instance of the same template), which calls it once per token in ascending order; a bool local of the constructor,
    initially false and set by the lambda, tells the first call (the file name) from all later ones (one store each).
    Returns False if the shape is not this one at all (nothing reported)."""
    lams = []
    for y in tu.walk(tu.body(f)):
        if y.get('kind') == 'LambdaExpr':
            op = tu.functions.get(tu.sd(y).get('op'))
            if op is not None and any(kind == 'append' and ff is op for kind, text, node, ff in recs):
                lams.append((y, op))
    if len(lams) != 1:
        return False
    lam, op = lams[0]
    g = tu.cfg(op)
    if g is None or len(op.get('params', [])) != 2:
        return False
    loc = tu.loc(lam)
    # -- the call the lambda is handed to: one call, not in a loop, of a verified token worker
    call = None
    for b, i, nd in x.g.stmts():
        if nd.get('kind') == 'CallExpr' and any(z is lam or z.get('id') == lam['id'] for a in tu.kids(nd)[1:] for z in tu.walk(a)):
            call = (nd, (b.id, i))
    if call is None:
        ctx.undecided(R, inst, 'the lambda that stores the parameters is not handed to a function call directly', loc)
        return True
    hf = tu.callee_fn(call[0])
    workers = [token_worker(tu, tf_) for tf_ in tu.fns(q='rkcommon::utility::tokenize') if not tf_['dep'] and tu.cfg(tf_) is not None]
    same = hf is not None and any(hf is w or (hf.get('pat') is not None and hf.get('pat') == w.get('pat')) for w in workers)
    if not same:
        ctx.undecided(R, inst, 'the parameter-storing lambda is called by `%s`, which is not the token walk checked under R-C18-7: '
                      'the order of its calls is not decided' % (tu.sd(call[0]).get('q') or tu.show(call[0])), loc)
        return True
    emits = [1 for _ in TokenFn(tu, hf).pushes()]
    if not emits:
        ctx.undecided(R, inst, 'cannot see where `%s` calls its visitor' % fn_name(hf), loc)
        return True
    for h in loops_of(x):
        if call[1][0] in CountLoop._body_blocks(_Hdr(x, h)):
            ctx.undecided(R, inst, 'the token walk is started inside a loop of the constructor', loc)
            return True
    # -- the flag: a bool local of the constructor, `false` to begin with, touched only inside the lambda
    flags = {}
    for y in tu.walk(tu.body(op)):
        if y.get('kind') == 'DeclRefExpr':
            d = tu.node(y.get('referencedDecl', {}).get('id'))
            if d is not None and d.get('kind') == 'VarDecl' and d.get('type', {}).get('qualType') == 'bool' and \
                    not in_lambda_of(tu, f, d['id']) and tu.enclosing_fn(d) is not None and tu.enclosing_fn(d)['id'] == f['id']:
                flags[d['id']] = d
    if len(flags) != 1:
        ctx.undecided(R, inst, 'cannot tell how the lambda keeps the first token (the file name) apart from the parameters: '
                      'expected one bool local of the constructor, found %d' % len(flags), loc)
        return True
    fid, fdecl = list(flags.items())[0]
    ks = tu.kids(fdecl)
    init = tu.strip(ks[0], casts=True) if ks else None
    if init is None or init.get('kind') != 'CXXBoolLiteralExpr' or init.get('value') is not False:
        ctx.undecided(R, inst, '`%s` does not start out as false' % fdecl.get('name'), loc)
        return True
    for y in tu.walk(tu.body(f)):
        if y.get('kind') == 'DeclRefExpr' and y.get('referencedDecl', {}).get('id') == fid and not in_lambda_of(tu, f, y['id']):
            ctx.undecided(R, inst, '`%s` is also used outside the lambda' % fdecl.get('name'), loc)
            return True
    append_ids = {}
    for kind, text, node, ff in recs:
        if kind == 'append' and ff is op and node is not None:
            append_ids[node['id']] = append_ids.get(node['id'], 0) + 1
    pids = [p_['id'] for p_ in op['params']]

    def is_flag(e):
        e = tu.strip(e, casts=True)
        return e is not None and e.get('kind') == 'DeclRefExpr' and e.get('referencedDecl', {}).get('id') == fid

    def token_extent(args):
        ids = [(tu.strip(z, casts=True) or {}).get('referencedDecl', {}).get('id') for z in args]
        return ids[-2:] == pids

    odd = []

    def transfer(blk, i, e, st):
        if e[0] != 'S':
            return [st]
        nd = tu.node(e[1])
        if nd is None:
            return [st]
        fin, cur, ap, fa = st
        k = nd.get('kind')
        if nd['id'] in append_ids:
            ap = min(ap + append_ids[nd['id']], 3)
        if k == 'BinaryOperator' and nd.get('opcode') == '=' and is_flag(tu.kids(nd)[0]):
            r = tu.strip(tu.kids(nd)[1], casts=True)
            if r is not None and r.get('kind') == 'CXXBoolLiteralExpr':
                cur = bool(r.get('value'))
            else:
                odd.append('`%s`' % tu.show(nd))
        elif k in ('CompoundAssignOperator', 'UnaryOperator') and nd.get('opcode') != '!' and tu.kids(nd) and is_flag(tu.kids(nd)[0]):
            odd.append('`%s`' % tu.show(nd))
        if k in ('CXXMemberCallExpr', 'CXXOperatorCallExpr'):
            nm = last_name(tu.sd(nd).get('q'))
            if k == 'CXXMemberCallExpr':
                s_, obj, args = tu.call_parts(nd)
            else:
                obj, args = (tu.kids(nd)[1], tu.kids(nd)[2:]) if len(tu.kids(nd)) >= 2 else (None, [])
            if nm in ('assign', 'operator=') and obj is not None and (tu.sd(nd).get('q') or '').startswith('std::basic_string<'):
                o = tu.strip(obj, casts=True)
                if o is not None and o.get('kind') == 'MemberExpr' and tu.sd(o).get('k') == 'member' and \
                        last_name(tu.sd(o).get('q')) == 'fileName':
                    real = [a for a in args if a.get('kind') != 'CXXDefaultArgExpr']
                    ok_ = False
                    if nm == 'assign' and len(real) == 3 and token_extent(real):
                        ok_ = True
                    elif len(real) == 1:
                        r = FnX.peel(x, real[0])
                        if r is not None and r.get('kind') == 'CXXMemberCallExpr' and last_name(tu.sd(r).get('q')) == 'substr' and \
                                token_extent(tu.call_parts(r)[2]):
                            ok_ = True
                    fa = min(fa + 1, 2) if ok_ else 9
        return [(fin, cur, ap, fa)]

    def refine(blk, si, st):
        c = deciding_cond(tu, blk, g)
        e = tu.strip(c, casts=True) if c is not None else None
        neg = False
        while e is not None and e.get('kind') == 'UnaryOperator' and e.get('opcode') == '!':
            neg = not neg
            e = tu.strip(tu.kids(e)[0], casts=True)
        if e is not None and is_flag(e) and len(blk.succ) == 2:
            val = st[1] != neg             # value of the condition
            return [st] if (si == 0) == val else []
        return [st]

    try:
        res = g.explore([(False, False, 0, 0), (True, True, 0, 0)], transfer, refine, limit=20000)
    except RuntimeError:
        ctx.undecided(R, inst, 'the lambda has too many paths', loc)
        return True
    outs = {st for st, via in res.exits}
    bad, und = [], list(odd)
    nm = fdecl.get('name')
    first = [st for st in outs if st[0] is False]
    later = [st for st in outs if st[0] is True]
    if not first or not later:
        und.append('no path through the lambda found for %s' % ('the first call' if not first else 'the later calls'))
    for fin, cur, ap, fa in first:
        if ap:
            bad.append(('params-loop-start', 'the first token (the file name, `%s` still false) is also stored as a parameter' % nm))
        if cur is False:
            bad.append(('params-per-token', 'a path of the first call leaves `%s` false: the next token is again taken for the file name '
                        'and is stored 0 times as a parameter, expected exactly once' % nm))
        if fa == 9:
            und.append('the file name is assigned from something other than the token (offset, length)')
        elif fa != 1 and not ap:
            und.append('the first call assigns the file name %d times' % fa)
    for fin, cur, ap, fa in later:
        if ap != 1:
            bad.append(('params-per-token', 'a token is stored (appended, or written over the entry of the same name) %d times on some '
                        'path through the lambda once `%s` is set, expected exactly once' % (ap, nm)))
        if fa:
            bad.append(('file-name-token', 'a token behind the first one is assigned to the file name'))
        if cur is False:
            und.append('`%s` is reset by a later call' % nm)
    for kind_, msg_, nd_ in sch.get('problems', []):
        bad.append((kind_, msg_))
    if sch['dup'] == 'unknown':
        und.append('how the constructor stores repeated names is not decided: %s' % sch.get('why'))
    if bad:
        seen = set()
        for k_, m_ in bad:
            if (k_, m_) not in seen:
                seen.add((k_, m_))
                ctx.violation(R, inst, m_, loc, key=key + k_)
    elif und:
        for u in sorted(set(und)):
            ctx.undecided(R, inst, u, loc)
    else:
        ctx.ok(R, inst, '`%s` calls the lambda once per token in ascending order (R-C18-7); first call (`%s` false): file name from '
               'the token, no store; every later call: one store; %s' % (fn_name(hf), nm, sch['why']), loc)
    return True


def check_param_order(ctx, tu, tu_w, sch=None):
    sch = sch or url_store_scheme(tu)
    R = 'R-C18-9'
    ctx.describe(R, 'the name=value list keeps URL order: PseudoURL::params is only appended to (once per token, tokens 1..n in '
                    'ascending order, token 0 is the file name) and is never handed to an operation that reorders or overwrites it')
    n = 0
    # ---- positive example (the expected count of order-destroying operations in /repo is zero)
    wr = order_scan(tu_w, 'rkverif::c18w::Bag::items')
    wk = [r[0] for r in wr]
    if wk.count('destroy') < 2 or wk.count('append') < 1 or 'undecided' in wk:
        ctx.broken('R-C18-9: the positive example witness/c18_param_order.cpp is not classified as expected (%s)' % wk)
    fq = URL + '::params'
    rec = [r for r in tu.records.values() if r.get('q') == URL]
    fld = [fl for r in rec for fl in r.get('fields', []) if fl['name'] == 'params']
    if not fld:
        ctx.broken('R-C18-9: member %s not found' % fq)
        return 0
    pairs = 'std::pair<std::basic_string<char>, std::basic_string<char>>' in fld[0]['ct']
    recs = order_scan(tu, fq)
    appends = 0
    for kind, text, node, f in recs:
        n += 1
        file, fname = tu.fn_file(f), fn_name(f)
        inst = '%s: `%s`' % (fname, tu.show(node))
        loc = tu.loc(node)
        if kind == 'destroy':
            if pairs:
                ctx.violation(R, inst, '%s; afterwards no lookup can tell which duplicate came last in the URL' % text, loc,
                              key='%s|%s|%s|reorders-params-%s' % (R, file, fname, (re.findall(r'std::(\w+)', text) or ['op'])[0]))
            else:
                ctx.undecided(R, inst, text + ' (element type is not a plain pair of strings)', loc)
        elif kind == 'undecided':
            ctx.undecided(R, inst, text, loc)
        else:
            if kind == 'append':
                appends += 1
            ctx.ok(R, inst, kind + (': ' + text if text else ''), loc, nontrivial=(kind == 'append'))
    if appends < 1:
        ctx.broken('R-C18-9: no append to %s found' % fq)
    # ---- the constructor appends once per token, in token order
    for f in tu.fns(q=URL + '::PseudoURL'):
        if f['dep'] or tu.cfg(f) is None or f.get('implicit') or f.get('ctor') in ('copy', 'move') or not f.get('params'):
            continue
        n += 1
        x = FnX(tu, f)
        file, fname = tu.fn_file(f), fn_name(f)
        inst = '%s: one parameter per token, in token order' % fname
        key = '%s|%s|%s|' % (R, file, fname)
        sites = [(node, x.pos_of(node)) for kind, text, node, ff in recs if kind == 'append' and ff is f]
        hs = [h for h in loops_of(x) if any(pos and pos[0] in CountLoop._body_blocks(_Hdr(x, h)) for nd, pos in sites)]
        if not sites and visitor_store_order(ctx, tu, f, x, recs, sch, R, inst, key):
            continue
        if len(hs) != 1 or not sites:
            ctx.undecided(R, inst, 'the appends are not inside exactly one loop', tu.fn_loc(f))
            continue
        lp = CountLoop(x, hs[0])
        if not lp.ok:
            ilp = IterLoop(x, hs[0])
            if ilp.ok:
                lp = ilp
        if not lp.ok:
            ctx.undecided(R, inst, lp.why, tu.fn_loc(f))
            continue
        loc = tu.loc(lp.cond)
        bad, und = [], []
        if any(pos[0] not in lp.body for nd, pos in sites):
            und.append('a parameter is appended outside the token loop')
        # exactly one append on every path through the body
        g = x.g
        site_blocks = {}
        for nd, pos in sites:
            site_blocks[pos[0]] = site_blocks.get(pos[0], 0) + 1
        for u in sch.get('updates', []):       # an in-place update of the entry with the same name also stores the token
            if sch.get('f') is f or (sch.get('f') or {}).get('id') == f['id']:
                site_blocks[u['pos'][0]] = site_blocks.get(u['pos'][0], 0) + 1
        counts = set()
        start = g.blocks[lp.header].succ[0]
        stack = [(start, 0, frozenset())]
        steps = 0
        while stack and steps < 5000:
            b, c, seen = stack.pop()
            steps += 1
            c += site_blocks.get(b, 0)
            for s_ in g.blocks[b].succ:
                if s_ is None:
                    continue
                if s_ == lp.header:
                    counts.add(c)
                elif s_ in lp.body and s_ not in seen:
                    stack.append((s_, c, seen | {b}))
        if counts != {1}:
            bad.append(('params-per-token', 'a token is stored (appended, or written over the entry of the same name) %s times on some '
                        'path through the loop, expected exactly once' % sorted(counts)))
        for kind_, msg_, nd_ in sch.get('problems', []):
            bad.append((kind_, msg_))
        if sch['dup'] == 'unknown':
            und.append('how the constructor stores repeated names is not decided: %s' % sch.get('why'))
        if lp.step != 1 or not lp.ascending_test:
            bad.append(('token-order', 'the tokens are not walked in ascending order (step %s): the URL order of the parameters is lost' % lp.step))
        # tokens vector: the loop bound is size(tokens); token 0 is the file name
        if isinstance(lp, IterLoop):
            # iterator loop: the file name is `*it` after fn0 increments, the loop starts after lp.first_index increments
            fn0 = None
            for b, i, nd in g.stmts():
                if nd.get('kind') == 'CXXOperatorCallExpr' and last_name(tu.sd(nd).get('q')) == 'operator=' and \
                        (tu.sd(nd).get('q') or '').startswith('std::basic_string<'):
                    ks = tu.kids(nd)[1:]
                    if len(ks) == 2 and x.objkey(ks[0])[0] == 'field':
                        r = x.peel(ks[1])
                        if r is not None and r.get('kind') == 'CXXOperatorCallExpr' and last_name(tu.sd(r).get('q')) == 'operator*' and \
                                x.var_of(tu.kids(r)[1])[0] == lp.it and (b.id not in lp.body):
                            fn0 = lp.index_at((b.id, i))
            first = lp.first_index
            if fn0 is None:
                und.append('cannot find `member = *iterator` for the file name before the loop')
            elif first != fn0 + 1:
                bad.append(('params-loop-start', 'the file name is token %d but the parameters start at token %d: %s'
                            % (fn0, first, 'a parameter is dropped' if first > fn0 + 1 else 'the file name is also stored as a parameter')))
            if bad:
                for k, m in bad:
                    ctx.violation(R, inst, m, loc, key=key + k)
            elif und:
                for u in und:
                    ctx.undecided(R, inst, u, loc)
            else:
                ctx.ok(R, inst, 'iterator loop over the tokens from token %d to end(), one store per token; %s' % (first, sch['why']), loc)
            continue
        ba = (lp.bound_excl if lp.ascending_test else Poly.const(0)).as_atom()
        if not (isinstance(ba, tuple) and ba[0] == 'size' and ba[1][0] == 'var'):
            und.append('loop bound `%s` is not the number of tokens' % tu.show(lp.cond))
        else:
            tokkey = ba[1]
            fn0 = None
            for b, i, nd in g.stmts():
                if nd.get('kind') == 'CXXOperatorCallExpr' and last_name(tu.sd(nd).get('q')) == 'operator=' and \
                        (tu.sd(nd).get('q') or '').startswith('std::basic_string<'):
                    ks = tu.kids(nd)[1:]
                    if len(ks) == 2 and x.objkey(ks[0])[0] == 'field':
                        r = x.peel(ks[1])
                        if r is not None and r.get('kind') == 'CXXOperatorCallExpr' and last_name(tu.sd(r).get('q')) == 'operator[]':
                            rk = tu.kids(r)[1:]
                            if x.objkey(rk[0]) == tokkey:
                                fn0 = x.poly_at(rk[1], (b.id, i)).as_int()
            first = lp.init.as_int()
            if fn0 is None or first is None:
                und.append('cannot find `member = tokens[constant]` for the file name or the first parameter index')
            elif first != fn0 + 1:
                bad.append(('params-loop-start', 'the file name is token %d but the parameters start at token %d: %s'
                            % (fn0, first, 'a parameter is dropped' if first > fn0 + 1 else 'the file name is also stored as a parameter')))
        if bad:
            for k, m in bad:
                ctx.violation(R, inst, m, loc, key=key + k)
        elif und:
            for u in und:
                ctx.undecided(R, inst, u, loc)
        else:
            ctx.ok(R, inst, 'ascending loop over tokens [%s, %s), one store per token; %s' % (lp.init.show(), lp.bound_excl.show(), sch['why']), loc)
    return n


# ====================================================================================================
#  R-C18-12  the helpers are pure functions of their arguments: no mutable object with static storage duration
# ====================================================================================================
SYNC_TYPES = ('atomic', 'mutex', 'once_flag', 'condition_variable')


def reachable_fns(tu, roots):
    out, work = [], list(roots)
    seen = set()
    while work:
        f = work.pop()
        if f['id'] in seen or f['dep'] or tu.body(f) is None:
            continue
        seen.add(f['id'])
        out.append(f)
        for n in tu.walk(tu.body(f)):
            if n.get('kind') in ('CallExpr', 'CXXMemberCallExpr', 'CXXOperatorCallExpr', 'CXXConstructExpr', 'CXXTemporaryObjectExpr'):
                cf = tu.callee_fn(n)
                if cf is not None and cf['id'] not in seen:
                    work.append(cf)
    return out


def static_uses(tu, fns):
    """{var decl id: (VarDecl node, [(kind, function, node)])} for the non-const variables with static / thread storage
    duration that the functions mention; kind: read | write | returned | unknown"""
    res = {}
    for f in fns:
        for n in tu.walk(tu.body(f)):
            if n.get('kind') != 'DeclRefExpr' or n.get('nonOdrUseReason') == 'unevaluated':
                continue
            rd = n.get('referencedDecl', {})
            if rd.get('kind') != 'VarDecl':
                continue
            d = tu.node(rd.get('id'))
            if d is None or d.get('kind') != 'VarDecl':
                continue
            pk = (tu.par(d) or {}).get('kind')
            static = d.get('storageClass') == 'static' or d.get('tls') or pk in ('NamespaceDecl', 'TranslationUnitDecl', 'LinkageSpecDecl')
            ty = d.get('type', {})
            qt = ty.get('desugaredQualType') or ty.get('qualType', '')
            if not static or d.get('constexpr') or top_const(qt) or qt.endswith('&'):
                continue
            # how is it used?
            cur, p = n, tu.par(n)
            kind = None
            for _ in range(12):
                if p is None:
                    break
                k = p.get('kind')
                if k == 'ParenExpr':
                    cur, p = p, tu.par(p)
                    continue
                if k == 'ImplicitCastExpr':
                    ck = p.get('castKind')
                    if ck == 'LValueToRValue':
                        kind = 'read'
                        break
                    if ck == 'NoOp' and 'const' in (tu.sd(p).get('ct') or ''):
                        # pointer / reference to const from here on
                        pp = tu.par(p)
                        kind = 'returned' if pp is not None and pp.get('kind') == 'ReturnStmt' else 'read'
                        break
                    cur, p = p, tu.par(p)
                    continue
                if k in ('BinaryOperator', 'CompoundAssignOperator') and p.get('opcode', '=').endswith('=') and \
                        p.get('opcode') not in ('==', '!=', '<=', '>=') and tu.kids(p)[0] is cur:
                    kind = 'write'
                    break
                if k == 'UnaryOperator' and p.get('opcode') in ('++', '--'):
                    kind = 'write'
                    break
                if k == 'ArraySubscriptExpr' and tu.kids(p)[0] is cur:
                    cur, p = p, tu.par(p)
                    continue
                if k == 'ReturnStmt':
                    kind = 'returned'
                    break
                if k in ('CallExpr', 'CXXOperatorCallExpr', 'CXXMemberCallExpr', 'CXXConstructExpr'):
                    # handed to a callee through a pointer / reference to non-const: the callee may write it
                    kind = 'write'
                    break
                if k == 'MemberExpr':
                    kind = 'write'       # non-const member function on the object
                    break
                if k == 'UnaryOperator' and p.get('opcode') == '&':
                    cur, p = p, tu.par(p)
                    continue
                break
            res.setdefault(d['id'], (d, []))[1].append((kind or 'unknown', f, n))
    return res


def check_pure(ctx, tu, roots, report=True):
    """returns list of (verdict, var name, function, node, text)"""
    R = 'R-C18-12'
    fns = reachable_fns(tu, roots)
    out = []
    for vid, (d, uses) in sorted(static_uses(tu, fns).items(), key=lambda kv: kv[1][0].get('name') or ''):
        ty = d.get('type', {}).get('qualType', '')
        kinds = [u[0] for u in uses]
        wr = [u for u in uses if u[0] == 'write']
        where = 'function-local static' if d.get('storageClass') == 'static' and (tu.par(d) or {}).get('kind') == 'DeclStmt' else \
            'thread_local' if d.get('tls') else 'namespace-scope'
        users = sorted({fn_name(u[1]) for u in uses})
        if not wr and 'unknown' not in kinds:
            out.append(('ok', d, uses[0][1], uses[0][2], '%s `%s` is only read' % (where, d.get('name'))))
        elif d.get('tls') or any(t in ty for t in SYNC_TYPES):
            out.append(('undecided', d, uses[0][1], uses[0][2], '%s `%s` (%s) is modified by %s: synchronised / per-thread state is not '
                        'analysed' % (where, d.get('name'), ty, ', '.join(users))))
        elif wr:
            f0, n0 = wr[0][1], wr[0][2]
            handed = 'returned' in kinds or 'read' in kinds
            out.append(('violation', d, f0, n0, '%s `%s` (%s) is written in %s%s, which the string / number helpers reach: they are no '
                        'longer pure functions of their arguments -- concurrent calls race on `%s` and can return the text of another '
                        'call' % (where, d.get('name'), ty, fn_name(f0), ' and then handed out / read' if handed else '', d.get('name'))))
        else:
            out.append(('undecided', d, uses[0][1], uses[0][2], 'cannot classify the use of the %s `%s`' % (where, d.get('name'))))
    return fns, out


# ====================================================================================================
#  R-C18-11  FileName normal form: whoever writes the private string establishes "no trailing separator"
# ====================================================================================================
STR_WRITE = {'append', 'push_back', 'assign', 'insert', 'erase', 'resize', 'pop_back', 'clear', 'replace', 'swap'}
STR_SHRINK = {'resize', 'pop_back', 'erase'}


def has_strip(tu, f, tkey):
    """does f strip every trailing separator from the string designated by tkey?
       loop form:  while (... T[T.size()-1] == sep / T.back() == sep) T.resize(T.size()-1) / T.pop_back()
       find form:  last = T.find_last_not_of(sep); T.resize(last + 1) / T.erase(last + 1)
    returns (True, text) | (False, has_some_shrink)"""
    x = FnX(tu, f)
    g = x.g
    if g is None:
        return (False, False)
    SIZE = Poly.atom(('size', tkey))
    shrinks = []
    for b, i, n in g.stmts():
        if n.get('kind') == 'CXXMemberCallExpr' and (tu.sd(n).get('q') or '').startswith('std::basic_string<') and \
                last_name(tu.sd(n).get('q')) in STR_SHRINK:
            s, obj, args = tu.call_parts(n)
            if x.objkey(obj) == tkey:
                shrinks.append((n, (b.id, i), args))
    # find form
    for n, pos, args in shrinks:
        real = [a for a in args if a.get('kind') != 'CXXDefaultArgExpr']
        if last_name(tu.sd(n).get('q')) in ('resize', 'erase') and len(real) == 1:
            p = x.poly_at(real[0], pos)
            for a in p.atoms(deep=False):
                if isinstance(a, tuple) and a[0] in ('var', 'expr') and (p - Poly.atom(a)).as_int() == 1:
                    if a[0] == 'var':
                        init = x.single_init(a[1])
                        e = x.peel(init) if init is not None else None
                    else:
                        e = tu.node(a[1])
                    if e is not None and e.get('kind') == 'CXXMemberCallExpr' and last_name(tu.sd(e).get('q')) == 'find_last_not_of':
                        s2, o2, a2 = tu.call_parts(e)
                        r2 = [y for y in a2 if y.get('kind') != 'CXXDefaultArgExpr']
                        if x.objkey(o2) == tkey and len(r2) == 1 and x.poly_at(r2[0], None).as_int() in (47, 92) and \
                                x.g.postdominates(pos, x.pos_of(e)):
                            return (True, '%s(find_last_not_of(separator) + 1)' % last_name(tu.sd(n).get('q')), pos, x)
    # loop form
    heads = loops_of(x)
    for h in heads:
        body = CountLoop._body_blocks(_Hdr(x, h)) | {h}
        test = None
        for bid in body:
            b = g.blocks[bid]
            if b.cond is None:
                continue
            c = tu.strip(deciding_cond(tu, b, g), casts=True)
            if c is None or c.get('kind') != 'BinaryOperator' or c.get('opcode') != '==':
                continue
            l, r = (tu.strip(y, casts=True) for y in tu.kids(c)[:2])
            for el, cs in ((l, r), (r, l)):
                if x.poly_at(cs, None).as_int() not in (47, 92) or el is None:
                    continue
                if el.get('kind') == 'CXXMemberCallExpr' and last_name(tu.sd(el).get('q')) == 'back':
                    if x.objkey(tu.call_parts(el)[1]) == tkey:
                        test = (b, c)
                if el.get('kind') in ('CXXOperatorCallExpr', 'CXXMemberCallExpr') and last_name(tu.sd(el).get('q')) in ('operator[]', 'at'):
                    s3, o3, a3 = tu.call_parts(el)
                    if x.objkey(o3) == tkey and a3 and x.poly_at(a3[0], x.pos_of(el)) == SIZE - 1:
                        test = (b, c)
        if test is None:
            continue
        b, c = test
        stay = b.succ[0]
        for n, pos, args in shrinks:
            if pos[0] not in body:
                continue
            nm = last_name(tu.sd(n).get('q'))
            real = [a for a in args if a.get('kind') != 'CXXDefaultArgExpr']
            one = nm == 'pop_back' or (nm in ('resize', 'erase') and len(real) == 1 and x.poly_at(real[0], pos) == SIZE - 1)
            # reached exactly when the last character is a separator, and the loop then tests again
            if one and pos[0] in _reach_blocks(g, stay, stop=h) and h in _reach_blocks(g, pos[0]):
                return (True, 'while (last character is a separator) drop it', pos, x)
    return (False, bool(shrinks))


def conversions_after_strip(tu, strip, tkey):
    """writes of a native separator into the string (T[i] = sep, `c = sep` for a reference c into T, std::replace(_if) over T)
    that can execute after the strip: each can put a separator back at the end"""
    if not strip[0] or len(strip) < 4:
        return []
    spos, x = strip[2], strip[3]
    g = x.g
    later = x.reach((spos[0], spos[1] + 1))
    out = []

    def is_sep(e):
        c = x.poly_at(e, None).as_int() if e is not None else None
        return c in (47, 92)

    for b, i, n in g.stmts():
        pos = (b.id, i)
        k = n.get('kind')
        hit = False
        if k == 'BinaryOperator' and n.get('opcode') == '=' and is_sep(tu.kids(n)[1]):
            l = tu.strip(tu.kids(n)[0], casts=True)
            if l is not None and l.get('kind') in ('CXXOperatorCallExpr', 'CXXMemberCallExpr') and \
                    last_name(tu.sd(l).get('q')) in ('operator[]', 'at', 'back'):
                hit = x.objkey(tu.call_parts(l)[1]) == tkey
            d, v = x.var_of(l) if l is not None else (None, None)
            if d is not None and (v['ct'] or '').rstrip().endswith('&') and v.get('init') is not None:
                # reference into the string: range-for variable over T
                for y in tu.walk(tu.body(x.f)):
                    if y.get('kind') == 'CXXForRangeStmt' and any(z.get('id') == d for z in tu.walk(y)):
                        for vd in tu.walk(y):
                            if vd.get('kind') == 'VarDecl' and (vd.get('name') or '').startswith('__range') and tu.kids(vd):
                                hit = hit or x.objkey(tu.kids(vd)[0]) == tkey
        if k == 'CallExpr' and tu.sd(n).get('q') in ('std::replace', 'std::replace_if', 'std::transform', 'std::fill'):
            args = tu.kids(n)[1:]
            over = any(y.get('kind') == 'CXXMemberCallExpr' and last_name(tu.sd(y).get('q')) in ('begin', 'end') and
                       x.objkey(tu.call_parts(y)[1]) == tkey for a in args[:2] for y in tu.walk(a))
            if over and args and (is_sep(args[-1]) or tu.sd(n).get('q') == 'std::transform'):
                hit = True
        if hit and pos in later and pos != spos:
            out.append((n, pos))
    return out


def by_value_normaliser(tu, x, e):
    """e = helper(<input>) where helper takes the string by value (or builds a local copy), normalises it and returns it:
    -> (helper function, key of the returned local) or None"""
    e = x.peel(e)
    for _ in range(4):
        if e is not None and e.get('kind') in ('CXXConstructExpr', 'CXXTemporaryObjectExpr', 'CXXFunctionalCastExpr'):
            ks = [y for y in tu.kids(e) if y.get('kind') != 'CXXDefaultArgExpr']
            if len(ks) == 1:
                e = x.peel(ks[0])
                continue
        break
    if e is None or e.get('kind') != 'CallExpr':
        return None
    hf = tu.callee_fn(e)
    if hf is None or hf['dep'] or tu.cfg(hf) is None or hf.get('rec'):
        return None
    hx = FnX(tu, hf)
    rets = [nd for b, i, nd in hx.g.stmts() if nd.get('kind') == 'ReturnStmt']
    if len(rets) != 1 or not tu.kids(rets[0]):
        return None
    d, v = hx.var_of(hx.peel(tu.kids(rets[0])[0]))
    if d is None or 'basic_string' not in (v['ct'] or '') or (v['ct'] or '').rstrip().endswith('&'):
        return None
    return hf, ('var', d, v['name'])


def field_writes(tu, f, fq):
    """[(kind, node, target key, detail)] for the non-const uses of the member fq in f
       kind: assign | append | method:<name> | elem-write | elem-iterate | delegate | read"""
    x = FnX(tu, f)
    out = []
    body = tu.body(f)
    if body is None:
        return x, out
    for n in tu.walk(body):
        if n.get('kind') != 'MemberExpr' or tu.sd(n).get('q') != fq or tu.sd(n).get('k') != 'member':
            continue
        if (tu.sd(n).get('ct') or '').startswith('const '):
            continue
        ks = tu.kids(n)
        base = tu.strip(ks[0], casts=True) if ks else None
        if base is None or tu.is_this(base):
            tkey = ('field', ('this',), n.get('name'))
        elif base.get('kind') == 'DeclRefExpr':
            rd = base.get('referencedDecl', {})
            tkey = ('field', ('var', rd.get('id'), rd.get('name')), n.get('name'))
        else:
            tkey = ('field', ('expr', base.get('id')), n.get('name'))
        cur, p = n, tu.par(n)
        const = False
        while p is not None and p.get('kind') in ('ImplicitCastExpr', 'ParenExpr'):
            if p.get('kind') == 'ImplicitCastExpr' and (p.get('castKind') == 'LValueToRValue' or
                                                      (p.get('castKind') == 'NoOp' and (tu.sd(p).get('ct') or '').startswith('const '))):
                const = True
            cur, p = p, tu.par(p)
        if const or p is None:
            continue
        pk = p.get('kind')
        q = tu.sd(p).get('q') or ''
        if pk == 'CXXOperatorCallExpr' and q.startswith('std::basic_string<') and tu.kids(p)[1] is cur:
            nm = last_name(q)
            if nm == 'operator=':
                out.append(('assign', p, tkey, tu.kids(p)[2]))
            elif nm == 'operator+=':
                out.append(('append', p, tkey, tu.kids(p)[2]))
            elif nm == 'operator[]':
                gp = tu.par(p)
                while gp is not None and gp.get('kind') in ('ParenExpr',):
                    gp = tu.par(gp)
                if gp is not None and gp.get('kind') in ('BinaryOperator', 'CompoundAssignOperator') and \
                        gp.get('opcode', '').endswith('=') and gp.get('opcode') not in ('==', '!=', '<=', '>=') and \
                        tu.strip(tu.kids(gp)[0]) is p:
                    out.append(('elem-write', gp, tkey, tu.kids(gp)[1]))
            else:
                out.append(('method:' + nm, p, tkey, None))
        elif pk == 'MemberExpr':
            call = tu.par(p)
            nm = p.get('name')
            if nm in STR_WRITE:
                if nm == 'push_back' or nm == 'append':
                    a = tu.kids(call)[1:] if call is not None else []
                    out.append(('append', call, tkey, a[0] if a else None))
                else:
                    out.append(('method:' + nm, call, tkey, None))
            elif nm in ('begin', 'end'):
                out.append(('elem-iterate', call, tkey, None))
        elif pk == 'VarDecl' and (p.get('name') or '').startswith('__range'):
            out.append(('elem-iterate', p, tkey, None))
        elif pk == 'CallExpr':
            args = tu.kids(p)[1:]
            idx = [i for i, a in enumerate(args) if a is cur]
            out.append(('delegate', p, tkey, (tu.callee_fn(p), idx[0] if idx else None)))
        elif pk == 'UnaryOperator' and p.get('opcode') == '&':
            out.append(('method:address-of', p, tkey, None))
    return x, out


def known_nonempty_tail(tu, x, sep_write, last):
    """the write `last` (target += <string member of a FileName>) follows the separator write in the same basic block, and every
    path to it has taken a branch edge that says the appended string is not empty"""
    ps, pl = x.pos_of(sep_write[1]), x.pos_of(last[1])
    if ps is None or pl is None or ps[0] != pl[0] or not ps[1] < pl[1] or last[0] != 'append':
        return False
    def okey(e):
        e = tu.strip(e, casts=True) if e is not None else None
        if e is None or e.get('kind') != 'MemberExpr' or tu.sd(e).get('k') != 'member':
            return None
        ks = tu.kids(e)
        base = tu.strip(ks[0], casts=True) if ks else None
        if base is None or tu.is_this(base):
            return ('field', 'this', tu.sd(e).get('q'))
        if base.get('kind') == 'DeclRefExpr':
            return ('field', base.get('referencedDecl', {}).get('id'), tu.sd(e).get('q'))
        return None
    skey = okey(last[3])
    if skey is None or skey[2] != FNAME + '::filename':
        return False
    bd = x.vars.get(skey[1]) if skey[1] != 'this' else None
    if bd is not None and (bd['defs'] or (bd['escaped'] and not top_const(bd['ct']) and 'const ' not in (bd['ct'] or ''))):
        return False
    for cn, truth, blk in x.guards(pl):
        c = tu.strip(cn, casts=True)
        neg = False
        while c is not None and c.get('kind') == 'UnaryOperator' and c.get('opcode') == '!':
            neg = not neg
            c = tu.strip(tu.kids(c)[0], casts=True)
        if c is None:
            continue
        val = truth != neg
        k = c.get('kind')
        q = tu.sd(c).get('q') or ''
        if k == 'CXXMemberCallExpr' and q.startswith('std::basic_string<') and last_name(q) == 'empty':
            if okey(tu.call_parts(c)[1]) == skey and val is False:
                return True
        elif k == 'CXXOperatorCallExpr' and last_name(q) in ('operator==', 'operator!=') and len(tu.kids(c)) == 3:
            a, b = tu.kids(c)[1:3]
            for u, v in ((a, b), (b, a)):
                lit = tu.strip(v, casts=True)
                if okey(u) == skey and lit is not None and lit.get('kind') == 'StringLiteral' and lit.get('value') == '""':
                    if val == (last_name(q) == 'operator!='):
                        return True
        elif k == 'BinaryOperator' and c.get('opcode') in ('>', '!=', '==', '>=', '<', '<='):
            # other.filename.size() > 0  /  != 0  /  >= 1
            l, r = tu.kids(c)[:2]
            op = c['opcode'] if val else {'>': '<=', '>=': '<', '<': '>=', '<=': '>', '==': '!=', '!=': '=='}[c['opcode']]
            for u, v, o in ((l, r, op), (r, l, {'>': '<', '<': '>', '>=': '<=', '<=': '>=', '==': '==', '!=': '!='}[op])):
                ue = tu.strip(u, casts=True)
                cv = x.poly_at(v, None).as_int()
                if ue is not None and ue.get('kind') == 'CXXMemberCallExpr' and last_name(tu.sd(ue).get('q')) in ('size', 'length') and \
                        okey(tu.call_parts(ue)[1]) == skey and cv is not None:
                    if (o == '>' and cv >= 0) or (o == '>=' and cv >= 1) or (o == '!=' and cv == 0):
                        return True
    return False


def string_known_nonempty(tu, x, pos, e):
    """every path to pos has taken a branch edge that says the std::string member expression e (filename / other.filename) is
    not empty:  !e.empty()  /  e != ""  /  e.size() > 0"""
    def okey(y):
        y = tu.strip(y, casts=True) if y is not None else None
        if y is None or y.get('kind') != 'MemberExpr' or tu.sd(y).get('k') != 'member':
            return None
        ks = tu.kids(y)
        base = tu.strip(ks[0], casts=True) if ks else None
        if base is None or tu.is_this(base):
            return ('field', 'this', tu.sd(y).get('q'))
        if base.get('kind') == 'DeclRefExpr':
            return ('field', base.get('referencedDecl', {}).get('id'), tu.sd(y).get('q'))
        return None
    skey = okey(e)
    if skey is None or pos is None:
        return False
    for cn, truth, blk in x.guards(pos):
        c = tu.strip(cn, casts=True)
        neg = False
        while c is not None and c.get('kind') == 'UnaryOperator' and c.get('opcode') == '!':
            neg = not neg
            c = tu.strip(tu.kids(c)[0], casts=True)
        if c is None:
            continue
        val = truth != neg
        k = c.get('kind')
        q = tu.sd(c).get('q') or ''
        if k == 'CXXMemberCallExpr' and q.startswith('std::basic_string<') and last_name(q) == 'empty':
            if okey(tu.call_parts(c)[1]) == skey and val is False:
                return True
        elif k == 'CXXOperatorCallExpr' and last_name(q) in ('operator==', 'operator!=') and len(tu.kids(c)) == 3:
            a, b = tu.kids(c)[1:3]
            for u, v in ((a, b), (b, a)):
                lit = tu.strip(v, casts=True)
                if okey(u) == skey and lit is not None and lit.get('kind') == 'StringLiteral' and lit.get('value') == '""':
                    if val == (last_name(q) == 'operator!='):
                        return True
        elif k == 'BinaryOperator' and c.get('opcode') in ('>', '!=', '==', '>=', '<', '<='):
            l, r = tu.kids(c)[:2]
            op = c['opcode'] if val else {'>': '<=', '>=': '<', '<': '>=', '<=': '>', '==': '!=', '!=': '=='}[c['opcode']]
            for u, v, o in ((l, r, op), (r, l, {'>': '<', '<': '>', '>=': '<=', '<=': '>=', '==': '==', '!=': '!='}[op])):
                ue = tu.strip(u, casts=True)
                cv = x.poly_at(v, None).as_int()
                if ue is not None and ue.get('kind') == 'CXXMemberCallExpr' and last_name(tu.sd(ue).get('q')) in ('size', 'length') and \
                        okey(tu.call_parts(ue)[1]) == skey and cv is not None:
                    if (o == '>' and cv >= 0) or (o == '>=' and cv >= 1) or (o == '!=' and cv == 0):
                        return True
    return False


def check_join_left(ctx, tu):
    R = 'R-C18-14'
    ctx.describe(R, 'joining file names: a path separator is put behind the string of a FileName (`filename + path_sep ...`, '
                    '`joined.filename += filename; += path_sep`) only where that string is known to be non-empty - an empty left '
                    'operand is neutral (FileName() + "x" is "x", not the absolute path "/x")')
    fq = FNAME + '::filename'
    n = 0
    for f in sorted(tu.functions.values(), key=lambda f: f['l']):
        if f['dep'] or f.get('implicit') or tu.cfg(f) is None or not tu.fn_file(f).endswith(('FileName.cpp', 'FileName.h')):
            continue
        x = FnX(tu, f)
        file, fname = tu.fn_file(f), fn_name(f)
        sites = []          # (node, left member expression, position)
        for b, i, nd in x.g.stmts():
            if nd.get('kind') == 'CXXOperatorCallExpr' and tu.sd(nd).get('q') == 'std::operator+' and len(tu.kids(nd)) == 3:
                l, r = tu.kids(nd)[1:3]
                le = x.peel(l)
                if le is not None and le.get('kind') == 'MemberExpr' and tu.sd(le).get('q') == fq and \
                        x.poly_at(r, None).as_int() in (47, 92):
                    sites.append((nd, le, (b.id, i)))
        # target += <FileName string>;  target += separator   (consecutive writes of one target)
        x2, ws = field_writes(tu, f, fq)
        by_t = {}
        for w in ws:
            by_t.setdefault(w[2], []).append(w)
        for tkey, tw in by_t.items():
            for a, b_ in zip(tw, tw[1:]):
                if a[0] in ('append', 'assign') and b_[0] == 'append' and a[3] is not None and b_[3] is not None:
                    ae = tu.strip(a[3], casts=True)
                    if ae is not None and ae.get('kind') == 'MemberExpr' and tu.sd(ae).get('q') == fq and \
                            x.poly_at(b_[3], None).as_int() in (47, 92):
                        sites.append((b_[1], ae, x.pos_of(b_[1])))
        for nd, le, pos in sites:
            n += 1
            inst = '%s %s: `%s`' % (fname, f['fty'], tu.show(nd))
            if string_known_nonempty(tu, x, pos, le):
                ctx.ok(R, inst, '`%s` is known to be non-empty here' % tu.show(le), tu.loc(nd))
            else:
                ctx.violation(R, inst, 'the separator is put behind `%s` although nothing on the way says that it is not empty: for an '
                              'empty left operand (FileName() + "x", path() of a bare file name, an unset home folder) the result is '
                              '"/x" - an absolute path - instead of "x"; the empty name must stay neutral, as in operator+(const '
                              'FileName &)' % tu.show(le), tu.loc(nd), key='%s|%s|%s|separator-behind-empty-left' % (R, file, fname))
    return n


def check_normal_form(ctx, tu):
    R = 'R-C18-11'
    ctx.describe(R, 'FileName normal form: every function that writes the private string either is a constructor / helper that strips all '
                    'trailing separators after storing its input, or only copies the string of another FileName; joining with a '
                    'separator must go through the normalising constructor')
    fq = FNAME + '::filename'
    n = 0
    for f in sorted(tu.functions.values(), key=lambda f: f['l']):
        if f['dep'] or f.get('implicit') or f.get('defaulted') or tu.cfg(f) is None or not tu.fn_file(f).endswith(('FileName.cpp', 'FileName.h')):
            continue
        x, ws = field_writes(tu, f, fq)
        # member initialiser of the string in a constructor
        init_from_param = None
        init_expr = None
        if f.get('ctor') and f.get('rec') == FNAME:
            for b in x.g.blocks.values():
                for e in b.el:
                    if e[0] == 'I' and e[3] == 'filename' and e[4]:
                        ie = tu.node(e[1])
                        init_expr = ie
                        for y in tu.walk(ie) if ie is not None else ():
                            if y.get('kind') == 'DeclRefExpr' and y.get('referencedDecl', {}).get('id') in x.params:
                                init_from_param = y
        if not ws and init_from_param is None:
            # a constructor that hands its argument to another (non-copy) constructor of FileName is normalised by that one
            if f.get('ctor') and f.get('rec') == FNAME and f.get('ctor') not in ('copy', 'move') and f.get('params'):
                for b in x.g.blocks.values():
                    for e in b.el:
                        if e[0] == 'I' and e[3] == '<base>':
                            ie = tu.node(e[1])
                            tgt = [y for y in (tu.walk(ie) if ie is not None else ()) if y.get('kind') == 'CXXConstructExpr' and
                                   tu.sd(y).get('q') == FNAME + '::FileName']
                            tf_ = tu.callee_fn(tgt[0]) if tgt else None
                            if tf_ is not None and tf_.get('ctor') not in ('copy', 'move') and tf_['id'] != f['id'] and tf_.get('params'):
                                n += 1
                                ctx.ok(R, '%s %s' % (fn_name(f), f['fty']), 'delegates to `%s %s`, which is checked on its own'
                                       % (fn_name(tf_), tf_['fty']), tu.fn_loc(f))
            continue
        n += 1
        file, fname = tu.fn_file(f), fn_name(f)
        inst = '%s %s' % (fname, f['fty'])
        key = '%s|%s|%s|' % (R, file, fname)
        targets = sorted({w[2] for w in ws}, key=repr) or [('field', ('this',), 'filename')]
        for tkey in targets:
            tw = [w for w in ws if w[2] == tkey]
            loc = tu.loc(tw[0][1]) if tw else tu.fn_loc(f)
            tname = 'filename' if tkey[1] == ('this',) else '%s.filename' % (tkey[1][2] if len(tkey[1]) > 2 else '?')
            # does this function (or a helper it hands the string to) strip trailing separators?
            strip = has_strip(tu, f, tkey)
            via = None
            skey = tkey
            if not strip[0]:
                # the string comes out of a helper that normalises a copy and returns it
                cands = [init_expr] if (init_expr is not None and tkey[1] == ('this',)) else []
                cands += [w[3] for w in tw if w[0] == 'assign' and w[3] is not None]
                for ce in cands:
                    bv = by_value_normaliser(tu, x, ce)
                    if bv is not None:
                        hs = has_strip(tu, bv[0], bv[1])
                        if hs[0]:
                            strip, via, skey = hs, bv[0], bv[1]
            if not strip[0]:
                for w in tw:
                    if w[0] == 'delegate' and w[3][0] is not None and w[3][1] is not None:
                        hf, ai = w[3]
                        ps = hf.get('params', [])
                        if ai < len(ps):
                            hs = has_strip(tu, hf, ('var', ps[ai]['id'], ps[ai]['name']))
                            if hs[0]:
                                strip = hs
                                via = hf
                                skey = ('var', ps[ai]['id'], ps[ai]['name'])
            late = conversions_after_strip(tu, strip, skey)
            # classify the content written
            raw = init_from_param is not None and tkey[1] == ('this',)
            sep_write = None
            other = []
            copies = 0
            after_sep = []
            for w in tw:
                kind, node, _, det = w
                if kind in ('assign', 'append'):
                    e = tu.strip(det, casts=True) if det is not None else None
                    c = x.poly_at(e, None).as_int() if e is not None else None
                    is_fn_field = e is not None and e.get('kind') == 'MemberExpr' and tu.sd(e).get('q') == fq
                    has_sep_operand = e is not None and any(
                        y.get('kind') in ('DeclRefExpr', 'CharacterLiteral', 'ImplicitCastExpr') and tu.sd(y).get('cv') in ('47', '92')
                        for y in tu.walk(e)) and not is_fn_field
                    if c in (47, 92) or (has_sep_operand and e.get('kind') != 'DeclRefExpr'):
                        sep_write = w
                        after_sep = []
                    elif is_fn_field:
                        copies += 1
                        if sep_write is not None:
                            after_sep.append(w)
                    elif e is not None and x.var_of(e)[0] in x.params and 'FileName' not in (x.vars[x.var_of(e)[0]]['ct'] or ''):
                        raw = True
                    elif e is not None and e.get('kind') == 'StringLiteral' and e.get('value') == '""':
                        copies += 1
                    else:
                        other.append(w)
                elif kind in ('elem-write', 'elem-iterate', 'delegate', 'method:reserve'):
                    pass
                elif kind.startswith('method:') and kind[7:] in STR_SHRINK | {'clear', 'reserve'}:
                    pass
                else:
                    other.append(w)
            tinst = '%s: writes `%s`' % (inst, tname)
            if strip[0] and late:
                lx = strip[3]
                ctx.violation(R, tinst, 'trailing separators are stripped%s (%s) BEFORE `%s` converts the remaining separators to the native '
                              'one: a name that ends in the foreign separator (FileName("dir\\\\") on POSIX) is stored with a separator at its '
                              'end, so base()/name()/ext() of it are empty' % ((' in ' + fn_name(via)) if via else '', strip[1],
                                                                              tu.show(late[0][0])), tu.loc(late[0][0]),
                              key='%s|%s|%s|strip-before-convert' % (R, tu.fn_file(lx.f), fn_name(lx.f)))
            elif strip[0]:
                ctx.ok(R, tinst, 'trailing separators are stripped%s: %s' % ((' by ' + fn_name(via)) if via else '', strip[1]), loc)
            elif sep_write is not None and after_sep and tw[-1] is after_sep[-1] and \
                    known_nonempty_tail(tu, x, sep_write, after_sep[-1]):
                ctx.ok(R, tinst, 'joins the strings of two FileNames with one separator; the part behind the separator (`%s`) is the '
                       'string of a FileName that is known not to be empty there, so the result does not end in a separator'
                       % tu.show(after_sep[-1][3]), loc)
            elif sep_write is not None:
                ctx.violation(R, tinst, '`%s` puts a path separator at the end of `%s` and %s, without going through the normalising '
                              'constructor: if the right-hand part is empty (FileName("a") + "") the result ends in a separator, so '
                              'base()/name()/ext() of the result are empty and a further join doubles the separator'
                              % (tu.show(sep_write[1]), tname,
                                 'then appends only strings that may be empty' if after_sep else 'nothing that is known to be non-empty follows'),
                              tu.loc(sep_write[1]), key=key + 'unnormalised-join')
            elif raw and not strip[1]:
                ctx.violation(R, tinst, 'the caller\'s string is stored in `%s` but trailing separators are never removed: '
                              'FileName("a/") keeps its separator, base() is empty' % tname, loc, key=key + 'no-strip')
            elif raw or other:
                ctx.undecided(R, tinst, 'cannot see that `%s` is left without a trailing separator (%s)' % (
                    tname, ', '.join(sorted({w[0] for w in (other or tw)})) or 'initialiser'), loc)
            else:
                ctx.ok(R, tinst, 'only copies the string of another FileName / the empty string', loc, nontrivial=False)
    return n


# ====================================================================================================
def run(ctx):
    ctx.assume('size arithmetic in the analysed helpers is read over the mathematical integers (no wrap-around), '
               'except npos + 1 == 0')
    ctx.assume('std::string::find*/substr/getline, std::mismatch, std::min and std::vector::erase follow the C++ standard')
    jobs = [dict(unit='drivers/c18_strings.cpp', config='TBB'),
            dict(unit='rkcommon/utility/PseudoURL.cpp', config='TBB'),
            dict(unit='rkcommon/os/FileName.cpp', config='TBB'),
            dict(unit='rkcommon/common.cpp', config='TBB'),
            dict(unit='witness/c18_param_order.cpp', config='TBB')]
    tus = ctx.front.parse_many(jobs)
    run_on(ctx, *tus)
    if ctx.tier == 'thorough':
        jobs2 = [dict(j, std='gnu++17', config='DEBUG') for j in jobs]
        tus2 = ctx.front.parse_many(jobs2)
        run_on(ctx, *tus2)
    from rkstatic import selftest
    selftest.run(ctx)


class _Recorder:
    """stands in for ctx when a rule is run on a positive example: verdicts are recorded, not reported"""

    def __init__(self):
        self.log = []

    def ok(self, rule, inst, *a, **k):
        self.log.append((rule, 'ok', inst))

    def violation(self, rule, inst, *a, **k):
        self.log.append((rule, 'violation', inst))

    def undecided(self, rule, inst, *a, **k):
        self.log.append((rule, 'undecided', inst))

    def describe(self, *a, **k):
        pass

    def broken(self, msg):
        self.log.append(('broken', 'undecided', msg))


ANCHORS = {
    'drv': ['rkcommon::utility::longestBeginningMatch', 'rkcommon::utility::beginsWith', 'rkcommon::utility::split',
            'rkcommon::utility::ArgumentList::ArgumentList', 'rkcommon::utility::ArgumentList::remove',
            'rkcommon::utility::ArgumentsParser::parseAndRemove'],
    'url': ['rkcommon::utility::tokenize', URL + '::PseudoURL', URL + '::getValue', URL + '::hasParam'],
    'fn': [FNAME + '::' + m for m in ('path', 'base', 'ext', 'dropExt', 'name', 'setExt')],
    'common': ['rkcommon::removeArgs', 'rkcommon::prettyDouble', 'rkcommon::prettyNumber'],
}


def run_on(ctx, tu_drv, tu_url, tu_fn, tu_common, tu_w):
    for which, tu in (('drv', tu_drv), ('url', tu_url), ('fn', tu_fn), ('common', tu_common)):
        for q in ANCHORS[which]:
            if not [f for f in tu.fns(q=q) if not f['dep'] and tu.cfg(f) is not None]:
                ctx.broken('anchor %s has no body in %s' % (q, tu.unit))
    if len([f for f in tu_drv.fns(q='rkcommon::utility::split') if not f['dep']]) < 2:
        ctx.broken('expected both forms of rkcommon::utility::split in %s' % tu_drv.unit)
    a2, a7, af = check_tokens(ctx, tu_url, ['rkcommon::utility::tokenize'])
    b2, b7, bf = check_tokens(ctx, tu_drv, ['rkcommon::utility::split'])
    ctx.floor('R-C18-2', af + bf, 3, 'tokeniser functions with at least one token push analysed: tokenize, split(char), split(set)')
    ctx.floor('R-C18-7', min(a7, 1) + min(b7, 2), 3, 'the same three tokeniser functions')
    n1, n8 = check_filename(ctx, tu_fn)
    n8 += check_url_cuts(ctx, tu_url)
    ctx.floor('R-C18-1', n1, 4, 'ext, dropExt, name, setExt search the last dot')
    ctx.floor('R-C18-8', n8, 12, 'return statements of path, base, ext, dropExt, name, setExt x reaching states: 18 on the pinned '
                                 'tree; PseudoURL constructor: 2 delimiters')
    sch = url_store_scheme(tu_url)
    n4 = check_url_lookup(ctx, tu_url, sch)
    ctx.floor('R-C18-4', n4, 2, 'PseudoURL::getValue, PseudoURL::hasParam')
    # ---- R-C18-12: purity
    R12 = 'R-C18-12'
    ctx.describe(R12, 'the helpers are pure functions of their arguments: no function reachable from them writes an object with '
                      'static storage duration (function-local static, namespace scope); const tables are fine')
    n12 = 0
    for which, tu in (('drv', tu_drv), ('url', tu_url), ('fn', tu_fn), ('common', tu_common)):
        roots = [f for q in ANCHORS[which] for f in tu.fns(q=q) if not f['dep'] and tu.body(f) is not None]
        fns, verdicts = check_pure(ctx, tu, roots)
        n12 += len(roots)
        bad = False
        for verdict, d, f0, n0, text in verdicts:
            inst = '%s: `%s`' % (fn_name(f0), d.get('name'))
            if verdict == 'violation':
                bad = True
                ctx.violation(R12, inst, text, tu.loc(n0), key='%s|%s|%s|static-%s' % (R12, tu.fn_file(f0), fn_name(f0), d.get('name')))
            elif verdict == 'undecided':
                bad = True
                ctx.undecided(R12, inst, text, tu.loc(n0))
            else:
                ctx.ok(R12, inst, text, tu.loc(n0))
        if not bad:
            ctx.ok(R12, '%s: %d anchors, %d reachable function bodies' % (tu.unit, len(roots), len(fns)),
                   'no mutable object with static storage duration is written', tu.unit)
    ctx.floor(R12, n12, 15, 'anchor functions of the four units')
    wroots = [f for f in tu_w.fns(q='rkverif::c18w::prettyShared') if not f['dep']]
    wv = [(v, d.get('name')) for v, d, f0, n0, t in check_pure(ctx, tu_w, wroots)[1]]
    if sorted(wv) != [('violation', 'shared')]:     # the const table `unit` is not even a candidate
        ctx.broken('R-C18-12: the positive example in witness/c18_param_order.cpp is not classified as expected (%s)' % wv)
    n11 = check_normal_form(ctx, tu_fn)
    check_join_left(ctx, tu_fn)
    ctx.floor('R-C18-11', n11, 2, 'the two normalising constructors of FileName')
    n9 = check_param_order(ctx, tu_url, tu_w, sch)
    ctx.floor('R-C18-9', n9, 4, 'accesses to PseudoURL::params (2 appends, 2 scans) + the constructor loop')
    ctx.describe('R-C18-3', 'SI ladder: each rung of prettyDouble/prettyNumber has threshold == divisor == value of its suffix '
                            '(sub-unit rungs: threshold == 1000 x value), rungs form a gap-free ladder in steps of 10^3')
    ctx.describe('R-C18-10', 'a rung that prints <integer>.<integer> prints a fraction that fits its digit count: interval of the '
                             'fraction expression (/, %, + over the unsigned input and the constant unit) stays below 10^digits')
    a3, a10 = check_ladder(ctx, tu_common, 'rkcommon::prettyDouble')
    b3, b10 = check_ladder(ctx, tu_common, 'rkcommon::prettyNumber')
    n3 = a3 + b3
    ctx.floor('R-C18-3', n3, 12, 'prettyDouble: 11 rungs, prettyNumber: 6 rungs on the pinned tree')
    check_print_room(ctx, tu_common, ['rkcommon::prettyDouble', 'rkcommon::prettyNumber'])
    # positive example: /repo prints its mantissas with %.1f today, so R-C18-10 has no instance there
    rec = _Recorder()
    check_ladder(rec, tu_w, 'rkverif::c18w::prettyLossy')
    check_ladder(rec, tu_w, 'rkverif::c18w::prettyCarry')
    got = [(r, k) for r, k, i in rec.log if r == 'R-C18-10']
    if sum(1 for r, k in got if k == 'violation') != 2 or sum(1 for r, k in got if k == 'ok') != 2 or \
            any(k in ('undecided', 'violation') for r, k, i in rec.log if r == 'R-C18-3'):
        ctx.broken('R-C18-10: the positive example in witness/c18_param_order.cpp is not classified as expected (%s)'
                   % [(r, k) for r, k, i in rec.log if k != 'ok' or r == 'R-C18-10'])
    ctx.describe('R-C18-5', 'removeArgs: av[i-h] = av[i] for i in [where+h, ac) upwards, then ac -= h; ArgumentList::remove erases '
                            'h elements at begin()+where; parseAndRemove advances iff nothing was consumed, else removes at the index')
    n5 = check_remove_args(ctx, tu_common) + check_arglist(ctx, tu_drv)
    ctx.floor('R-C18-5', n5, 5, 'removeArgs, ArgumentList storage + constructor + remove, ArgumentsParser::parseAndRemove')
    ctx.describe('R-C18-6', 'longestBeginningMatch scans min(first.size(), second.size()) characters; beginsWith compares the match '
                            'length with the length of the prefix argument')
    n6 = check_prefix(ctx, tu_drv)
    ctx.floor('R-C18-6', n6, 2, 'longestBeginningMatch, beginsWith')
