"""C19 - observers see each notification once; time stamps are unique and increasing.

Decided statically (DESIGN.md section 5, C19):
  R-C19-1  registration pairing.  Class invariant I: an Observer whose `observee` is X != null is contained in
           X.observers, and in no other list.  Every Observer member that touches `observee` is interpreted over its
           clang CFG from every entry scenario (observee in {null,P,Q}, aliasing of *this and the argument) with
           registerObserver/removeObserver as events; required on every path: no call/member access through a null
           observee, I holds for every Observer in scope at exit (registered nowhere after the destructor).
           Observable side (normal forms): registerObserver appends the address of its argument exactly once;
           removeObserver is erase(remove(begin,end,&arg),end) on the list; ~Observable assigns null to `observee`
           of every element of the list; notifyObservers renews lastNotified exactly once.
  R-C19-2  wasNotified: returns false without touching the observee when it is null; otherwise returns the truth
           of `lastObserved < observee->lastNotified` (normal form; `<=` is the same relation because stamps are
           unique, R-C19-3) evaluated before any renew; renews lastObserved on every path that returns true; never
           renews the observable's stamp.
  R-C19-3  stamps: TimeStamp::global and TimeStamp::value are std::atomic<integral>; nextValue returns the result of
           exactly one atomic increment of `global`; nothing else in the library writes `global`; the default member
           initialiser and renew() store a nextValue() result; copy/move construction and assignment store the
           source's value; conversion loads the value; no other member writes `value`.
  R-C19-4  copying/moving Observer or Observable preserves invariant I: the special member is deleted, or
           user-provided and analysed (Observer: by the R-C19-1 interpreter; Observable: must not take over the
           source's observer list); an implicit memberwise copy is rejected.
  R-C19-6  who may write the notification stamp: lastNotified of an existing Observable changes only through renew() in
           notifyObservers (constructors initialise it); an assignment to it from another stamp is rejected.
  R-C19-5  coverage: every library function that names observee/observers/lastNotified/lastObserved, value or global
           is one of the analysed members.
"""
import re

from rkstatic.interp import ObjInterp, freeze, thaw
from rkstatic.x_atomics import init_exprs  # noqa: E402
from rkstatic.x_atomics import ATOMIC_INT, PLAIN_INT, WIDTH64, CALLS, atomic_call, cfg_paths

LEVEL = 'other'
EXPLANATION = (
    "An abstract interpretation of every Observer member over its clang CFG (entry scenarios over observee in "
    "{null,P,Q}, registration events) decides the class invariant 'an observer with a non-null observee is registered "
    "with exactly that observable' together with null-guard dominance; normal-form checks decide that the Observable "
    "side appends / erase-removes / orphans every registered observer, so by induction over any history nothing "
    "dangles in either destruction order.  wasNotified is decided path-wise against its specification (null -> "
    "false; else the strict stamp comparison, renewed on true).  TimeStamp: type facts plus CFG path analysis decide "
    "that every stamp value is the result of one atomic RMW on a counter nobody else writes (unique, and increasing "
    "in each thread by coherence of a single atomic object) and that copies carry the source's value.  Not decided: "
    "cross-thread ordering between notifyObservers and wasNotified (the observer list is not synchronised; histories "
    "over observers are sequential), wrap-around of the 64-bit counter.")

NS = 'rkcommon::utility::'
OBSR, OBSV, TS = NS + 'Observer', NS + 'Observable', NS + 'TimeStamp'
REG, UNREG, NOTIFY = OBSV + '::registerObserver', OBSV + '::removeObserver', OBSV + '::notifyObservers'
RENEW, NEXT, GLOBAL = TS + '::renew', TS + '::nextValue', TS + '::global'
COUNTER_Q = [GLOBAL]      # qualified name of the counter nextValue() draws from (found from its body, not assumed)
WAS = OBSR + '::wasNotified'
HDR_O, HDR_T, SRC_T = 'rkcommon/utility/Observer.h', 'rkcommon/utility/TimeStamp.h', 'rkcommon/utility/TimeStamp.cpp'
OBJS = ('P', 'Q')


def is_ptr_ct(ct):
    ct = (ct or '').strip()
    return ct.endswith('*') or ct.endswith('*const') or ct.endswith('* const')


def base_type(ct):
    t = (ct or '').strip()
    if t.startswith('const '):
        t = t[6:]
    t = t.rstrip('&').strip()
    if t.endswith(' const'):
        t = t[:-6]
    return t


def ptr_to(ct, cls):
    return bool(re.match(r'^(const )?%s( const)? ?\*( ?const)?$' % re.escape(cls), (ct or '').strip()))


def callers_outside(tus, q, allowed_recs):
    """functions (in any parsed unit) outside the classes `allowed_recs` that call the function named q"""
    out = []
    for t in tus:
        for f in t.functions.values():
            if f['dep'] or f.get('rec') in allowed_recs or t.body(f) is None:
                continue
            for x in t.walk(t.body(f)):
                if x.get('id') and t.sd(x).get('k') == 'call' and t.sd(x).get('q') == q:
                    out.append(f['q'])
                    break
    return out


def fn_name(f):
    return '%s %s' % (f['q'].replace(NS, ''), re.sub(r'\s*noexcept(\(\w+\))?', '', f['fty'].replace(NS, '')))


class Fields:
    """decl ids of the anchored data members, found by type (never by name)"""

    def __init__(self, tu):
        self.ok = False
        self.why = ''
        ro = [r for r in tu.records.values() if r['q'] == OBSR]
        rv = [r for r in tu.records.values() if r['q'] == OBSV]
        if not ro or not rv:
            self.why = 'records %s / %s not found' % (OBSR, OBSV)
            return
        ro, rv = ro[0], rv[0]
        self.ro, self.rv = ro, rv
        pe = [f for f in ro['fields'] if base_type(f['ct']) in (OBSV + ' *', OBSV + '*')]
        so = [f for f in ro['fields'] if base_type(f['ct']) == TS]
        sn = [f for f in rv['fields'] if base_type(f['ct']) == TS]
        lst = [f for f in rv['fields'] if re.match(r'std::(vector|list|deque)<rkcommon::utility::Observer \*', f['ct'])]
        anchored = {f['id'] for f in pe + so + sn + lst}
        SCALAR = re.compile(r'^(const )?(bool|char|short|int|long|unsigned( (char|short|int|long))?|size_t|float|double|std::atomic<[\w ]+>)$')
        self.extra = [f for f in ro['fields'] + rv['fields'] if f['id'] not in anchored]
        # additional plain scalar members are tolerated: if they gate an anchored operation they show up as path
        # conditions in the rules below; additional pointers / containers / stamps change the model => undecided
        extra_ok = all(SCALAR.match(base_type(f['ct'])) for f in self.extra)
        if len(pe) != 1 or len(so) != 1 or len(sn) != 1 or len(lst) != 1 or not extra_ok:
            self.why = ('unexpected data members: Observer %s, Observable %s' %
                        ([(f['name'], f['ct']) for f in ro['fields']], [(f['name'], f['ct']) for f in rv['fields']]))
            return
        self.observee, self.last_observed, self.last_notified, self.observers = pe[0], so[0], sn[0], lst[0]
        self.ok = True


# ============================================================================================
#  Observer members: registration invariant + wasNotified
# ============================================================================================
class ObsInterp(ObjInterp):
    """state:  <observer object> -> 'null'|'P'|'Q'|'undef'      value of its observee member
               'r:<observer>'    -> tuple of observables it is registered with
               'N'               -> scenario input: truth of lastObserved < observee->lastNotified at entry
               'renewed:<obs>'   -> lastObserved of that observer was renewed on this path
               'b:<id>','v:<id>' -> bool / pointer locals;  '$ev' -> events"""

    def __init__(self, tu, fields):
        super().__init__(tu)
        self.F = fields
        self.inlined = {}
        self.temps = {}        # construct-expression id -> name of the local / temporary Observer it creates

    def is_own_fn(self, f):
        if f.get('rec') == OBSR:
            return True
        # helper members of Observable called from Observer members (friend): followed with `this` bound to the observable
        return f.get('rec') == OBSV and f['q'] not in (REG, UNREG) and not f.get('ctor') and not f.get('dtor')

    def und(self, msg):
        if msg not in self.undecided:
            self.undecided.append(msg)

    # ---------------------------------------------------------------- designators / values
    def is_field(self, e, fld):
        return e is not None and e.get('kind') == 'MemberExpr' and self.tu.sd(e).get('d') == fld['id']

    def base_obj(self, e, fr):
        ks = self.tu.kids(e)
        return self.obj_of(ks[0], fr) if ks else fr.env.get('this')

    def pval(self, e, st, fr, depth=0):
        tu = self.tu
        e = tu.strip(e, casts=True)
        if e is None or depth > 12:
            return None
        k = e.get('kind')
        if k in ('CXXNullPtrLiteralExpr', 'GNUNullExpr', 'CXXScalarValueInitExpr', 'ImplicitValueInitExpr'):
            return 'null'
        if k == 'IntegerLiteral':
            return 'null' if e.get('value') == '0' else None
        if k == 'InitListExpr':
            ks = tu.kids(e)
            return 'null' if not ks else (self.pval(ks[0], st, fr, depth + 1) if len(ks) == 1 else None)
        if k == 'CXXThisExpr':
            o = fr.env.get('this')
            if o in OBJS:
                return o
            return ('addr', o) if o else None
        if k == 'UnaryOperator' and e.get('opcode') == '&':
            o = self.obj_of(tu.kids(e)[0], fr)
            if o in OBJS:
                return o
            return ('addr', o) if o else None
        if k == 'ConditionalOperator':
            ks = tu.kids(e)
            c = self.eval_bool(ks[0], st, fr)
            if c is True:
                return self.pval(ks[1], st, fr, depth + 1)
            if c is False:
                return self.pval(ks[2], st, fr, depth + 1)
            return None
        if self.is_field(e, self.F.observee):
            o = self.base_obj(e, fr)
            return thaw(st).get(o) if o else None
        if k == 'DeclRefExpr' and is_ptr_ct(tu.sd(e).get('ct')):
            return thaw(st).get('v:' + str(e.get('referencedDecl', {}).get('id')))
        if k in CALLS:
            sd, obj, args = tu.call_parts(e)
            if sd.get('q') in ('std::move', 'std::forward') and args:
                return self.pval(args[0], st, fr, depth + 1)
            if sd.get('q') == 'std::addressof' and args:
                o = self.obj_of(args[0], fr)
                return o if o in OBJS else (('addr', o) if o else None)
        return None

    def observable_of(self, e, st, fr):
        """the Observable ('P'/'Q'/'null'/...) an object expression of a member call / member access designates"""
        tu = self.tu
        e0 = tu.strip(e, casts=True)
        if e0 is None:
            return None
        if is_ptr_ct(tu.sd(e0).get('ct')):
            return self.pval(e0, st, fr)
        if e0.get('kind') == 'UnaryOperator' and e0.get('opcode') == '*':
            return self.pval(tu.kids(e0)[0], st, fr)
        o = self.obj_of(e0, fr)
        return o if o in OBJS else None

    def reg_event(self, st, what, x, o):
        d = self.ev(st, '%s(%s,%s)' % (what, x, o))
        cur = list(d.get('r:' + o, ()))
        if what == 'reg':
            cur.append(x)
        else:
            cur = [y for y in cur if y != x]
        d['r:' + o] = tuple(sorted(cur))
        return freeze(d)

    def list_owner(self, e, st, fr):
        """the observable ('P'/'Q') whose observer list the expression designates (X->observers, or a local reference to it)"""
        tu = self.tu
        e = tu.strip(e, casts=True)
        if e is None:
            return None
        if e.get('kind') == 'MemberExpr' and tu.sd(e).get('d') == self.F.observers['id']:
            ks = tu.kids(e)
            x = self.observable_of(ks[0], st, fr) if ks else fr.env.get('this')
            return x if x in OBJS else None
        if e.get('kind') == 'DeclRefExpr':
            return thaw(st).get('l:' + str(e.get('referencedDecl', {}).get('id')))
        return None

    def list_end(self, e, st, fr, which):
        """owner of the list if e is <list>.begin()/end() (through iterator conversions)"""
        e = unwrap_iter(self.tu, e)
        if e is None or e.get('kind') != 'CXXMemberCallExpr':
            return None
        sd, obj, args = self.tu.call_parts(e)
        if sd.get('q', '').split('::')[-1] not in which or obj is None:
            return None
        return self.list_owner(obj, st, fr)

    def find_result(self, e, st, fr):
        """('find', X, o) if e is std::find(L.begin(), L.end(), &o) on the whole observer list L of X"""
        tu = self.tu
        e = unwrap_iter(tu, e)
        if e is None or e.get('kind') != 'CallExpr' or tu.sd(e).get('q') != 'std::find':
            return None
        s_, o_, a = tu.call_parts(e)
        if len(a) != 3:
            return None
        xb, xe = self.list_end(a[0], st, fr, ('begin', 'cbegin')), self.list_end(a[1], st, fr, ('end', 'cend'))
        p_ = self.pval(a[2], st, fr)
        if xb in OBJS and xb == xe and isinstance(p_, tuple) and p_[0] == 'addr' and p_[1] and p_[1] not in OBJS:
            return ('find', xb, p_[1])
        return None

    def list_use_ok(self, n, fr):
        """a mention of an observer list inside an interpreted member is understood when it initialises a local reference or
        is the object of begin()/end() feeding a modelled algorithm (std::replace)"""
        tu = self.tu
        p = tu.par(n)
        hops = 0
        while p is not None and p.get('kind') in ('ImplicitCastExpr', 'ParenExpr') and hops < 4:
            p = tu.par(p)
            hops += 1
        if p is None:
            return False
        if p.get('kind') == 'VarDecl':
            return '&' in p.get('type', {}).get('qualType', '')
        if p.get('kind') == 'MemberExpr' and p.get('name') in ('push_back', 'emplace_back', 'erase', 'size', 'empty'):
            return True           # decided by the transfer function of that member call
        if p.get('kind') == 'CallExpr' and not tu.sd(p).get('q', '').startswith('std::'):
            return True           # handed to a helper: decided at the call
        if p.get('kind') == 'MemberExpr' and p.get('name') in ('begin', 'end', 'cbegin', 'cend'):
            q = tu.par(p)
            hops = 0
            while q is not None and hops < 12:
                if q.get('kind') == 'CallExpr':
                    if tu.sd(q).get('q') == 'std::remove':
                        # std::remove(...) must in turn be the first argument of erase on a list
                        r_ = tu.par(q)
                        for _ in range(8):
                            if r_ is None:
                                return False
                            if r_.get('kind') == 'CXXMemberCallExpr':
                                return tu.sd(r_).get('q', '').split('::')[-1] == 'erase'
                            r_ = tu.par(r_)
                        return False
                    return tu.sd(q).get('q') in ('std::replace', 'std::find')
                if q.get('kind') == 'CXXOperatorCallExpr' and tu.sd(q).get('q', '').split('::')[-1] in ('operator!=', 'operator=='):
                    return True       # comparison of a find() result with end(): decided by eval_bool
                if q.get('kind') == 'CXXMemberCallExpr' and tu.sd(q).get('q', '').split('::')[-1] == 'erase':
                    return True
                if q.get('kind') not in ('CXXMemberCallExpr', 'MaterializeTemporaryExpr', 'ImplicitCastExpr', 'CXXConstructExpr',
                                         'CXXBindTemporaryExpr', 'ExprWithCleanups', 'CXXFunctionalCastExpr'):
                    return False
                q = tu.par(q)
                hops += 1
        return False

    def stamp_of(self, e, st, fr):
        """('O', observer, renewed-before-this-read) for <observer>.lastObserved, ('N', observable) for
        <observable>.lastNotified; also through the conversion to an integer, a TimeStamp reference parameter bound by
        a followed call, or an integer local initialised from one of these"""
        tu = self.tu
        e = tu.strip(e, casts=True)
        if e is None:
            return None
        d = thaw(st)
        if e.get('kind') == 'CXXMemberCallExpr':
            sd, obj, args = tu.call_parts(e)
            if sd.get('rec') == TS and sd.get('q', '').split('::')[-1].startswith('operator ') and obj is not None:
                return self.stamp_of(obj, st, fr)
            return None
        if e.get('kind') == 'DeclRefExpr':
            did = str(e.get('referencedDecl', {}).get('id'))
            if fr.env.get('ts:' + did):
                return fr.env['ts:' + did]
            return d.get('s:' + did)
        if self.is_field(e, self.F.last_observed):
            o = self.base_obj(e, fr)
            return ('O', o, bool(d.get('renewed:' + o)), bool(d.get('eq:' + o))) if o and o not in OBJS else None
        if self.is_field(e, self.F.last_notified):
            ks = tu.kids(e)
            x = self.observable_of(ks[0], st, fr) if ks else fr.env.get('this')
            return ('N', x) if x else None
        return None

    INT_BITS = {'bool': 1, 'char': 8, 'signed char': 8, 'unsigned char': 8, 'short': 16, 'unsigned short': 16, 'int': 32,
                'unsigned int': 32, 'unsigned': 32, 'long': 64, 'unsigned long': 64, 'long long': 64, 'unsigned long long': 64,
                'size_t': 64, 'std::size_t': 64, 'ptrdiff_t': 64, 'std::ptrdiff_t': 64, '__int128': 128, 'unsigned __int128': 128}

    def int_type(self, ct):
        t = (ct or '').replace('const ', '').replace('volatile ', '').strip()
        if t in self.INT_BITS:
            return self.INT_BITS[t], not (t.startswith('unsigned') or t in ('size_t', 'std::size_t', 'bool'))
        return None

    def dist_of(self, e, st, fr, vt=None):
        """('dist', a, b, bits, signed): the expression is the difference stamp(a) - stamp(b) of two tracked stamps, seen through
        integer conversions; bits = the narrowest integer type it passed through, signed = signedness of its final type"""
        tu = self.tu
        top = self.int_type(vt) if vt else None
        if top is None:
            top = self.int_type(tu.sd(e).get('ct'))
        if top is None:
            return None
        bits, signed = top
        n = e
        for _ in range(16):
            if n is None:
                return None
            k = n.get('kind')
            if k in ('ImplicitCastExpr', 'CStyleCastExpr', 'CXXStaticCastExpr', 'CXXFunctionalCastExpr', 'ParenExpr', 'ExprWithCleanups'):
                it = self.int_type(tu.sd(n).get('ct'))
                if it is None and k != 'ParenExpr' and k != 'ExprWithCleanups':
                    return None
                if it is not None:
                    bits = min(bits, it[0])
                n = tu.kids(n)[-1] if tu.kids(n) else None
                continue
            if k == 'DeclRefExpr':
                dd = thaw(st).get('dist:' + str(n.get('referencedDecl', {}).get('id')))
                if dd:
                    return ('dist', dd[1], dd[2], min(bits, dd[3]), signed)
                return None
            if k == 'BinaryOperator' and n.get('opcode') == '-':
                it = self.int_type(tu.sd(n).get('ct'))
                if it is None:
                    return None
                a, b = (self.stamp_of(x, st, fr) for x in tu.kids(n))
                if a and b:
                    return ('dist', a, b, min(bits, it[0]), signed)
            return None
        return None

    def eval_dist(self, op, dd, c, n, st, fr):
        """truth of  (stamp(a) - stamp(b)) op c  for a small constant c, from the scenario (which stamp is older)"""
        d = thaw(st)
        _, a, b, bits, signed = dd
        sign = +1
        if a[0] == 'O' and b[0] == 'N':
            a, b, sign = b, a, -1
        if a[0] != 'N' or b[0] != 'O' or d.get(b[1]) != a[1] or a[1] not in OBJS or abs(c) > 1:
            return None
        if bits < 64:
            self.report('narrowed-distance', 'the two 64-bit stamps are compared through their difference narrowed to a %d-bit integer: once %s '
                        'stamps have been drawn between the two compared values the narrowed difference wraps and the comparison gives the '
                        'opposite answer (a pending notification is not reported / an old one is reported again); compare the stamps '
                        'themselves, or keep the distance at 64 bits' % (bits, '2^%d' % (bits - 1)), n, fr, st)
        older = bool(d.get('N')) and not b[2]
        dist = (5 if older else -5) * sign              # notification stamp minus observed stamp, representative value
        if len(b) > 3 and b[3] and not b[2]:
            dist = 0                                    # caught up by assignment: the two stamps are equal
        if not signed:
            dist %= 2 ** 64
        return {'<': dist < c, '<=': dist <= c, '>': dist > c, '>=': dist >= c, '==': dist == c, '!=': dist != c}[op]

    def eval_bool(self, e, st, fr, depth=0):
        tu = self.tu
        e = tu.strip(e, casts=True)
        if e is None or depth > 12:
            return None
        k = e.get('kind')
        d = thaw(st)
        if k == 'CXXBoolLiteralExpr':
            return bool(e.get('value'))
        if k == 'UnaryOperator' and e.get('opcode') == '!':
            v = self.eval_bool(tu.kids(e)[0], st, fr, depth + 1)
            return None if v is None else (not v)
        if k == 'BinaryOperator' and e.get('opcode') in ('&&', '||'):
            a = self.eval_bool(tu.kids(e)[0], st, fr, depth + 1)
            if e['opcode'] == '&&' and a is False:
                return False
            if e['opcode'] == '||' and a is True:
                return True
            b = self.eval_bool(tu.kids(e)[1], st, fr, depth + 1)
            if a is None or b is None:
                return None
            return (a and b) if e['opcode'] == '&&' else (a or b)
        if k == 'ConditionalOperator':
            ks = tu.kids(e)
            c = self.eval_bool(ks[0], st, fr, depth + 1)
            if c is None:
                return None
            return self.eval_bool(ks[1] if c else ks[2], st, fr, depth + 1)
        if k == 'BinaryOperator' and e.get('opcode') in ('==', '!=', '<', '>', '<=', '>='):
            ks = tu.kids(e)
            for i, j, flip in ((0, 1, False), (1, 0, True)):
                dd = self.dist_of(ks[i], st, fr)
                cv = tu.sd(tu.strip(ks[j])).get('cv') or tu.sd(ks[j]).get('cv')
                if dd and cv is not None:
                    op = e['opcode']
                    if flip:
                        op = {'<': '>', '>': '<', '<=': '>=', '>=': '<=', '==': '==', '!=': '!='}[op]
                    return self.eval_dist(op, dd, int(cv), e, st, fr)
            sa, sb = self.stamp_of(ks[0], st, fr), self.stamp_of(ks[1], st, fr)
            if sa and sb:
                op = e['opcode']
                if sa[0] == 'N' and sb[0] == 'O':
                    sa, sb = sb, sa
                    op = {'<': '>', '>': '<', '<=': '>=', '>=': '<=', '==': '==', '!=': '!='}[op]
                if sa[0] != 'O' or sb[0] != 'N' or d.get(sa[1]) != sb[1] or sb[1] not in OBJS:
                    return None
                older = bool(d.get('N')) and not sa[2]
                if len(sa) > 3 and sa[3] and not sa[2]:
                    # the two stamps are equal (the observer caught up by assignment and nothing happened since)
                    return {'<': False, '<=': True, '>': False, '>=': True, '==': True, '!=': False}[op]
                # otherwise stamps are pairwise distinct (R-C19-3): < and <= coincide, == never holds
                return {'<': older, '<=': older, '>': not older, '>=': not older, '==': False, '!=': True}[op]
            if e['opcode'] in ('==', '!='):
                a, b = self.pval(ks[0], st, fr), self.pval(ks[1], st, fr)
                if a is None or b is None or 'undef' in (a, b):
                    return None
                return (a == b) if e['opcode'] == '==' else (a != b)
            return None
        if k == 'DeclRefExpr' and (tu.sd(e).get('ct') or '').replace('const ', '') == 'bool':
            return d.get('b:' + str(e.get('referencedDecl', {}).get('id')))
        if k == 'CXXOperatorCallExpr' and tu.sd(e).get('q', '').split('::')[-1] in ('operator!=', 'operator=='):
            a_ = tu.kids(e)[1:]
            if len(a_) == 2:
                for i_, j_ in ((0, 1), (1, 0)):
                    it_ = unwrap_iter(tu, a_[i_])
                    fd_ = None
                    if it_ is not None and it_.get('kind') == 'DeclRefExpr':
                        fd_ = d.get('it:' + str(it_.get('referencedDecl', {}).get('id')))
                    elif it_ is not None:
                        fd_ = self.find_result(it_, st, fr)
                    if fd_ and self.list_end(a_[j_], st, fr, ('end', 'cend')) == fd_[1]:
                        found = fd_[1] in d.get('r:' + fd_[2], ())
                        return found if tu.sd(e)['q'].endswith('!=') else (not found)
        if k in CALLS:
            vals = self.call_value(e, st, fr)
            if vals and all(isinstance(v, bool) for v in vals) and len(set(vals)) == 1:
                return vals[0]
            return None
        if is_ptr_ct(tu.sd(e).get('ct')):
            v = self.pval(e, st, fr)
            if v == 'null':
                return False
            if v in OBJS or isinstance(v, tuple):
                return True
        return None

    def aval(self, e, st, fr):
        tu = self.tu
        ct = tu.sd(tu.strip(e)).get('ct') or tu.sd(e).get('ct') or ''
        if ct.replace('const ', '').strip() == 'bool':
            return self.eval_bool(e, st, fr)
        if base_type(ct) == OBSR:
            o = self.obj_of(e, fr)
            return ('obj', o) if o else None
        return None

    # ---------------------------------------------------------------- transfer
    def ev(self, st, what):
        d = thaw(st)
        d['$ev'] = d.get('$ev', ()) + (what,)
        return d

    def on_init(self, e, st, fr, depth=0):
        tu = self.tu
        me = fr.env.get('this')
        init = tu.node(e[1])
        if me is None:
            return [st]
        if e[2] == self.F.observee['id']:
            if init is not None and init.get('kind') == 'CXXDefaultInitExpr':
                fd = tu.node(e[2])
                ks = init_exprs(tu, fd) if fd is not None else []
                v = self.pval(ks[-1], st, fr) if ks else 'undef'
            else:
                v = self.pval(init, st, fr) if init is not None else 'undef'
            if v is None or isinstance(v, tuple):
                self.und('initialiser of the observee member not understood at %s' % tu.loc(init))
                v = 'undef'
            d = thaw(st)
            d[me] = v
            return [freeze(d)]
        if e[2] == self.F.last_observed['id']:
            d = thaw(st)
            i0 = tu.strip(init) if init is not None else None
            fresh = i0 is not None and i0.get('kind') == 'CXXConstructExpr' and not tu.kids(i0)
            d['stamp:' + me] = 'fresh' if fresh else 'copied'
            if not fresh and i0 is not None:
                for y in tu.walk(i0):
                    if self.is_field(y, self.F.last_observed):
                        o_ = self.base_obj(y, fr)
                        if o_ and o_ not in OBJS:
                            d['sp:' + me] = d.get('sp:' + o_, o_)       # whose poll state this stamp carries
            return [freeze(d)]
        if init is not None and tu.strip(init).get('kind') == 'CXXConstructExpr':
            callee = tu.callee_fn(tu.strip(init))
            if callee is not None and self.is_own_fn(callee) and callee.get('ctor'):
                return self.inline(tu.strip(init), callee, me, st, fr)
        return [st]

    def bind(self, n, callee, this_obj, st, fr, quiet=False):
        """(env, state) for following callee at call node n, or None"""
        tu = self.tu
        s_, obj, args = tu.call_parts(n)
        env = {}
        d = thaw(st)
        if callee.get('rec') == OBSV and not callee.get('static'):
            x = self.observable_of(obj, st, fr) if obj is not None else fr.env.get('this')
            if x not in OBJS:
                if not quiet and x != 'null':
                    self.und('call of %s on an observable the analysis cannot identify at %s' % (callee['q'], tu.loc(n)))
                return None
            env['this'] = x
        elif callee.get('rec') == OBSR and not callee.get('static'):
            o = this_obj if this_obj is not None else (self.obj_of(obj, fr) if obj is not None else fr.env.get('this'))
            if o is None or o in OBJS:
                if not quiet:
                    self.und('call of %s on an object the analysis cannot identify at %s' % (callee['q'], tu.loc(n)))
                return None
            env['this'] = o
        for p, a in zip(callee.get('params', []), args):
            bt = base_type(p['ct'])
            if bt in (OBSR, OBSV):
                o = self.obj_of(a, fr)
                if bt == OBSV and o not in OBJS:
                    # an Observable reference bound to a dereferenced pointer (Observer(*other.observee))
                    x = self.observable_of(a, st, fr)
                    if x == 'null':
                        if not quiet:
                            self.report('null-deref', 'a reference to the observable is bound to `%s`, a dereferenced observee pointer that is '
                                        'null on this path (the observable was destroyed): %s is entered with a null reference'
                                        % (tu.show(a), callee['q'].replace(NS, '')), n, fr, st)
                        return None
                    o = x if x in OBJS else None
                if o is None:
                    if not quiet:
                        self.und('argument of %s not understood at %s' % (callee['q'], tu.loc(n)))
                    return None
                env[p['id']] = o
            elif bt == TS:
                sp = self.stamp_of(a, st, fr)
                if sp is None:
                    if not quiet:
                        self.und('TimeStamp argument of %s not understood at %s' % (callee['q'], tu.loc(n)))
                    return None
                env['ts:' + str(p['id'])] = sp
            elif ptr_to(p['ct'], OBSV):
                v = self.pval(a, st, fr)
                if v is None or isinstance(v, tuple):
                    if not quiet:
                        self.und('Observable* argument of %s not understood at %s' % (callee['q'], tu.loc(n)))
                    return None
                d['v:' + str(p['id'])] = v
            elif (p['ct'] or '').replace('const ', '').strip() == 'bool':
                d['b:' + str(p['id'])] = self.eval_bool(a, st, fr)
        return env, freeze(d)

    def on_dtor_elem(self, e, st, fr):
        tu = self.tu
        name = None
        if e[0] == 'AD':
            name = fr.env.get(e[1])
        elif e[0] == 'TD':
            bt = tu.node(e[1])
            inner = tu.strip(tu.kids(bt)[0]) if bt is not None and tu.kids(bt) else None
            name = self.temps.get(inner['id']) if inner is not None else None
        if not isinstance(name, str) or not name.startswith('local:'):
            return [st]
        d = thaw(st)
        if d.get(name) in (None, 'gone'):
            return [st]
        dts = [f for f in tu.functions.values() if f.get('rec') == OBSR and f.get('dtor') and not f['dep'] and tu.cfg(f) is not None]
        if len(dts) != 1:
            self.und('no destructor body for a local Observer')
            return [st]
        outs = []
        for s2, rv in self.run_fn(dts[0], {'this': name}, st, fr, None, 1):
            d2 = thaw(s2)
            if d2.get('r:' + name):
                self.report('stale-registration', 'a local Observer (`%s`) is destroyed while it is still in the observer list of %s: that '
                            'observable later writes through / compares against a dangling Observer* (events %s)'
                            % (name, list(d2['r:' + name]), list(d2.get('$ev', ()))), tu.node(e[1]) if e[0] == 'TD' else None, fr, s2)
            d2[name] = 'gone'
            d2.pop('r:' + name, None)
            s3 = freeze(d2)
            if s3 not in outs:
                outs.append(s3)
        return outs

    def inline(self, n, callee, this_obj, st, fr):
        bound = self.bind(n, callee, this_obj, st, fr)
        if bound is None:
            return [st]
        env, st1 = bound
        self.inlined[callee['id']] = self.inlined.get(callee['id'], 0) + 1
        out = []
        for s2, rv in self.run_fn(callee, env, st1, fr, n, 1):
            if s2 not in out:
                out.append(s2)
        return out

    def call_value(self, n, st, fr, depth=0):
        callee = self.tu.callee_fn(n)
        if callee is None or not self.is_own_fn(callee) or self.tu.cfg(callee) is None:
            return None
        bound = self.bind(n, callee, None, st, fr, quiet=True)
        if bound is None:
            return None
        env, st1 = bound
        saved = self._cur
        self._cur = None
        try:
            outs = self.run_fn(callee, env, st1, fr, n, depth + 1)
        finally:
            self._cur = saved
        return [rv for (_, rv) in outs]

    def on_node(self, n, st, fr):
        tu = self.tu
        k = n.get('kind')
        d = thaw(st)
        if k == 'MemberExpr' and tu.sd(n).get('d') == self.F.observers['id']:
            if not self.list_use_ok(n, fr):
                self.und('an interpreted member accesses the observer list directly at %s' % tu.loc(n))
            return [st]
        if k == 'DeclRefExpr' and ('l:' + str(n.get('referencedDecl', {}).get('id'))) in d:
            if not self.list_use_ok(n, fr):
                self.und('an interpreted member uses a reference to the observer list at %s in a way the analysis does not model' % tu.loc(n))
            return [st]
        if k == 'MemberExpr' and n.get('isArrow'):
            ks = tu.kids(n)
            b = tu.strip(ks[0], casts=True) if ks else None
            if b is not None and ptr_to(tu.sd(b).get('ct'), OBSV) and b.get('kind') != 'CXXThisExpr':
                v = self.pval(b, st, fr)
                if v == 'null':
                    self.report('null-deref', 'member `%s` is accessed through an observee pointer that is null on this path '
                                '(the observable was destroyed); no null test dominates the access' % n.get('name'), n, fr, st)
                elif v not in OBJS:
                    self.und('access through an Observable pointer the analysis cannot identify at %s' % tu.loc(n))
            return [st]
        if k == 'BinaryOperator' and n.get('opcode') == '=':
            ks = tu.kids(n)
            lhs = tu.strip(ks[0], casts=True)
            if self.is_field(lhs, self.F.observee):
                o = self.base_obj(lhs, fr)
                v = self.pval(ks[1], st, fr)
                if o is None or v is None or isinstance(v, tuple):
                    self.und('assignment to an observee member not understood at %s: %s' % (tu.loc(n), tu.show(n)))
                    return [st]
                d[o] = v
                return [freeze(d)]
            if lhs is not None and lhs.get('kind') == 'DeclRefExpr':
                did = str(lhs.get('referencedDecl', {}).get('id'))
                ct = (tu.sd(lhs).get('ct') or '')
                if ct == 'bool':
                    d['b:' + did] = self.eval_bool(ks[1], st, fr)
                    return [freeze(d)]
                if ptr_to(ct, OBSV):
                    d['v:' + did] = self.pval(ks[1], st, fr)
                    return [freeze(d)]
                if 's:' + did in d:
                    d['s:' + did] = self.stamp_of(ks[1], st, fr)
                    return [freeze(d)]
            return [st]
        if k in ('CXXConstructExpr', 'CXXTemporaryObjectExpr') and base_type(tu.sd(n).get('ct') or tu.sd(n).get('cty')) == OBSR:
            # a local / temporary Observer: its constructor is followed, its destructor runs at the end of its scope
            if any(e_[0] == 'I' and e_[1] == n['id'] for b_ in tu.cfg(fr.fn).blocks.values() for e_ in b_.el):
                return [st]           # delegating constructor call: handled by on_init
            callee = tu.callee_fn(n)
            if n.get('elidable') or callee is None or tu.cfg(callee) is None:
                self.und('construction of a local Observer that the analysis cannot follow at %s' % tu.loc(n))
                return [st]
            name = 'local:%s#%d' % (tu.line(n), len(self.temps))
            self.temps[n['id']] = name
            d[name] = 'undef'
            d['r:' + name] = ()
            return self.inline(n, callee, name, freeze(d), fr)
        if k == 'DeclStmt':
            for v in tu.kids(n):
                if v.get('kind') != 'VarDecl' or not tu.kids(v):
                    continue
                init = tu.kids(v)[-1]
                vt = v.get('type', {}).get('qualType', '')
                i0 = tu.strip(init, casts=True)
                if i0 is not None and i0.get('id') in self.temps and '&' not in vt:
                    fr.env[v['id']] = self.temps[i0['id']]
                    continue
                ict = tu.sd(tu.strip(init)).get('ct') or ''
                if vt.replace('const ', '').strip() == 'bool' or (ict == 'bool' and 'auto' in vt):
                    d['b:' + str(v['id'])] = self.eval_bool(init, st, fr)
                elif ptr_to(ict, OBSV) or ptr_to(tu.sd(tu.strip(init, casts=True)).get('ct'), OBSV):
                    d['v:' + str(v['id'])] = self.pval(init, st, fr)
                elif self.find_result(init, st, fr) is not None:
                    d['it:' + str(v['id'])] = self.find_result(init, st, fr)          # iterator returned by std::find on an observer list
                elif '&' in vt and self.list_owner(init, st, fr) is not None:
                    d['l:' + str(v['id'])] = self.list_owner(init, st, fr)       # reference to the observer list of that observable
                elif '&' not in vt and self.int_type(vt) and self.dist_of(init, st, fr, vt):
                    d['dist:' + str(v['id'])] = self.dist_of(init, st, fr, vt)     # difference of two stamps kept in an integer local
                elif self.stamp_of(init, st, fr) is not None and base_type(vt) != TS and '&' not in vt:
                    d['s:' + str(v['id'])] = self.stamp_of(init, st, fr)      # integer snapshot of a stamp
                else:
                    o = self.obj_of(init, fr)
                    if o is not None and '&' in vt:
                        fr.env[v['id']] = o
            return [freeze(d)]
        if k in CALLS:
            sd, obj, args = tu.call_parts(n)
            q = sd.get('q', '')
            if q in (REG, UNREG):
                x = self.observable_of(obj, st, fr) if obj is not None else None
                o = self.obj_of(args[0], fr) if args else None
                if x == 'null':
                    self.report('null-deref', '%s() is called through an observee pointer that is null on this path'
                                % q.split('::')[-1], n, fr, st)
                    return [st]
                if x not in OBJS or o is None or o in OBJS:
                    self.und('%s() with operands the analysis cannot identify at %s' % (q.split('::')[-1], tu.loc(n)))
                    return [st]
                d = self.ev(st, '%s(%s,%s)' % ('reg' if q == REG else 'unreg', x, o))
                cur = list(d.get('r:' + o, ()))
                if q == REG:
                    cur.append(x)
                else:
                    cur = [y for y in cur if y != x]
                d['r:' + o] = tuple(sorted(cur))
                return [freeze(d)]
            if q == RENEW:
                s = self.stamp_of(obj, st, fr) if obj is not None else None
                if s and s[0] == 'O':
                    d = self.ev(st, 'renew(%s.lastObserved)' % s[1])
                    d['renewed:' + s[1]] = True
                    d['eq:' + s[1]] = False
                    d['sp:' + s[1]] = None            # a fresh stamp: whatever poll state was copied before is gone
                    return [freeze(d)]
                if s and s[0] == 'N':
                    self.report('renews-notification', 'an Observer member renews the observable\'s notification stamp: every other '
                                'observer sees a notification that never happened', n, fr, st)
                return [st]
            if q == TS + '::operator=' and obj is not None and args:
                so, sa = self.stamp_of(obj, st, fr), self.stamp_of(args[0], st, fr)
                if so and so[0] == 'N':
                    self.report('notification-stamp-overwritten', 'an Observer member assigns to the observable\'s notification stamp: its '
                                'observers compare against a stamp that is not the time of a notification', n, fr, st)
                elif so and so[0] == 'O' and sa and sa[0] == 'N':
                    if d.get(so[1]) == sa[1] and sa[1] in OBJS:
                        # catch-up by assignment: lastObserved now EQUALS the notification stamp of its own observee
                        d = self.ev(st, 'catchup(%s.lastObserved)' % so[1])
                        d['eq:' + so[1]] = True
                        d['renewed:' + so[1]] = False
                        return [freeze(d)]
                    self.und('lastObserved is assigned from the notification stamp of another observable at %s' % tu.loc(n))
                elif so and so[0] == 'O' and sa and sa[0] == 'O' and so[1] != sa[1]:
                    # the poll state of another observer is taken over
                    d = self.ev(st, 'copystamp(%s<-%s)' % (so[1], sa[1]))
                    d['renewed:' + so[1]] = bool(sa[2])
                    d['sp:' + so[1]] = d.get('sp:' + sa[1], sa[1])
                    return [freeze(d)]
                return [st]
            if sd.get('rec') == TS or q in ('std::move', 'std::forward', 'std::addressof'):
                return [st]
            if obj is not None and k in ('CXXMemberCallExpr', 'CXXOperatorCallExpr') and self.list_owner(obj, st, fr) is not None:
                x = self.list_owner(obj, st, fr)
                nm = q.split('::')[-1]
                if nm in ('begin', 'end', 'cbegin', 'cend', 'size', 'empty'):
                    return [st]
                if nm in ('push_back', 'emplace_back') and len(args) == 1:
                    p_ = self.pval(args[0], st, fr)
                    if isinstance(p_, tuple) and p_[0] == 'addr' and p_[1] and p_[1] not in OBJS:
                        return [self.reg_event(st, 'reg', x, p_[1])]
                if nm == 'erase' and len(args) == 2:
                    first = unwrap_iter(tu, args[0])
                    if first is not None and first.get('kind') == 'CallExpr' and tu.sd(first).get('q') == 'std::remove':
                        s2_, o2_, ra = tu.call_parts(first)
                        p_ = self.pval(ra[2], st, fr) if len(ra) == 3 else None
                        if len(ra) == 3 and self.list_end(ra[0], st, fr, ('begin', 'cbegin')) == x and self.list_end(ra[1], st, fr, ('end', 'cend')) == x \
                                and self.list_end(args[1], st, fr, ('end', 'cend')) == x and isinstance(p_, tuple) and p_[0] == 'addr' and p_[1] not in OBJS:
                            return [self.reg_event(st, 'unreg', x, p_[1])]
                if nm == 'erase' and len(args) == 1:
                    it_ = unwrap_iter(tu, args[0])
                    fd_ = d.get('it:' + str(it_.get('referencedDecl', {}).get('id'))) if it_ is not None and it_.get('kind') == 'DeclRefExpr' else None
                    if fd_ and fd_[1] == x:
                        # erase(find(begin, end, &o)): removes the first entry for o (observers are listed once: R-C19-1 invariant)
                        if x not in d.get('r:' + fd_[2], ()):
                            self.report('erase-end', 'erase() is applied to the result of std::find on a path where the observer is not in the list: '
                                        'that is erase(end()), undefined behaviour', n, fr, st)
                            return [st]
                        d2 = self.ev(st, 'unreg1(%s,%s)' % (x, fd_[2]))
                        cur = list(d2.get('r:' + fd_[2], ()))
                        cur.remove(x)
                        d2['r:' + fd_[2]] = tuple(sorted(cur))
                        return [freeze(d2)]
                self.und('operation %s on an observer list in a form the analysis does not model at %s' % (nm, tu.loc(n)))
                return [st]
            if q == 'std::find':
                return [st]           # decided where its result is stored / compared
            if q == 'std::swap' and len(args) == 2:
                fa, fb = tu.strip(args[0], casts=True), tu.strip(args[1], casts=True)
                if self.is_field(fa, self.F.observee) and self.is_field(fb, self.F.observee):
                    oa, ob = self.base_obj(fa, fr), self.base_obj(fb, fr)
                    if oa and ob and oa not in OBJS and ob not in OBJS:
                        d[oa], d[ob] = d.get(ob), d.get(oa)
                        d['$ev'] = d.get('$ev', ()) + ('swap(%s.observee,%s.observee)' % (oa, ob),)
                        return [freeze(d)]
                if any(self.is_field(x_, self.F.observee) or self.obj_of(x_, fr) is not None for x_ in (fa, fb)):
                    self.und('std::swap on observer state in a form the analysis does not model at %s' % tu.loc(n))
                return [st]
            if q == 'std::remove':
                return [st]           # decided where its result is consumed (erase)
            lists = [(i, self.list_owner(a_, st, fr)) for i, a_ in enumerate(args) if self.list_owner(a_, st, fr) is not None]
            if lists and k == 'CallExpr' and not q.startswith('std::'):
                cal = tu.callee_fn(n)
                eff = list_helper_effect(tu, cal, self.F) if cal is not None and tu.cfg(cal) is not None and len(lists) == 1 else None
                if eff is not None and eff[1] == lists[0][0] and eff[2] < len(args):
                    p_ = self.pval(args[eff[2]], st, fr)
                    if isinstance(p_, tuple) and p_[0] == 'addr' and p_[1] and p_[1] not in OBJS:
                        self.inlined[cal['id']] = self.inlined.get(cal['id'], 0) + 1
                        return [self.reg_event(st, eff[0], lists[0][1], p_[1])]
                self.und('an observer list is handed to %s at %s, whose effect on it is not understood' % (q or '?', tu.loc(n)))
                return [st]
            if q == 'std::replace' and len(args) == 4:
                # std::replace(L.begin(), L.end(), &a, &b) on an observer list: every entry for a becomes an entry for b
                xa, xb = self.list_end(args[0], st, fr, ('begin',)), self.list_end(args[1], st, fr, ('end',))
                pa, pb = self.pval(args[2], st, fr), self.pval(args[3], st, fr)
                if xa in OBJS and xa == xb and isinstance(pa, tuple) and isinstance(pb, tuple) and pa[0] == pb[0] == 'addr' \
                        and pa[1] and pb[1] and pa[1] not in OBJS and pb[1] not in OBJS:
                    d = self.ev(st, 'replace(%s: %s->%s)' % (xa, pa[1], pb[1]))
                    ra, rb = list(d.get('r:' + pa[1], ())), list(d.get('r:' + pb[1], ()))
                    moved = [y for y in ra if y == xa]
                    d['r:' + pa[1]] = tuple(sorted(y for y in ra if y != xa))
                    d['r:' + pb[1]] = tuple(sorted(rb + moved)) if pa[1] != pb[1] else tuple(sorted(ra))
                    return [freeze(d)]
                self.und('std::replace on an observer list with operands the analysis cannot identify at %s' % tu.loc(n))
                return [st]
            callee = tu.callee_fn(n)
            if callee is not None and self.is_own_fn(callee) and tu.cfg(callee) is not None:
                return self.inline(n, callee, None, st, fr)
            for a in ([obj] if obj is not None else []) + list(args):
                if self.obj_of(a, fr) is not None or self.pval(a, st, fr) in OBJS:
                    self.und('tracked observer/observable escapes into %s at %s' % (q or '?', tu.loc(n)))
                    break
            return [st]
        return [st]


def obs_role(f):
    if f.get('rec') != OBSR:
        return None
    if f.get('dtor'):
        return 'dtor'
    if f.get('ctor') in ('copy', 'move'):
        return f['ctor'] + '-ctor'
    if f.get('ctor'):
        ps = f['params']
        if len(ps) == 1 and base_type(ps[0]['ct']) == OBSV:
            return 'ctor'
        return None
    if f.get('assign'):
        return f['assign'] + '-assign'
    if f['q'] == WAS:
        return 'wasNotified'
    return None


CATCHUP = [False]      # does any Observer member assign lastObserved from a notification stamp?


def obs_scenarios(f, role):
    out = []
    ps = f['params']
    if role == 'ctor':
        out.append(('observable=P', {'this': 'this', ps[0]['id']: 'P'}, {'this': 'undef'}, ['this']))
    elif role in ('copy-ctor', 'move-ctor'):
        nm = ps[0]['name'] or 'other'
        for v in ('null', 'P'):
            out.append(('%s.observee=%s' % (nm, v), {'this': 'this', ps[0]['id']: nm}, {'this': 'undef', nm: v}, ['this', nm]))
    elif role == 'dtor':
        for v in ('null', 'P'):
            out.append(('observee=%s' % v, {'this': 'this'}, {'this': v}, []))
    elif role in ('copy-assign', 'move-assign'):
        nm = ps[0]['name'] or 'other'
        for tv in ('null', 'P'):
            for ov in ('null', 'P', 'Q'):
                out.append(('observee=%s, %s.observee=%s' % (tv, nm, ov), {'this': 'this', ps[0]['id']: nm},
                            {'this': tv, nm: ov}, ['this', nm]))
            out.append(('observee=%s, &%s==this' % (tv, nm), {'this': 'this', ps[0]['id']: 'this'}, {'this': tv}, ['this']))
    elif role == 'wasNotified':
        out.append(('observee=null', {'this': 'this'}, {'this': 'null', 'N': False}, ['this']))
        for nv in (True, False):
            out.append(('observee=P, %snotified since the last poll' % ('' if nv else 'not '), {'this': 'this'},
                        {'this': 'P', 'N': nv}, ['this']))
        if CATCHUP[0]:
            # the class catches up by assigning the notification stamp: a poll can then start with the two stamps EQUAL
            out.append(('observee=P, not notified since the last poll, stamps equal (caught up by assignment)', {'this': 'this'},
                        {'this': 'P', 'N': False, 'eq:this': True}, ['this']))
    res = []
    for label, env, d, alive in out:
        for o, v in list(d.items()):
            if o in ('this', ) or (o not in ('N',) and not o.startswith('r:')):
                if o != 'N':
                    d['r:' + o] = (v,) if v in OBJS else ()
        d['$ev'] = ()
        res.append((label, env, d, alive))
    return res


PENDING = []


def resolve_pending(ctx, tu, analysed):
    """private Observer members called from outside Observer (through the friendship with Observable): accepted when they are
    the helper through which ~Observable clears the observee of each registered observer, and nobody else calls them"""
    R1 = 'R-C19-1'
    for tid, f, inst0, tch, outside in [p for p in PENDING if p[0] == id(tu)]:
        if f['id'] in ORPHAN['helpers'] and all(o in ORPHAN['ctx'] for o in outside):
            analysed.add(f['id'])
            ctx.ok(R1, inst0, 'private helper called only from the orphaning loop of ~Observable (%s): clears the observee of the observer '
                   'it is called on' % ', '.join(sorted(set(o.replace(NS, '') for o in outside))[:2]), tu.fn_loc(f))
        else:
            ctx.undecided(R1, inst0, 'Observer member touches %s but has no known role and is called from outside Observer (%s)'
                          % (tch, ', '.join(outside[:3])), tu.fn_loc(f))
    PENDING[:] = [p for p in PENDING if p[0] != id(tu)]


def check_observer(ctx, tu, F, analysed, all_tus=()):
    R1, R2, R4 = 'R-C19-1', 'R-C19-2', 'R-C19-4'
    it = ObsInterp(tu, F)
    n1 = n2 = n4 = 0
    helpers = []
    CATCHUP[0] = False
    for f_ in tu.functions.values():
        if f_.get('rec') == OBSR and not f_['dep'] and tu.body(f_) is not None:
            for x_ in tu.walk(tu.body(f_)):
                if x_.get('kind') == 'CXXOperatorCallExpr' and tu.sd(x_).get('q') == TS + '::operator=':
                    s_, o_, a_ = tu.call_parts(x_)
                    o0 = tu.strip(o_, casts=True) if o_ is not None else None
                    if o0 is not None and tu.sd(o0).get('d') == F.last_observed['id'] and a_ and any(
                            y_.get('id') and tu.sd(y_).get('d') == F.last_notified['id'] for y_ in tu.walk(a_[0])):
                        CATCHUP[0] = True
    for f in sorted(tu.functions.values(), key=lambda x: (x['f'], x['l'])):
        if f['dep'] or f.get('rec') != OBSR or tu.cfg(f) is None or f.get('implicit'):
            continue
        role = obs_role(f)
        inst0 = fn_name(f)
        file = tu.fn_file(f)
        tch = touched_fields(tu, f, F)
        if role is None:
            if tch & {'observee', 'lastObserved', 'observers', 'lastNotified'}:
                outside = callers_outside([tu] + list(all_tus), f['q'], {OBSR}) if f.get('access') == 'private' and not f.get('virt') else None
                if outside == []:
                    helpers.append((f, inst0))
                elif outside:
                    PENDING.append((id(tu), f, inst0, sorted(tch), outside))      # decided after the Observable side was analysed
                else:
                    ctx.undecided(R1, inst0, 'Observer member touches %s but has no known role' % sorted(tch), tu.fn_loc(f))
            continue
        analysed.add(f['id'])
        rule = R2 if role == 'wasNotified' else R4 if role in ('copy-ctor', 'move-ctor', 'copy-assign', 'move-assign') else R1
        if tu.cfg(f).back_edges():
            ctx.undecided(rule, inst0, 'loop in an Observer member', tu.fn_loc(f))
            continue
        for label, env, d0, alive in obs_scenarios(f, role):
            it.memo = {}
            nund = len(it.undecided)
            (st_, outs, found), = it.analyse_entry(f, dict(env), [freeze(d0)])
            inst = '%s [%s]' % (inst0, label)
            if rule == R1:
                n1 += 1
            elif rule == R2:
                n2 += 1
            else:
                n4 += 1
            if it.undecided[nund:]:
                for u in it.undecided[nund:]:
                    ctx.undecided(rule, inst, u, tu.fn_loc(f))
                continue
            if found:
                for kind, detail, nid, chain, fst, infn in found:
                    inner = tu.functions.get(infn, f)
                    ctx.violation(rule, inst, detail, tu.loc(nid) if nid else tu.fn_loc(f),
                                  key='%s|%s|%s|%s' % (rule, tu.fn_file(inner), fn_name(inner), kind),
                                  path=list(chain) + ['at %s: %s' % (tu.loc(nid), tu.show(tu.node(nid)))])
                continue
            if len(outs) != 1:
                ctx.undecided(rule, inst, 'a branch condition could not be decided from the entry scenario (%d exits)' % len(outs), tu.fn_loc(f))
                continue
            d, rv = thaw(outs[0][0]), outs[0][1]
            problems = []
            for o in alive:
                x = d.get(o)
                reg = d.get('r:' + o, ())
                if x == 'undef':
                    problems.append(('uninit-observee', 'observee of `%s` is left without a defined value' % o))
                want = (x,) if x in OBJS else ()
                if tuple(reg) != want:
                    missing = [y for y in want if y not in reg]
                    extra = [y for y in reg if y not in want]
                    if missing:
                        problems.append(('not-registered', 'at exit `%s` observes %s but is not in its observer list: when that observable '
                                         'is destroyed the observer keeps a dangling observee pointer (events %s)' % (o, x, list(d['$ev']))))
                    if extra:
                        problems.append(('stale-registration', 'at exit `%s` is still in the observer list of %s although its observee is %s: '
                                         'that observable will write through a stale Observer* (events %s)' % (o, extra, x, list(d['$ev']))))
                    if not missing and not extra:
                        problems.append(('registered-twice', '`%s` is registered %d times with %s' % (o, len(reg), x)))
            if role == 'dtor' and d.get('r:this', ()):
                problems.append(('stale-registration', 'after ~Observer the destroyed observer is still in the observer list of %s: the '
                                 'observable later writes through a dangling Observer* (events %s)' % (list(d['r:this']), list(d['$ev']))))
            if role == 'ctor':
                if d.get('this') != 'P':
                    problems.append(('wrong-observee', 'constructed observer observes %s instead of the observable it was given' % d.get('this')))
                if d.get('stamp:this') != 'fresh' and not d.get('renewed:this'):
                    problems.append(('stale-stamp', 'lastObserved of a new observer is not a fresh stamp: it would report notifications '
                                     'that happened before its creation'))
            if role in ('copy-ctor', 'copy-assign', 'move-ctor', 'move-assign'):
                src = env[f['params'][0]['id']]
                if d.get('this') != d0.get(src):
                    problems.append(('wrong-observee', 'after the operation the observer observes %s, the source observed %s'
                                     % (d.get('this'), d0.get(src))))
                if role.startswith('copy') and src != 'this' and d.get(src) != d0.get(src):
                    problems.append(('source-modified', 'copy changed the observee of the source'))
                # a copy / an assigned observer carries the poll state of its source: it reports a pending notification exactly like
                # the source would (and not again what the source already consumed)
                if role in ('copy-ctor', 'copy-assign') and src != 'this' and d.get('this') in OBJS and d.get('sp:this') != src:
                    evs_ = list(d['$ev'])
                    if 'renew(this.lastObserved)' in evs_ or role == 'copy-ctor':
                        problems.append(('poll-state-discarded', 'at exit lastObserved does not carry the poll state of the source (%s): a copied / '
                                         'assigned observer gets a fresh stamp, so a notification that is still pending for the source is '
                                         'never reported by the copy (observers stored by value lose notifications whenever their container '
                                         'copies them); events %s' % ('it is renewed after the copy' if 'renew(this.lastObserved)' in evs_
                                                                     else 'it is never copied', evs_)))
                    else:
                        problems.append(('stale-poll-state', 'the assignment makes the observer observe %s but leaves lastObserved as it was '
                                         '(not copied from the source): the observer judges its new observable by the time of '
                                         'its last poll of the old one - notifications the source already consumed are reported again, or a '
                                         'pending one is missed (events %s)' % (d.get('this'), evs_)))
            if role == 'wasNotified':
                evs = list(d['$ev'])
                if d0['this'] == 'null':
                    if rv is not False:
                        problems.append(('orphan-result', 'wasNotified() of an orphaned observer (observable destroyed) returns %s instead of false' % rv))
                else:
                    if rv is None:
                        ctx.undecided(rule, inst, 'return value not understood', tu.fn_loc(f))
                        continue
                    if rv != d0['N']:
                        problems.append(('wrong-result', 'wasNotified() returns %s when the observable has %s since the last poll '
                                         '(required: the truth of lastObserved < observee->lastNotified, compared before any renew)'
                                         % (rv, 'notified' if d0['N'] else 'not notified')))
                    elif rv and 'renew(this.lastObserved)' not in evs and 'catchup(this.lastObserved)' not in evs:
                        problems.append(('no-renew', 'wasNotified() returns true without renewing lastObserved: the same notification is '
                                         'reported again by the next poll'))
                if d.get('this') != d0['this']:
                    problems.append(('observee-changed', 'wasNotified() changes the observee'))
            if problems:
                seen = set()
                for kind, msg in problems:
                    if kind not in seen:
                        seen.add(kind)
                        ctx.violation(rule, inst, msg, tu.fn_loc(f), key='%s|%s|%s|%s' % (rule, file, inst0, kind),
                                      path=['entry: %s' % label, 'events: %s' % (list(d['$ev']),)])
            else:
                ctx.ok(rule, inst, 'events %s; observee %s; registered with %s%s' % (list(d['$ev']), d.get('this'), list(d.get('r:this', ())),
                                                                                    '; returns %s' % rv if role == 'wasNotified' else ''), tu.fn_loc(f))
    for f, inst0 in helpers:
        k = it.inlined.get(f['id'], 0)
        analysed.add(f['id'])
        ctx.ok(R1, inst0, 'private helper called only from Observer members: its effects are interpreted at each of its %d call site(s), '
               'with `this` and the arguments bound' % k, tu.fn_loc(f), nontrivial=k > 0)
    # helper members of Observable that the interpreter followed from Observer members (e.g. a stamp comparison moved into Observable)
    for fid, k in it.inlined.items():
        f = tu.functions.get(fid)
        if f is None or f.get('rec') != OBSV or fid in analysed:
            continue
        outside = callers_outside([tu] + list(all_tus), f['q'], {OBSR})
        if f.get('access') == 'private' and not f.get('virt') and not outside:
            analysed.add(fid)
            ctx.ok(R1, fn_name(f), 'private helper of Observable called only from Observer members: interpreted at each of its %d call '
                   'site(s) with `this` bound to the observee' % k, tu.fn_loc(f))
    return n1, n2, n4


def touched_fields(tu, f, F):
    ids = {F.observee['id']: 'observee', F.last_observed['id']: 'lastObserved', F.last_notified['id']: 'lastNotified',
           F.observers['id']: 'observers'}
    t = set()
    nodes = []
    b = tu.body(f)
    if b is not None:
        nodes = list(tu.walk(b))
    g = tu.cfg(f)
    if g is not None:
        for blk in g.blocks.values():
            for e in blk.el:
                if e[0] == 'I':
                    if e[2] in ids and e[4]:
                        t.add(ids[e[2]])
                    x = tu.node(e[1])
                    if x is not None and e[4]:
                        nodes.extend(tu.walk(x))
    for x in nodes:
        if x.get('id') and tu.sd(x).get('d') in ids and tu.sd(x).get('k') == 'member':
            t.add(ids[tu.sd(x)['d']])
    return t


# ============================================================================================
#  Observable members (normal forms)
# ============================================================================================
def list_expr(tu, e, F, aliases):
    """is e the observer list of *this (directly or through a local reference to it)?"""
    e = tu.strip(e, casts=True)
    if e is None:
        return False
    if e.get('kind') == 'MemberExpr' and tu.sd(e).get('d') == F.observers['id']:
        ks = tu.kids(e)
        return not ks or tu.is_this(ks[0])
    if e.get('kind') == 'DeclRefExpr':
        return e.get('referencedDecl', {}).get('id') in aliases
    return False


def list_aliases(tu, f, F):
    al = set()
    for x in tu.walk(tu.body(f)):
        if x.get('kind') == 'VarDecl' and '&' in x.get('type', {}).get('qualType', '') and tu.kids(x):
            if list_expr(tu, tu.kids(x)[-1], F, al):
                al.add(x['id'])
    return al


def addr_of_param(tu, e, f):
    e = tu.strip(e, casts=True)
    if e is None:
        return False
    if e.get('kind') == 'UnaryOperator' and e.get('opcode') == '&':
        d = tu.ref_decl(tu.kids(e)[0])
        return d is not None and d in {p['id'] for p in f['params']}
    if e.get('kind') == 'CallExpr' and tu.sd(e).get('q') == 'std::addressof':
        s, o, args = tu.call_parts(e)
        d = tu.ref_decl(args[0]) if args else None
        return d is not None and d in {p['id'] for p in f['params']}
    return False


def unwrap_iter(tu, e):
    """skip iterator conversions (__normal_iterator<const T*>(it))"""
    e = tu.strip(e, casts=True)
    for _ in range(6):
        if e is not None and e.get('kind') in ('CXXConstructExpr', 'CXXTemporaryObjectExpr') and len(tu.kids(e)) == 1:
            e = tu.strip(tu.kids(e)[0], casts=True)
        else:
            break
    return e


def list_calls(tu, f, F, aliases):
    out = []
    for x in tu.walk(tu.body(f)):
        if x.get('kind') in ('CXXMemberCallExpr', 'CXXOperatorCallExpr'):
            sd, obj, args = tu.call_parts(x)
            if obj is not None and list_expr(tu, obj, F, aliases):
                out.append((sd.get('q', '').split('::')[-1], x, args))
    return out


def is_list_end(tu, e, F, aliases, which):
    e = unwrap_iter(tu, e)
    if e is None or e.get('kind') != 'CXXMemberCallExpr':
        return False
    sd, obj, args = tu.call_parts(e)
    return sd.get('q', '').split('::')[-1] in which and obj is not None and list_expr(tu, obj, F, aliases)


def find_lambda(tu, e):
    """the call operator (function entry) of a lambda expression passed as an argument, through the closure copy"""
    e = tu.strip(e, casts=True)
    for _ in range(4):
        if e is not None and e.get('kind') in ('CXXConstructExpr', 'CXXTemporaryObjectExpr') and len(tu.kids(e)) == 1:
            e = tu.strip(tu.kids(e)[0], casts=True)
    if e is None or e.get('kind') != 'LambdaExpr':
        return None
    return tu.functions.get(tu.sd(e).get('op'))


def null_literal(tu, e):
    e = tu.strip(e, casts=True)
    return e is not None and (e.get('kind') in ('CXXNullPtrLiteralExpr', 'GNUNullExpr') or
                              (e.get('kind') == 'IntegerLiteral' and e.get('value') == '0'))


ORPHAN = {'ctx': set(), 'helpers': set()}     # functions forming the orphaning context of ~Observable / Observer helpers it calls


ORPHAN_NOT_NULL = ('~Observable assigns a non-null value to the observee of its observers instead of orphaning them (observee = nullptr): the '
                   'observers are re-homed on another Observable, wasNotified() then compares against that object\'s notification stamp - a stamp '
                   'drawn when it was created, possibly after the observer\'s last poll - and reports a notification although its observable is '
                   'gone (the property requires false after the observable is destroyed)')
ITER_MUT = ('~Observable iterates over its observer list and calls, for every element, a helper that edits that very list: %s. Erasing the '
            'current element shifts the remaining ones down, the loop then steps over the element that moved into its place (and runs with '
            'invalidated iterators): every other observer is skipped, keeps its observee pointer and dangles once the observable is gone')


def member_nulls_observee(tu, F, fn, depth=0):
    """does the Observer member fn clear this->observee on every path?  'yes' / 'nonnull' / 'no' (followed, nothing found) /
    'unknown'.  Calls to other Observer members on *this are followed."""
    g = tu.cfg(fn)
    if g is None or g.back_edges() or depth > 3:
        return 'unknown'
    found = []
    for x in tu.walk(tu.body(fn)):
        if x.get('kind') == 'BinaryOperator' and x.get('opcode') == '=':
            lhs = tu.strip(tu.kids(x)[0], casts=True)
            if lhs.get('kind') == 'MemberExpr' and tu.sd(lhs).get('d') == F.observee['id']:
                ks = tu.kids(lhs)
                if ks and not tu.is_this(ks[0]):
                    return 'unknown'
                if not null_literal(tu, tu.kids(x)[1]):
                    return 'nonnull'
                found.append(x)
    # does the member also edit the observable's list (observee->removeObserver(*this), erase on observee->observers)?
    for x in tu.walk(tu.body(fn)):
        if x.get('id') and tu.sd(x).get('k') == 'call':
            q_ = tu.sd(x).get('q', '')
            if q_ in (REG, UNREG):
                ORPHAN['mutates'] = '%s() in %s (%s)' % (q_.split('::')[-1], fn['q'].replace(NS, ''), tu.loc(x))
            elif q_.split('::')[-1] in ('erase', 'push_back', 'pop_back', 'clear', 'insert', 'emplace_back'):
                s_, obj_, a_ = tu.call_parts(x)
                o_ = tu.strip(obj_, casts=True) if obj_ is not None else None
                if o_ is not None and o_.get('kind') == 'MemberExpr' and tu.sd(o_).get('d') == F.observers['id']:
                    ORPHAN['mutates'] = '%s on the observer list in %s (%s)' % (q_.split('::')[-1], fn['q'].replace(NS, ''), tu.loc(x))
    if any(on_every_path(g, x['id']) for x in found):
        return 'yes'
    if found:
        # path-wise: on every path the pointer is assigned null, or the path was taken because it already is null
        fids = {x['id'] for x in found}

        def says_null(c, truth):
            c = tu.strip(c, casts=True)
            while c is not None and c.get('kind') == 'UnaryOperator' and c.get('opcode') == '!':
                truth = not truth
                c = tu.strip(tu.kids(c)[0], casts=True)
            if c is None:
                return False
            if c.get('kind') == 'MemberExpr' and tu.sd(c).get('d') == F.observee['id'] and (not tu.kids(c) or tu.is_this(tu.kids(c)[0])):
                return not truth
            if c.get('kind') == 'BinaryOperator' and c.get('opcode') in ('==', '!='):
                l, r = tu.kids(c)
                for a_, b_ in ((l, r), (r, l)):
                    a0 = tu.strip(a_, casts=True)
                    if a0 is not None and a0.get('kind') == 'MemberExpr' and tu.sd(a0).get('d') == F.observee['id'] and null_literal(tu, b_):
                        return truth == (c['opcode'] == '==')
            return False
        ok_all = True
        for path in cfg_paths(g):
            nulled = any(e[0] == 'S' and e[1] in fids for blk, taken in path for e in blk.el)
            known_null = any(taken is not None and blk.cond is not None and len(blk.succ) == 2 and says_null(tu.node(blk.cond), taken == 0)
                             for blk, taken in path)
            if not (nulled or known_null):
                ok_all = False
        return 'yes' if ok_all else 'unknown'
    sub = []
    for x in tu.walk(tu.body(fn)):
        if x.get('kind') == 'CXXMemberCallExpr' and tu.sd(x).get('rec') == OBSR:
            s_, obj, a_ = tu.call_parts(x)
            cf = tu.callee_fn(x)
            if cf is None or (obj is not None and not tu.is_this(obj)):
                return 'unknown'
            r = member_nulls_observee(tu, F, cf, depth + 1)
            if r == 'yes' and on_every_path(g, x['id']):
                ORPHAN['helpers'].add(cf['id'])
                return 'yes'
            sub.append(r)
    return 'unknown' if sub else 'no'


def element_orphaned_by_helper(tu, F, scope, elem_id, is_executed):
    """calls `elem->helper()` inside scope (loop body / lambda body) to Observer members: ('yes', text) when one that clears the
    observee is executed for every element, ('no', None) when helpers were followed and none clears it, ('unknown', why),
    None when the element is not handed to any helper"""
    res = []
    for x in tu.walk(scope):
        if x.get('kind') == 'CXXMemberCallExpr' and tu.sd(x).get('rec') == OBSR:
            s_, obj, a_ = tu.call_parts(x)
            base = tu.strip(obj, casts=True) if obj is not None else None
            while base is not None and base.get('kind') == 'UnaryOperator' and base.get('opcode') == '*':
                base = tu.strip(tu.kids(base)[0], casts=True)
            if base is None or tu.ref_decl(base) != elem_id:
                continue
            cf = tu.callee_fn(x)
            if cf is None or tu.cfg(cf) is None:
                res.append(('unknown', 'helper %s has no visible body' % tu.sd(x).get('q')))
                continue
            ORPHAN['mutates'] = None
            r = member_nulls_observee(tu, F, cf)
            if r == 'yes' and ORPHAN.get('mutates'):
                return ('mutates', ORPHAN['mutates'])
            if r == 'yes':
                if is_executed(x):
                    ORPHAN['helpers'].add(cf['id'])
                    return ('yes', 'calls %s() on every element, which assigns null to its observee on every path' % cf['q'].split('::')[-1])
                res.append(('unknown', 'the call of %s is not executed for every element' % cf['q']))
            elif r == 'nonnull':
                res.append(('nonnull', None))
            elif r == 'no':
                res.append(('no', None))
            else:
                res.append(('unknown', 'effect of %s on the observee is not understood' % cf['q']))
    if not res:
        return None
    for k in ('unknown', 'nonnull', 'no'):
        for r in res:
            if r[0] == k:
                return r
    return None


def for_each_orphans(tu, f, F, al, analysed):
    """std::for_each(list.begin(), list.end(), [](Observer *o) { o->observee = nullptr; }): the callable is applied to every
    element; its body must assign null to the observee of its parameter on every path"""
    body = tu.body(f)
    calls = [x for x in tu.walk(body) if x.get('kind') == 'CallExpr' and tu.sd(x).get('q') == 'std::for_each']
    if len(calls) != 1:
        return None
    s_, o_, args = tu.call_parts(calls[0])
    if len(args) != 3 or not is_list_end(tu, args[0], F, al, ('begin',)) or not is_list_end(tu, args[1], F, al, ('end',)):
        return ('undecided', 'std::for_each is not applied to [begin, end) of the observer list')
    lam = find_lambda(tu, args[2])
    if lam is None or tu.cfg(lam) is None:
        return ('undecided', 'the callable given to std::for_each is not a lambda with a visible body')
    if not on_every_path(tu.cfg(f), calls[0]['id']):
        return ('undecided', 'std::for_each is not executed on every path of the destructor')
    ps = lam['params']
    if len(ps) != 1 or not ptr_to(base_type(ps[0]['ct']), OBSR):
        return ('undecided', 'lambda parameter is not one Observer*')
    g = tu.cfg(lam)
    if g.back_edges():
        return ('undecided', 'loop in the lambda')
    assigns = []
    for x in tu.walk(tu.body(lam)):
        if x.get('kind') == 'BinaryOperator' and x.get('opcode') == '=':
            lhs = tu.strip(tu.kids(x)[0], casts=True)
            if lhs.get('kind') == 'MemberExpr' and tu.sd(lhs).get('d') == F.observee['id']:
                base = tu.strip(tu.kids(lhs)[0], casts=True) if tu.kids(lhs) else None
                while base is not None and base.get('kind') == 'UnaryOperator' and base.get('opcode') == '*':
                    base = tu.strip(tu.kids(base)[0], casts=True)
                if base is not None and tu.ref_decl(base) == ps[0]['id']:
                    assigns.append((x, null_literal(tu, tu.kids(x)[1])))
    analysed.add(lam['id'])
    ORPHAN['ctx'] |= {f['q'], lam['q']}
    if not assigns:
        h = element_orphaned_by_helper(tu, F, tu.body(lam), ps[0]['id'], lambda x: on_every_path(g, x['id']))
        if h is not None and h[0] == 'mutates':
            return ('violation', 'list-modified-during-iteration', ITER_MUT % h[1])
        if h is not None and h[0] == 'yes':
            return ('ok', 'std::for_each over the whole observer list with a lambda that ' + h[1])
        if h is not None and h[0] == 'unknown':
            return ('undecided', h[1])
        if h is not None and h[0] == 'nonnull':
            return ('violation', 'orphan-not-null', ORPHAN_NOT_NULL)
        return ('violation', 'no-orphaning', '~Observable visits its observers without clearing their observee pointer%s: every registered '
                'observer keeps a dangling pointer' % (' (the helper it calls on each of them does not clear it either)' if h else ''))
    if not all(n for x, n in assigns):
        return ('violation', 'orphan-not-null', ORPHAN_NOT_NULL)
    if not any(on_every_path(g, x['id']) for x, n in assigns):
        return ('undecided', 'the assignment of null is not executed on every path of the lambda')
    return ('ok', 'std::for_each over the whole observer list with a lambda that assigns null to the observee of its argument')


def list_helper_effect(tu, fn, F):
    """free helper that receives an observer list by reference and an Observer* by value:
    ('unreg', list param index, entry param index) if its body is  L.erase(std::remove(L.begin(), L.end(), entry), L.end())  on
    every path and nothing else touches L;  ('reg', i, j) for  L.push_back(entry);  else None"""
    ps = fn.get('params', [])
    li = [i for i, p in enumerate(ps) if re.match(r'std::vector<rkcommon::utility::Observer \*.*> &$', p['ct'].strip())]
    ei = [i for i, p in enumerate(ps) if ptr_to(base_type(p['ct']), OBSR) or ptr_to(p['ct'], OBSR)]
    g = tu.cfg(fn)
    if len(li) != 1 or len(ei) != 1 or g is None or g.back_edges():
        return None
    al = {ps[li[0]]['id']}
    eid = ps[ei[0]]['id']
    calls = []
    for x in tu.walk(tu.body(fn)):
        if x.get('kind') in ('CXXMemberCallExpr', 'CXXOperatorCallExpr'):
            sd, obj, args = tu.call_parts(x)
            if obj is not None and tu.ref_decl(obj) in al:
                nm = sd.get('q', '').split('::')[-1]
                if nm not in ('begin', 'end', 'cbegin', 'cend'):
                    calls.append((nm, x, args))
    if len(calls) != 1 or not on_every_path(g, calls[0][1]['id']):
        return None
    nm, x, args = calls[0]
    if nm in ('push_back', 'emplace_back') and len(args) == 1 and tu.ref_decl(args[0]) == eid:
        return ('reg', li[0], ei[0])
    if nm == 'erase' and len(args) == 2:
        first = unwrap_iter(tu, args[0])
        if first is not None and first.get('kind') == 'CallExpr' and tu.sd(first).get('q') == 'std::remove':
            s_, o_, ra = tu.call_parts(first)
            if len(ra) == 3 and is_list_end(tu, ra[0], F, al, ('begin', 'cbegin')) and is_list_end(tu, ra[1], F, al, ('end', 'cend')) \
                    and tu.ref_decl(ra[2]) == eid and is_list_end(tu, args[1], F, al, ('end', 'cend')):
                return ('unreg', li[0], ei[0])
    return None


def drain_orphans(tu, f, F, al):
    """~Observable as a drain loop:  while (!L.empty()) { Observer *o = L.back(); L.pop_back(); o->observee = nullptr; }
    every iteration takes the last entry off the list and orphans it; the loop ends when the list is empty, so every
    registered observer is orphaned exactly once.  Straight-line body only."""
    loops = [x for x in tu.walk(tu.body(f)) if x.get('kind') == 'WhileStmt']
    if len(loops) != 1:
        return None
    ks = tu.kids(loops[0])
    if len(ks) != 2:
        return None
    cond, body = tu.strip(ks[0], casts=True), ks[1]
    neg = False
    while cond is not None and cond.get('kind') == 'UnaryOperator' and cond.get('opcode') == '!':
        neg = not neg
        cond = tu.strip(tu.kids(cond)[0], casts=True)
    if cond is None or cond.get('kind') != 'CXXMemberCallExpr' or not neg:
        return None
    sd, obj, a_ = tu.call_parts(cond)
    if sd.get('q', '').split('::')[-1] != 'empty' or obj is None or not list_expr(tu, obj, F, al):
        return None
    if not on_every_path(tu.cfg(f), cond['id']):
        return ('undecided', 'the drain loop is not executed on every path of the destructor')
    if any(z.get('kind') in ('BreakStmt', 'ReturnStmt', 'GotoStmt', 'CXXThrowExpr', 'ContinueStmt', 'IfStmt', 'ConditionalOperator', 'ForStmt',
                             'WhileStmt', 'DoStmt', 'SwitchStmt') for z in tu.walk(body)):
        return ('undecided', 'the drain loop has a body that is not straight-line code')
    elem, pops, others = None, 0, []
    for x in tu.walk(body):
        if x.get('kind') == 'VarDecl' and tu.kids(x):
            init = tu.strip(tu.kids(x)[-1], casts=True)
            if init is not None and init.get('kind') == 'CXXMemberCallExpr':
                sd, obj, a_ = tu.call_parts(init)
                if sd.get('q', '').split('::')[-1] == 'back' and obj is not None and list_expr(tu, obj, F, al) and '&' not in x.get('type', {}).get('qualType', ''):
                    elem = x
        if x.get('kind') == 'CXXMemberCallExpr':
            sd, obj, a_ = tu.call_parts(x)
            if obj is not None and list_expr(tu, obj, F, al):
                nm = sd.get('q', '').split('::')[-1]
                if nm == 'pop_back':
                    pops += 1
                elif nm not in ('back', 'empty', 'size'):
                    others.append(nm)
    if elem is None or pops != 1 or others:
        return ('undecided', 'the loop over the observer list is not the recognised drain form (o = back(); pop_back(); orphan o)')
    assigns = []
    for x in tu.walk(body):
        if x.get('kind') == 'BinaryOperator' and x.get('opcode') == '=':
            lhs = tu.strip(tu.kids(x)[0], casts=True)
            if lhs.get('kind') == 'MemberExpr' and tu.sd(lhs).get('d') == F.observee['id'] and tu.kids(lhs) and \
                    tu.ref_decl(tu.kids(lhs)[0]) == elem['id']:
                assigns.append(null_literal(tu, tu.kids(x)[1]))
    ORPHAN['ctx'].add(f['q'])
    if assigns:
        if all(assigns):
            return ('ok', 'drain loop: every entry is taken off the list (back/pop_back) and its observee set to null until the list is empty')
        return ('violation', 'orphan-not-null', ORPHAN_NOT_NULL)
    h = element_orphaned_by_helper(tu, F, body, elem['id'], lambda x: True)
    if h is not None and h[0] == 'mutates':
        return ('undecided', 'the drain loop orphans through a helper that edits the list itself (%s)' % h[1])
    if h is not None and h[0] == 'yes':
        return ('ok', 'drain loop: every entry is taken off the list and ' + h[1])
    if h is not None and h[0] == 'unknown':
        return ('undecided', h[1])
    return ('violation', 'no-orphaning', '~Observable takes its observers off the list without clearing their observee pointer: every '
            'registered observer keeps a dangling pointer')


def compaction_remove(tu, f, F, al):
    """hand-written erase-remove:   keep = L.begin();  for (it = L.begin(); it != L.end(); ++it) if (*it != &arg) *keep++ = *it;
    L.erase(keep, L.end());   -- the reference implementation of std::remove followed by erase.  Exact shape only."""
    body = tu.body(f)
    if body is None or body.get('kind') != 'CompoundStmt':
        return False
    target = set()       # const locals holding &arg
    keep = it = None
    stage = 0

    def is_var(e, vid):
        e = tu.strip(e, casts=True)
        return e is not None and e.get('kind') == 'DeclRefExpr' and e.get('referencedDecl', {}).get('id') == vid and vid is not None

    def opcall(e, name):
        e = tu.strip(e, casts=True)
        if e is not None and e.get('kind') == 'CXXOperatorCallExpr' and tu.sd(e).get('q', '').split('::')[-1] == name:
            return tu.kids(e)[1:]
        return None

    def deref_of(e, vid):
        a = opcall(e, 'operator*')
        return a is not None and len(a) == 1 and is_var(a[0], vid)

    def is_target(e):
        return addr_of_param(tu, e, f) or any(is_var(e, v) for v in target)

    def single(stmt):
        stmt = tu.strip(stmt)
        while stmt is not None and stmt.get('kind') == 'CompoundStmt' and len(tu.kids(stmt)) == 1:
            stmt = tu.strip(tu.kids(stmt)[0])
        return stmt

    for st in tu.kids(body):
        st = tu.strip(st)
        k = st.get('kind')
        if k == 'DeclStmt' and len(tu.kids(st)) == 1 and tu.kids(st)[0].get('kind') == 'VarDecl' and tu.kids(tu.kids(st)[0]):
            v = tu.kids(st)[0]
            init = tu.kids(v)[-1]
            if addr_of_param(tu, init, f) and 'const' in v.get('type', {}).get('qualType', '').split('*')[-1]:
                target.add(v['id'])
                continue
            if stage == 0 and is_list_end(tu, init, F, al, ('begin',)):
                keep = v['id']
                stage = 1
                continue
            return False
        if k == 'ForStmt' and stage == 1:
            ks = tu.kids(st)
            if len(ks) != 4 or ks[0].get('kind') != 'DeclStmt' or len(tu.kids(ks[0])) != 1:
                return False
            v = tu.kids(ks[0])[0]
            if v.get('kind') != 'VarDecl' or not tu.kids(v) or not is_list_end(tu, tu.kids(v)[-1], F, al, ('begin',)):
                return False
            it = v['id']
            c = opcall(ks[1], 'operator!=')
            if c is None or len(c) != 2 or not ((is_var(c[0], it) and is_list_end(tu, c[1], F, al, ('end',))) or
                                                (is_var(c[1], it) and is_list_end(tu, c[0], F, al, ('end',)))):
                return False
            inc = opcall(ks[2], 'operator++')
            if inc is None or not inc or not is_var(inc[0], it):
                return False
            ifs = single(ks[3])
            if ifs is None or ifs.get('kind') != 'IfStmt' or len(tu.kids(ifs)) != 2:
                return False
            cond = tu.strip(tu.kids(ifs)[0], casts=True)
            if cond.get('kind') != 'BinaryOperator' or cond.get('opcode') != '!=':
                return False
            a, b = tu.kids(cond)
            if not ((deref_of(a, it) and is_target(b)) or (deref_of(b, it) and is_target(a))):
                return False
            then = tu.strip(tu.kids(ifs)[1])
            stmts = [tu.strip(x) for x in tu.kids(then)] if then.get('kind') == 'CompoundStmt' else [then]

            def is_copy(x, post):
                x = tu.strip(x, casts=True)
                if x is None or x.get('kind') != 'BinaryOperator' or x.get('opcode') != '=':
                    return False
                l, r = tu.kids(x)
                if not deref_of(r, it):
                    return False
                if post:
                    a = opcall(l, 'operator*')
                    if a is None or len(a) != 1:
                        return False
                    pi = opcall(a[0], 'operator++')
                    return pi is not None and len(pi) == 2 and is_var(pi[0], keep)       # keep++ (postfix: dummy int argument)
                return deref_of(l, keep)
            if len(stmts) == 1 and is_copy(stmts[0], True):
                pass
            elif len(stmts) == 2 and is_copy(stmts[0], False):
                pi = opcall(stmts[1], 'operator++')
                if pi is None or not pi or not is_var(pi[0], keep):
                    return False
            else:
                return False
            stage = 2
            continue
        if k == 'CXXMemberCallExpr' and stage == 2:
            sd, obj, args = tu.call_parts(st)
            if sd.get('q', '').split('::')[-1] != 'erase' or obj is None or not list_expr(tu, obj, F, al) or len(args) != 2:
                return False
            if not is_var(unwrap_iter(tu, args[0]), keep) or not is_list_end(tu, args[1], F, al, ('end', 'cend')):
                return False
            stage = 3
            continue
        return False
    return stage == 3 and F.observers['ct'].startswith('std::vector<')


def end_pos(tu, e, F, al):
    """k if e designates the position end()-k of the observer list (k = 0 for end()), else None"""
    if is_list_end(tu, e, F, al, ('end', 'cend')):
        return 0
    x = unwrap_iter(tu, e)
    if x is None:
        return None
    if x.get('kind') == 'CXXOperatorCallExpr' and tu.sd(x).get('q', '').split('::')[-1] == 'operator-':
        a = tu.kids(x)[1:]
        if len(a) == 2 and is_list_end(tu, a[0], F, al, ('end', 'cend')):
            cv = tu.sd(tu.strip(a[1])).get('cv') or tu.sd(a[1]).get('cv')
            if cv is not None and int(cv) >= 0:
                return int(cv)
    if x.get('kind') == 'CallExpr' and tu.sd(x).get('q') == 'std::prev':
        s_, o_, a = tu.call_parts(x)
        if len(a) >= 1 and is_list_end(tu, a[0], F, al, ('end', 'cend')):
            if len(a) == 1 or tu.strip(a[1]).get('kind') == 'CXXDefaultArgExpr':
                return 1
            cv = tu.sd(tu.strip(a[1])).get('cv')
            return int(cv) if cv is not None and int(cv) >= 0 else None
    return None


def remove_by_paths(tu, f, F, al):
    """removeObserver with fast paths, decided path by path with a small list model.  Accepted per path:
      * nothing removed when the list is empty (condition L.empty());
      * L.pop_back() under the condition L.back() == &arg (the observer is the last entry; registered once, R-C19-1);
      * L.erase(std::remove(L.begin(), L.end()-k, &arg), L.end()-k): the range searched and the range truncated end at the
        same position (k = 0, or k = 1 on a path where L.back() != &arg was established).
    std::remove(first, last, v) compacts [first, last) and returns the new end of *that* range; erase(new_end, e) drops
    everything up to e: with last != e the elements of [last, e) are dropped without having been compared (last < e) or a
    stale tail survives (last > e): recognised-wrong.  Returns ('ok', text) / ('violation', kind, text) / None"""
    g = tu.cfg(f)
    if g is None or g.back_edges():
        return None

    def cond_kind(c):
        """('empty', pol) / ('back-is-arg', pol): what the condition says when it evaluates to true"""
        c = tu.strip(c, casts=True)
        pol = True
        while c is not None and c.get('kind') == 'UnaryOperator' and c.get('opcode') == '!':
            pol = not pol
            c = tu.strip(tu.kids(c)[0], casts=True)
        if c is None:
            return None
        if c.get('kind') == 'CXXMemberCallExpr':
            sd, obj, a = tu.call_parts(c)
            if sd.get('q', '').split('::')[-1] == 'empty' and obj is not None and list_expr(tu, obj, F, al):
                return ('empty', pol)
        if c.get('kind') == 'CXXOperatorCallExpr' and tu.sd(c).get('q', '').split('::')[-1] in ('operator!=', 'operator=='):
            a_ = tu.kids(c)[1:]
            if len(a_) == 2:
                for x, y in ((a_[0], a_[1]), (a_[1], a_[0])):
                    if tu.ref_decl(unwrap_iter(tu, x)) in finds and is_list_end(tu, y, F, al, ('end', 'cend')):
                        return ('found', pol == tu.sd(c)['q'].endswith('!='))
        if c.get('kind') == 'BinaryOperator' and c.get('opcode') in ('==', '!='):
            l, r = tu.kids(c)
            for x, y in ((l, r), (r, l)):
                x0 = tu.strip(x, casts=True)
                if x0 is not None and x0.get('kind') == 'CXXMemberCallExpr':
                    sd, obj, a = tu.call_parts(x0)
                    if sd.get('q', '').split('::')[-1] == 'back' and obj is not None and list_expr(tu, obj, F, al) and \
                            (addr_of_param(tu, y, f) or is_target_local(y)):
                        return ('back-is-arg', pol == (c['opcode'] == '=='))
        return None

    # iterator locals holding std::find(L.begin(), L.end(), &arg)
    finds = set()
    for x in tu.walk(tu.body(f)):
        if x.get('kind') == 'VarDecl' and tu.kids(x):
            fi = unwrap_iter(tu, tu.kids(x)[-1])
            if fi is not None and fi.get('kind') == 'CallExpr' and tu.sd(fi).get('q') == 'std::find':
                s_, o_, fa = tu.call_parts(fi)
                if len(fa) == 3 and is_list_end(tu, fa[0], F, al, ('begin', 'cbegin')) and is_list_end(tu, fa[1], F, al, ('end', 'cend')) \
                        and addr_of_param(tu, fa[2], f):
                    finds.add(x['id'])
    targets = set()
    for x in tu.walk(tu.body(f)):
        if x.get('kind') == 'VarDecl' and tu.kids(x) and addr_of_param(tu, tu.kids(x)[-1], f) and \
                'const' in x.get('type', {}).get('qualType', '').split('*')[-1]:
            targets.add(x['id'])

    def is_target_local(e):
        return tu.ref_decl(e) in targets

    verdicts = []
    for path in cfg_paths(g):
        facts = {}
        muts, removes = [], []
        for blk, taken in path:
            for e in blk.el:
                if e[0] != 'S':
                    continue
                x = tu.node(e[1])
                if x is None:
                    continue
                if x.get('kind') == 'CallExpr' and tu.sd(x).get('q') == 'std::remove':
                    removes.append(x)
                if x.get('kind') in ('CXXMemberCallExpr', 'CXXOperatorCallExpr'):
                    sd, obj, args = tu.call_parts(x)
                    nm = sd.get('q', '').split('::')[-1]
                    if obj is not None and list_expr(tu, obj, F, al) and nm not in ('begin', 'end', 'cbegin', 'cend', 'size', 'empty', 'back', 'front'):
                        muts.append((nm, x, args))
            if taken is not None and blk.cond is not None and len(blk.succ) == 2:
                ck = cond_kind(tu.node(blk.cond))
                if ck is not None:
                    facts[ck[0]] = (ck[1] == (taken == 0))
        names = [m[0] for m in muts]
        if not muts and not removes and facts.get('found') is False:
            verdicts.append(('ok', 'std::find did not find the observer: nothing to remove'))
        elif names == ['erase'] and not removes and len(muts[0][2]) == 1 and tu.ref_decl(unwrap_iter(tu, muts[0][2][0])) in finds \
                and facts.get('found') is True:
            verdicts.append(('ok', 'erase(find(begin, end, &arg)) when found (an observer is listed once)'))
        elif not muts and not removes:
            verdicts.append(('ok', 'empty list: nothing to remove') if facts.get('empty') is True else None)
        elif names == ['pop_back'] and not removes:
            verdicts.append(('ok', 'pop_back when back() == &arg') if facts.get('back-is-arg') is True else None)
        elif names == ['erase'] and len(removes) == 1:
            s_, o_, ra = tu.call_parts(removes[0])
            ea = muts[0][2]
            if len(ra) != 3 or not is_list_end(tu, ra[0], F, al, ('begin', 'cbegin')) or not (addr_of_param(tu, ra[2], f) or is_target_local(ra[2])):
                verdicts.append(None)
                continue
            first = unwrap_iter(tu, ea[0]) if ea else None
            if first is None or first['id'] != removes[0]['id']:
                verdicts.append(None)
                continue
            if len(ea) == 1:
                verdicts.append(None)       # single-iterator erase: handled (rejected) by the normal-form rule
                continue
            k_search, k_erase = end_pos(tu, ra[1], F, al), end_pos(tu, ea[1], F, al)
            if k_search is None or k_erase is None:
                verdicts.append(None)
            elif k_search != k_erase:
                pos = lambda k: 'end()' if k == 0 else 'end()-%d' % k
                verdicts.append(('violation', 'range-mismatch',
                                 'std::remove searches [begin(), %s) but erase truncates the list up to %s: %s' % (
                                     pos(k_search), pos(k_erase),
                                     'the last %d element(s) are erased without having been compared with the observer to remove - a live, '
                                     'still registered observer is dropped from the list, ~Observable will not clear its observee and it is '
                                     'left with a dangling pointer' % (k_search - k_erase) if k_search > k_erase else
                                     'a stale tail of moved-from entries (possibly the removed observer) stays in the list')))
            elif k_search == 0 or (k_search == 1 and facts.get('back-is-arg') is False):
                verdicts.append(('ok', 'erase(remove(begin, %s, &arg), same end)' % ('end()' if k_search == 0 else 'end()-1, back() != &arg')))
            else:
                verdicts.append(None)
        else:
            verdicts.append(None)
    bad = [v for v in verdicts if v and v[0] == 'violation']
    if bad:
        return bad[0]
    if verdicts and all(v and v[0] == 'ok' for v in verdicts):
        return ('ok', '; '.join(sorted({v[1] for v in verdicts})))
    return None


def swap_with_last_backref(tu, f, F, al):
    """removal by moving the last entry into the hole:  L[i] = L.back(); L.pop_back();  If the function then maintains a
    back-reference of the moved entry (a member of the Observer written with the hole index) it must write it through the
    entry that was moved - L[i], or L.back() evaluated BEFORE pop_back().  L.back() evaluated AFTER pop_back() designates the
    new last entry, a different element: recognised-wrong.  Returns the message, or None if the idiom is not present"""
    g = tu.cfg(f)
    if g is None:
        return None

    def list_call(e, names):
        e = tu.strip(e, casts=True)
        if e is None or e.get('kind') not in ('CXXMemberCallExpr', 'CXXOperatorCallExpr'):
            return None
        sd, obj, args = tu.call_parts(e)
        if sd.get('q', '').split('::')[-1] in names and obj is not None and list_expr(tu, obj, F, al):
            return args
        return None
    move = pop = None
    for b, i, x in g.stmts():
        if x.get('kind') == 'BinaryOperator' and x.get('opcode') == '=':
            l, r = tu.kids(x)
            if list_call(l, ('operator[]', 'at')) is not None and list_call(r, ('back',)) is not None:
                move = x
        if x.get('kind') == 'CXXMemberCallExpr' and list_call(x, ('pop_back',)) is not None and move is not None and pop is None:
            if g.dominates(g.where(move['id']), g.where(x['id'])):
                pop = x
    if move is None or pop is None:
        return None
    hole = tu.show(list_call(tu.kids(move)[0], ('operator[]', 'at'))[0])
    for b, i, x in g.stmts():
        if x.get('kind') == 'BinaryOperator' and x.get('opcode') == '=':
            lhs = tu.strip(tu.kids(x)[0], casts=True)
            if lhs is None or lhs.get('kind') != 'MemberExpr' or tu.sd(lhs).get('rec') != OBSR or not tu.kids(lhs):
                continue
            base = tu.strip(tu.kids(lhs)[0], casts=True)
            while base is not None and base.get('kind') == 'UnaryOperator' and base.get('opcode') == '*':
                base = tu.strip(tu.kids(base)[0], casts=True)
            if list_call(base, ('back',)) is not None and g.where(x['id']) and g.dominates(g.where(pop['id']), g.where(x['id'])):
                return ('removeObserver moves the last entry into the hole (`%s`) and pops the back, then updates `%s` through back() evaluated '
                        'AFTER pop_back(): that is the new last entry, not the entry that was moved into slot %s - the moved observer keeps a '
                        'stale back-reference (and an unrelated one gets a wrong one), later removals of those observers miss their entry, '
                        'they stay listed after their destruction and ~Observable writes through dangling Observer*'
                        % (tu.show(move), tu.show(lhs), hole))
    return None


def own_member_calls(tu, f):
    """calls to other members of Observable/Observer inside f (helpers the normal-form rules do not look into)"""
    out = []
    for x in tu.walk(tu.body(f)):
        if x.get('id') and tu.sd(x).get('k') == 'call' and tu.sd(x).get('rec') in (OBSV, OBSR):
            out.append(x)
    return out


def follow_forwarding(tu, f):
    """a member whose whole body is one call of another Observable member on *this with its own parameters forwarded in order
    is represented by that member (e.g. removeObserver -> a private unlink(Observer&))"""
    for _ in range(3):
        body = tu.body(f)
        ks = [tu.strip(x) for x in tu.kids(body)] if body is not None and body.get('kind') == 'CompoundStmt' else []
        if len(ks) == 1 and ks[0].get('kind') == 'ReturnStmt' and tu.kids(ks[0]):
            ks = [tu.strip(tu.kids(ks[0])[0])]
        if len(ks) != 1 or ks[0].get('kind') != 'CXXMemberCallExpr':
            return f
        sd, obj, args = tu.call_parts(ks[0])
        callee = tu.callee_fn(ks[0])
        if callee is None or callee.get('rec') != OBSV or tu.cfg(callee) is None or (obj is not None and not tu.is_this(obj)):
            return f
        if [tu.ref_decl(a) for a in args] != [p['id'] for p in f['params']] or len(callee['params']) != len(args):
            return f
        f = callee
    return f



def check_observable(ctx, tu, F, analysed):
    R1 = 'R-C19-1'
    n = 0
    byq = {}
    for f in tu.functions.values():
        if f.get('rec') == OBSV and not f['dep'] and tu.cfg(f) is not None:
            byq.setdefault('dtor' if f.get('dtor') else f['q'], []).append(f)
    for need in (REG, UNREG, NOTIFY, 'dtor'):
        if need in (REG, UNREG) and not byq.get(need):
            continue          # the registration primitives may live in Observer (a friend): then the interpreter models them
        if len(byq.get(need, [])) != 1:
            ctx.broken('R-C19-1: expected exactly one body of Observable %s, found %d' % (need, len(byq.get(need, []))))
            return n
    if byq.get(REG):
        # ---- registerObserver
        f0 = byq[REG][0]
        analysed.add(f0['id'])
        f = follow_forwarding(tu, f0)
        analysed.add(f['id'])
        n += 1
        inst, file = fn_name(f0), tu.fn_file(f0)
        al = list_aliases(tu, f, F)
        calls = list_calls(tu, f, F, al)
        appends = [c for c in calls if c[0] in ('push_back', 'emplace_back') and len(c[2]) == 1 and addr_of_param(tu, c[2][0], f)]
        g = tu.cfg(f)
        if not calls and own_member_calls(tu, f):
            ctx.undecided(R1, inst, 'registerObserver delegates to other members in a form the analysis does not follow', tu.fn_loc(f))
        elif not calls:
            ctx.violation(R1, inst, 'registerObserver does not add the observer to the list: ~Observable cannot orphan it and the observer '
                          'keeps a dangling observee pointer', tu.fn_loc(f), key='%s|%s|%s|not-registered' % (R1, file, inst))
        elif len(appends) == 1 and len([c for c in calls if c[0] not in ('size', 'empty', 'begin', 'end', 'cbegin', 'cend', 'back', 'front', 'capacity')]) == 1 \
                and on_every_path(g, appends[0][1]['id']):
            ctx.ok(R1, inst, 'appends the address of its argument exactly once on every path', tu.fn_loc(f))
        else:
            ctx.undecided(R1, inst, 'list operations %s are not the recognised form push_back(&arg) on every path' % [c[0] for c in calls], tu.fn_loc(f))
    else:
        n += 1
        ctx.ok(R1, 'Observable::registerObserver (absent)', 'no registerObserver member: Observer members append themselves to the list directly; '
               'each such list operation is modelled by the registration interpreter (push_back(this) = registration)', HDR_O, nontrivial=False)
    if byq.get(UNREG):
        # ---- removeObserver
        f0 = byq[UNREG][0]
        analysed.add(f0['id'])
        f = follow_forwarding(tu, f0)
        analysed.add(f['id'])
        n += 1
        inst, file = fn_name(f0), tu.fn_file(f0)
        al = list_aliases(tu, f, F)
        calls = list_calls(tu, f, F, al)
        erases = [c for c in calls if c[0] == 'erase']
        removes = [x for x in tu.walk(tu.body(f)) if x.get('kind') == 'CallExpr' and tu.sd(x).get('q') == 'std::remove']
        good_remove = None
        for r in removes:
            s_, o_, a = tu.call_parts(r)
            if len(a) == 3 and is_list_end(tu, a[0], F, al, ('begin', 'cbegin')) and is_list_end(tu, a[1], F, al, ('end', 'cend')) \
                    and addr_of_param(tu, a[2], f):
                good_remove = r
        mutating = [c for c in calls if c[0] not in ('begin', 'end', 'cbegin', 'cend', 'size', 'empty')]
        bypath = remove_by_paths(tu, f, F, al)
        # a binary search (lower_bound / upper_bound / equal_range / binary_search) needs a list sorted by the searched order; the list
        # is in registration order unless registerObserver keeps it sorted
        bsearch = [x for x in tu.walk(tu.body(f)) if x.get('kind') == 'CallExpr' and tu.sd(x).get('q') in (
            'std::lower_bound', 'std::upper_bound', 'std::equal_range', 'std::binary_search') and tu.kids(x)[1:] and
            is_list_end(tu, tu.kids(x)[1], F, al, ('begin', 'cbegin'))]
        reg_appends = False
        if byq.get(REG):
            fr_ = follow_forwarding(tu, byq[REG][0])
            rc_ = list_calls(tu, fr_, F, list_aliases(tu, fr_, F))
            reg_appends = bool(rc_) and all(c[0] in ('push_back', 'emplace_back') for c in rc_) and not any(
                y.get('kind') == 'CallExpr' and tu.sd(y).get('q') in ('std::sort', 'std::stable_sort', 'std::inplace_merge')
                for y in tu.walk(tu.body(fr_)))
        moved = swap_with_last_backref(tu, f, F, al)
        if moved is not None:
            ctx.violation(R1, inst, moved, tu.fn_loc(f), key='%s|%s|%s|backref-on-wrong-element' % (R1, file, inst))
        elif bsearch and reg_appends:
            ctx.violation(R1, inst, 'removeObserver locates the entry with %s, a binary search that requires the list to be sorted by address, '
                          'but registerObserver appends with push_back (the list is in registration order): the search can miss an observer '
                          'that is in the list, it stays registered after its destruction and ~Observable writes through the dangling '
                          'Observer*' % tu.sd(bsearch[0]).get('q'), tu.loc(bsearch[0]),
                          key='%s|%s|%s|binary-search-unsorted' % (R1, file, inst))
        elif bsearch:
            ctx.undecided(R1, inst, 'removeObserver uses a binary search; whether the list is kept sorted is not modelled', tu.fn_loc(f))
        elif bypath is not None and bypath[0] == 'violation':
            ctx.violation(R1, inst, bypath[2], tu.fn_loc(f), key='%s|%s|%s|%s' % (R1, file, inst, bypath[1]))
        elif bypath is not None and len(cfg_paths(tu.cfg(f))) > 1:
            ctx.ok(R1, inst, 'every path removes exactly the given observer: ' + bypath[1], tu.fn_loc(f))
        elif compaction_remove(tu, f, F, al):
            ctx.ok(R1, inst, 'hand-written stable compaction (the definition of std::remove) followed by erase(keep, end) on the observer list',
                   tu.fn_loc(f))
        elif not mutating and not removes and own_member_calls(tu, f):
            ctx.undecided(R1, inst, 'removeObserver delegates to other members in a form the analysis does not follow', tu.fn_loc(f))
        elif not mutating and not removes:
            ctx.violation(R1, inst, 'removeObserver does not remove the observer from the list: ~Observable later writes through a dangling '
                          'Observer*', tu.fn_loc(f), key='%s|%s|%s|not-removed' % (R1, file, inst))
        elif good_remove is not None and not erases:
            ctx.violation(R1, inst, 'std::remove without erase: the list keeps its length and a stale Observer* stays in its tail',
                          tu.fn_loc(f), key='%s|%s|%s|remove-without-erase' % (R1, file, inst))
        elif good_remove is not None and len(erases) == 1 and len(mutating) == 1:
            ea = erases[0][2]
            first = unwrap_iter(tu, ea[0]) if ea else None
            if len(ea) == 2 and first is not None and first['id'] == good_remove['id'] and is_list_end(tu, ea[1], F, al, ('end', 'cend')) \
                    and on_every_path(tu.cfg(f), erases[0][1]['id']):
                ctx.ok(R1, inst, 'erase(remove(begin, end, &arg), end) on the observer list', tu.fn_loc(f))
            elif len(ea) == 1 and first is not None and first['id'] == good_remove['id']:
                ctx.violation(R1, inst, 'erase(remove(...)) with a single iterator erases one element only, and erase(end()) when the observer '
                              'is not in the list is undefined', tu.fn_loc(f), key='%s|%s|%s|erase-one' % (R1, file, inst))
            else:
                ctx.undecided(R1, inst, 'erase/remove combination not in the recognised form', tu.fn_loc(f))
        else:
            ctx.undecided(R1, inst, 'list operations %s are not the recognised erase-remove idiom' % [c[0] for c in calls], tu.fn_loc(f))
    else:
        n += 1
        ctx.ok(R1, 'Observable::removeObserver (absent)', 'no removeObserver member: Observer members remove themselves from the list directly; '
               'each such list operation is modelled by the registration interpreter (erase-remove = removal, also through a free helper)',
               HDR_O, nontrivial=False)
    # ---- ~Observable
    f0 = byq['dtor'][0]
    analysed.add(f0['id'])
    f = follow_forwarding(tu, f0)
    analysed.add(f['id'])
    ORPHAN['ctx'] |= {f0['q'], f['q']}
    n += 1
    inst, file = fn_name(f0), tu.fn_file(f0)
    g = tu.cfg(f)
    al = list_aliases(tu, f, F)
    body = tu.body(f)
    refs_list = any(list_expr(tu, x, F, al) for x in tu.walk(body) if x.get('kind') in ('MemberExpr', 'DeclRefExpr'))
    loops = [x for x in tu.walk(body) if x.get('kind') == 'CXXForRangeStmt']
    verdict = None
    if not refs_list and own_member_calls(tu, f):
        verdict = ('undecided', '~Observable delegates to other members in a form the analysis does not follow')
    elif not refs_list:
        verdict = ('violation', 'no-orphaning', '~Observable does not visit its observers: every registered observer keeps a dangling '
                   'observee pointer (use-after-free in wasNotified / ~Observer)')
    elif len(loops) == 1:
        verdict = range_for_orphans(tu, f, g, loops[0], F, al)
    elif not loops:
        verdict = for_each_orphans(tu, f, F, al, analysed) or drain_orphans(tu, f, F, al)
    if verdict is None:
        ctx.undecided(R1, inst, 'destructor visits the observer list in a form the analysis does not recognise (expected a range-for '
                      'assigning null to the observee of every element)', tu.fn_loc(f))
    elif verdict[0] == 'ok':
        ctx.ok(R1, inst, verdict[1], tu.fn_loc(f))
    elif verdict[0] == 'undecided':
        ctx.undecided(R1, inst, verdict[1], tu.fn_loc(f))
    else:
        ctx.violation(R1, inst, verdict[2], tu.fn_loc(f), key='%s|%s|%s|%s' % (R1, file, inst, verdict[1]))
    # ---- notifyObservers
    f0 = byq[NOTIFY][0]
    analysed.add(f0['id'])
    f = follow_forwarding(tu, f0)
    analysed.add(f['id'])
    n += 1
    inst, file = fn_name(f0), tu.fn_file(f0)
    g = tu.cfg(f)
    renews = []
    for b, i, x in g.stmts():
        if x.get('kind') == 'CXXMemberCallExpr' and tu.sd(x).get('q') == RENEW:
            s_, obj, a_ = tu.call_parts(x)
            o = tu.strip(obj, casts=True) if obj is not None else None
            if o is not None and tu.sd(o).get('d') == F.last_notified['id'] and (not tu.kids(o) or tu.is_this(tu.kids(o)[0])):
                renews.append(x)
    if not renews and own_member_calls(tu, f):
        ctx.undecided(R1, inst, 'notifyObservers delegates to other members in a form the analysis does not follow', tu.fn_loc(f))
    elif not renews:
        ctx.violation(R1, inst, 'notifyObservers does not renew lastNotified: observers never see the notification', tu.fn_loc(f),
                      key='%s|%s|%s|no-renew' % (R1, file, inst))
    elif all(on_every_path(g, r['id']) for r in renews) and not g.back_edges():
        ctx.ok(R1, inst, 'renews lastNotified on every path', tu.fn_loc(f))
    elif g.back_edges():
        ctx.undecided(R1, inst, 'loop in notifyObservers', tu.fn_loc(f))
    else:
        # paths that skip the renew: acceptable only when there is provably nobody to notify (observer list empty)
        rids = {r['id'] for r in renews}
        skipping = []
        for path in cfg_paths(g):
            if any(e[0] == 'S' and e[1] in rids for blk, taken in path for e in blk.el):
                continue
            conds = []
            for blk, taken in path:
                if taken is not None and blk.cond is not None and len(blk.succ) == 2:
                    conds.append((tu.node(blk.cond), taken == 0))
            justified = False
            for c, truth in conds:
                c0 = tu.strip(c, casts=True)
                neg = False
                while c0 is not None and c0.get('kind') == 'UnaryOperator' and c0.get('opcode') == '!':
                    neg = not neg
                    c0 = tu.strip(tu.kids(c0)[0], casts=True)
                if c0 is not None and c0.get('kind') == 'CXXMemberCallExpr' and tu.sd(c0).get('q', '').split('::')[-1] == 'empty':
                    s_, obj, a_ = tu.call_parts(c0)
                    o = tu.strip(obj, casts=True) if obj is not None else None
                    if o is not None and tu.sd(o).get('d') == F.observers['id'] and (truth != neg):
                        justified = True
            if not justified:
                skipping.append(' && '.join(('' if t else '!') + '(' + tu.show(c) + ')' for c, t in conds) or 'unconditionally')
        if skipping:
            ctx.violation(R1, inst, 'notifyObservers can return without renewing lastNotified (when %s): an observer whose last poll or '
                          'creation is newer than the previous notification does not see this one' % skipping[0], tu.fn_loc(f),
                          key='%s|%s|%s|renew-skipped' % (R1, file, inst),
                          path=['%s: path condition %s reaches the exit without %s.renew()' % (inst, sk, F.last_notified['name']) for sk in skipping[:4]])
        else:
            ctx.ok(R1, inst, 'renews lastNotified on every path except when the observer list is empty', tu.fn_loc(f))
    return n


def check_stamp_writers(ctx, tu, F, notify_fns):
    """R-C19-6: the notification stamp of an existing Observable changes only through renew() in notifyObservers; every other
    member may at most read it.  (Constructors initialise the stamp of a new object, which has no observers yet.)"""
    R6 = 'R-C19-6'
    ctx.describe(R6, 'lastNotified of an existing Observable is written only by renew() in notifyObservers (constructors may initialise it): '
                     'wasNotified() compares against the time of the last notification of *its own* observable')
    n = 0
    for f in sorted(tu.functions.values(), key=lambda x: (x['f'], x['l'])):
        if f['dep'] or tu.body(f) is None or tu.cfg(f) is None:
            continue
        file = tu.fn_file(f)
        if 'drivers/' in file or file.startswith('verif:'):
            continue
        writes, renews, reads = [], [], 0
        for x in tu.walk(tu.body(f)):
            if not x.get('id'):
                continue
            if x.get('kind') == 'MemberExpr' and tu.sd(x).get('d') == F.last_notified['id']:
                reads += 1
            if x.get('kind') in CALLS and tu.sd(x).get('rec') == TS:
                sd, obj, args = tu.call_parts(x)
                o = tu.strip(obj, casts=True) if obj is not None else None
                if o is None or o.get('kind') != 'MemberExpr' or tu.sd(o).get('d') != F.last_notified['id']:
                    continue
                name = sd.get('q', '').split('::')[-1]
                if name == 'operator=':
                    writes.append(x)
                elif sd.get('q') == RENEW:
                    renews.append(x)
        if not reads:
            continue
        n += 1
        inst = fn_name(f)
        if f.get('ctor'):
            ctx.ok(R6, inst, 'constructor: initialises the stamp of a new observable', tu.fn_loc(f), nontrivial=False)
        elif writes:
            ctx.violation(R6, inst, '%s assigns to lastNotified (%s): afterwards the observers of this observable compare against a stamp that is '
                          'not the time of its own last notification - an observer reports a notification that never happened, or a pending '
                          'notification disappears' % (f['q'].split('::')[-1], tu.show(writes[0])), tu.loc(writes[0]),
                          key='%s|%s|%s|notification-stamp-overwritten' % (R6, file, inst))
        elif renews and f['id'] not in notify_fns:
            ctx.undecided(R6, inst, 'renews lastNotified outside notifyObservers', tu.loc(renews[0]))
        else:
            ctx.ok(R6, inst, 'reads the notification stamp only' if not renews else 'renews the stamp (notification)', tu.fn_loc(f))
    return n


def on_every_path(g, stmt_id):
    pos = g.where(stmt_id)
    if pos is None:
        return False
    dom = g.postdominators()
    return pos[0] in dom.get(g.entry, ()) or pos[0] == g.entry


def swapped_out_local(tu, f, g, F, al, e, loop):
    """is e a local container of the list's type that starts empty and received the whole observer list through exactly one
    swap with it (local.swap(list) / list.swap(local) / std::swap(list, local)) executed on every path before the loop, with no
    other use of the local outside the loop header?"""
    vid = tu.ref_decl(e)
    vd = tu.node(vid) if vid else None
    if vd is None or vd.get('kind') != 'VarDecl' or tu.enclosing_fn(vd) is None:
        return False
    ini = init_exprs(tu, vd)
    if ini and not (tu.strip(ini[-1]).get('kind') == 'CXXConstructExpr' and not tu.kids(tu.strip(ini[-1]))):
        return False
    swaps = []
    uses = 0
    loop_ids = {y.get('id') for y in tu.walk(loop)}
    for x in tu.walk(tu.body(f)):
        if x.get('kind') == 'DeclRefExpr' and x.get('referencedDecl', {}).get('id') == vid and x.get('id') not in loop_ids:
            uses += 1
        if x.get('kind') == 'CXXMemberCallExpr' and tu.sd(x).get('q', '').split('::')[-1] == 'swap':
            s_, obj, a = tu.call_parts(x)
            if obj is not None and len(a) == 1 and ((tu.ref_decl(obj) == vid and list_expr(tu, a[0], F, al)) or
                                                    (list_expr(tu, obj, F, al) and tu.ref_decl(a[0]) == vid)):
                swaps.append(x)
        if x.get('kind') == 'CallExpr' and tu.sd(x).get('q') == 'std::swap':
            s_, o_, a = tu.call_parts(x)
            if len(a) == 2 and ((tu.ref_decl(a[0]) == vid and list_expr(tu, a[1], F, al)) or (tu.ref_decl(a[1]) == vid and list_expr(tu, a[0], F, al))):
                swaps.append(x)
    if len(swaps) != 1 or uses != 1 or not on_every_path(g, swaps[0]['id']):
        return False
    lp = None
    for b, i, y in g.stmts():
        if y.get('id') in loop_ids and lp is None:
            lp = (b.id, i)
    sp = g.where(swaps[0]['id'])
    return lp is not None and sp is not None and g.dominates(sp, lp)


def null_slot_break(tu, body, loopvar):
    """the condition of `if (<element is null>) break;` inside the loop body, else None"""
    for x in tu.walk(body):
        if x.get('kind') == 'IfStmt' and len(tu.kids(x)) == 2:
            c, then = tu.kids(x)
            t_ = tu.strip(then)
            while t_ is not None and t_.get('kind') == 'CompoundStmt' and len(tu.kids(t_)) == 1:
                t_ = tu.strip(tu.kids(t_)[0])
            if t_ is None or t_.get('kind') != 'BreakStmt':
                continue
            c0, neg = tu.strip(c, casts=True), False
            while c0 is not None and c0.get('kind') == 'UnaryOperator' and c0.get('opcode') == '!':
                neg = not neg
                c0 = tu.strip(tu.kids(c0)[0], casts=True)
            if c0 is not None and neg and tu.ref_decl(c0) == loopvar['id']:
                return c
            if c0 is not None and c0.get('kind') == 'BinaryOperator' and c0.get('opcode') == '==' and not neg:
                l, r = tu.kids(c0)
                if (tu.ref_decl(l) == loopvar['id'] and null_literal(tu, r)) or (tu.ref_decl(r) == loopvar['id'] and null_literal(tu, l)):
                    return c
    return None


def slots_nulled_in_place(tu, F):
    """name of an Observable member that assigns nullptr through an iterator obtained from std::find on the observer list
    (frees a slot in the middle of the list instead of erasing it), else None"""
    for f in tu.functions.values():
        if f.get('rec') != OBSV or f['dep'] or tu.body(f) is None:
            continue
        al = list_aliases(tu, f, F)
        finds = set()
        for x in tu.walk(tu.body(f)):
            if x.get('kind') == 'VarDecl' and tu.kids(x):
                fi = unwrap_iter(tu, tu.kids(x)[-1])
                if fi is not None and fi.get('kind') == 'CallExpr' and tu.sd(fi).get('q') == 'std::find':
                    s_, o_, fa = tu.call_parts(fi)
                    if len(fa) == 3 and is_list_end(tu, fa[0], F, al, ('begin', 'cbegin')) and not null_literal(tu, fa[2]):
                        finds.add(x['id'])
        for x in tu.walk(tu.body(f)):
            if x.get('kind') == 'BinaryOperator' and x.get('opcode') == '=' and null_literal(tu, tu.kids(x)[1]):
                lhs = tu.strip(tu.kids(x)[0], casts=True)
                if lhs is not None and lhs.get('kind') == 'CXXOperatorCallExpr' and tu.sd(lhs).get('q', '').split('::')[-1] == 'operator*' \
                        and tu.kids(lhs)[1:] and tu.ref_decl(tu.kids(lhs)[1]) in finds:
                    return fn_name(f).split(' ')[0]
    return None


def check_front_pop_back(ctx, tu):
    """R-C19-1 idiom rule that needs no model of the members: an Observable member that takes an entry from the FRONT of a
    std::vector<Observer*> member (front(), [0], *begin()) and then removes the BACK (pop_back()) on the same path, without
    erasing the front: for a list of more than one entry the taken entry stays listed and the last one is dropped"""
    R1 = 'R-C19-1'
    for f in sorted(tu.functions.values(), key=lambda x: (x['f'], x['l'])):
        if f.get('rec') != OBSV or f['dep'] or tu.cfg(f) is None:
            continue
        g = tu.cfg(f)

        def on_list(e):
            e = tu.strip(e, casts=True)
            if e is None:
                return False
            if e.get('kind') == 'DeclRefExpr':        # local reference to a member list
                vd = tu.node(e.get('referencedDecl', {}).get('id'))
                return vd is not None and vd.get('kind') == 'VarDecl' and '&' in vd.get('type', {}).get('qualType', '') and \
                    init_exprs(tu, vd) and on_list(init_exprs(tu, vd)[-1])
            return e.get('kind') == 'MemberExpr' and re.match(r'std::vector<rkcommon::utility::Observer \*', tu.sd(e).get('ct') or '') is not None \
                and tu.sd(e).get('rec') == OBSV
        takes, pops, erases = [], [], []
        for b, i, x in g.stmts():
            if x.get('kind') in ('CXXMemberCallExpr', 'CXXOperatorCallExpr'):
                sd, obj, args = tu.call_parts(x)
                nm = sd.get('q', '').split('::')[-1]
                if obj is None or not on_list(obj):
                    continue
                if nm == 'front' or (nm in ('operator[]', 'at') and args and tu.sd(tu.strip(args[0])).get('cv') == '0'):
                    par = tu.par(x)
                    hops = 0
                    while par is not None and par.get('kind') in ('ImplicitCastExpr', 'ParenExpr') and hops < 4:
                        par = tu.par(par)
                        hops += 1
                    if par is not None and ((par.get('kind') == 'BinaryOperator' and par.get('opcode') == '=' and
                                             tu.strip(tu.kids(par)[1], casts=True) is not None and tu.strip(tu.kids(par)[1], casts=True)['id'] == x['id'])
                                            or par.get('kind') == 'VarDecl'):
                        takes.append(x)
                elif nm == 'pop_back':
                    pops.append(x)
                elif nm in ('erase', 'pop_front', 'clear'):
                    erases.append(x)
        for tk in takes:
            for pp in pops:
                between = [e_ for e_ in erases if g.where(e_['id']) and g.dominates(g.where(tk['id']), g.where(e_['id']))
                           and g.dominates(g.where(e_['id']), g.where(pp['id']))]
                if g.where(tk['id']) and g.where(pp['id']) and g.dominates(g.where(tk['id']), g.where(pp['id'])) and not between:
                    inst = fn_name(f)
                    ctx.violation(R1, inst, '%s takes the entry `%s` from the FRONT of the observer list and then removes the BACK with pop_back(): '
                                  'with more than one entry the promoted observer stays in the list (listed twice) and the last registered '
                                  'observer is silently dropped - it is no longer orphaned by ~Observable and keeps a dangling observee '
                                  'pointer (take back(), or erase(begin()))' % (inst.split(' ')[0], tu.show(tk)), tu.loc(pp),
                                  key='%s|%s|%s|takes-front-pops-back' % (R1, tu.fn_file(f), inst))
                    return


def range_for_orphans(tu, f, g, loop, F, al):
    ks = tu.kids(loop)
    # children of CXXForRangeStmt: [init] range-decl begin-decl end-decl cond inc loopvar-decl body
    rng = None
    for x in tu.walk(loop):
        if x.get('kind') == 'VarDecl' and x.get('name', '').startswith('__range') and tu.kids(x):
            rng = x
            break
    if rng is not None and not list_expr(tu, tu.kids(rng)[-1], F, al) and swapped_out_local(tu, f, g, F, al, tu.kids(rng)[-1], loop):
        al = set(al) | {tu.ref_decl(tu.kids(rng)[-1])}      # a local that took over the whole list by swap: walking it = walking the list
    if rng is None or not list_expr(tu, tu.kids(rng)[-1], F, al):
        return ('undecided', 'the range-for does not iterate over the observer list of *this')
    loopvar = None
    for x in ks:
        if x.get('kind') == 'DeclStmt':
            for v in tu.kids(x):
                if v.get('kind') == 'VarDecl' and not v.get('name', '').startswith('__'):
                    loopvar = v
    if loopvar is None:
        return ('undecided', 'loop variable of the range-for not found')
    body = ks[-1]
    assigns = []
    for x in tu.walk(body):
        if x.get('kind') == 'BinaryOperator' and x.get('opcode') == '=':
            lhs = tu.strip(tu.kids(x)[0], casts=True)
            if lhs.get('kind') == 'MemberExpr' and tu.sd(lhs).get('d') == F.observee['id']:
                base = tu.strip(tu.kids(lhs)[0], casts=True) if tu.kids(lhs) else None
                while base is not None and base.get('kind') == 'UnaryOperator' and base.get('opcode') == '*':
                    base = tu.strip(tu.kids(base)[0], casts=True)
                rhs = tu.strip(tu.kids(x)[1], casts=True)
                isnull = rhs.get('kind') in ('CXXNullPtrLiteralExpr', 'GNUNullExpr') or (rhs.get('kind') == 'IntegerLiteral' and rhs.get('value') == '0')
                if base is not None and base.get('kind') == 'DeclRefExpr' and base.get('referencedDecl', {}).get('id') == loopvar['id']:
                    assigns.append((x, isnull))
    ORPHAN['ctx'].add(f['q'])
    if not assigns:
        def executed(x):
            lvp = None
            for b, i, y in g.stmts():
                if y.get('kind') == 'DeclStmt' and any(v.get('id') == loopvar['id'] for v in tu.kids(y)):
                    lvp = (b.id, i)
            ap = g.where(x['id'])
            return lvp is not None and ap is not None and g.postdominates(ap, lvp) and not any(
                z.get('kind') in ('BreakStmt', 'ReturnStmt', 'GotoStmt', 'CXXThrowExpr', 'ContinueStmt') for z in tu.walk(body))
        h = element_orphaned_by_helper(tu, F, body, loopvar['id'], executed)
        if h is not None and h[0] == 'mutates':
            return ('violation', 'list-modified-during-iteration', ITER_MUT % h[1])
        if h is not None and h[0] == 'yes':
            return ('ok', 'range-for over the observer list ' + h[1])
        if h is not None and h[0] == 'unknown':
            return ('undecided', h[1])
        if h is not None and h[0] == 'nonnull':
            return ('violation', 'orphan-not-null', ORPHAN_NOT_NULL)
    if not assigns:
        return ('violation', 'no-orphaning', '~Observable iterates over its observers without clearing their observee pointer: every '
                'registered observer keeps a dangling pointer')
    if not all(isnull for x, isnull in assigns):
        return ('violation', 'orphan-not-null', ORPHAN_NOT_NULL)
    # executed on every iteration: the assignment post-dominates the loop-variable declaration, no other exit from the body
    lv_pos = None
    for b, i, x in g.stmts():
        if x.get('kind') == 'DeclStmt' and any(v.get('id') == loopvar['id'] for v in tu.kids(x)):
            lv_pos = (b.id, i)
    a_pos = g.where(assigns[0][0]['id'])
    if lv_pos is None or a_pos is None:
        return ('undecided', 'cannot locate the loop body in the CFG')
    if not g.postdominates(a_pos, lv_pos):
        brk = null_slot_break(tu, body, loopvar)
        holes = slots_nulled_in_place(tu, F)
        if brk is not None and holes is not None:
            return ('violation', 'orphaning-stops-at-free-slot',
                    '~Observable leaves its orphaning loop at the first null entry (`%s` ... break), but %s writes nullptr into a slot it found '
                    'with std::find, i.e. anywhere in the list: every observer registered behind such a free slot is never orphaned, keeps its '
                    'observee pointer and dangles once the observable is gone (skip the free slot with `continue` instead)'
                    % (tu.show(brk), holes))
        return ('undecided', 'the assignment of null is not executed for every element (conditional / early exit in the loop)')
    for x in tu.walk(body):
        if x.get('kind') in ('BreakStmt', 'ReturnStmt', 'GotoStmt', 'CXXThrowExpr'):
            return ('undecided', 'early exit from the orphaning loop')
    return ('ok', 'range-for over the observer list assigns null to the observee of every element')


# ============================================================================================
#  R-C19-4 copy / move of Observer and Observable
# ============================================================================================
def read_traits(tu):
    vals = {}
    for d in tu.decls:
        for x in tu.walk(d):
            if x.get('kind') == 'VarDecl' and re.match(r'(observer|observable)_(copy|move)_(constructible|assignable)$', x.get('name', '')):
                ks = tu.kids(x)
                cv = tu.sd(ks[-1]).get('cv') if ks else None
                if cv is not None:
                    vals[x['name']] = (cv != '0')
    return vals


def check_special(ctx, tu, F, analysed):
    R4 = 'R-C19-4'
    n = 0
    traits = read_traits(tu)
    if len(traits) != 8:
        ctx.broken('R-C19-4: the type-trait constants of drivers/c19_observer.cpp were not found (%d of 8)' % len(traits))
        return n
    why = {
        'observer': 'the copy shares the observee pointer but is not in the observable\'s list: when the observable is destroyed the '
                    'copy is not orphaned and wasNotified()/~Observer dereference a dangling pointer',
        'observable': 'the copy takes over the list of registered observers: its destructor orphans observers of the still-living '
                      'source, which then never unregister, and the source\'s destructor writes through dangling Observer*',
    }
    for cls, rec, q in (('observer', F.ro, OBSR), ('observable', F.rv, OBSV)):
        for op, sm, trait, kind in (('copy', 'copy_ctor', 'copy_constructible', 'ctor'), ('copy', 'copy_assign', 'copy_assignable', 'assign'),
                                    ('move', 'move_ctor', 'move_constructible', 'ctor'), ('move', 'move_assign', 'move_assignable', 'assign')):
            n += 1
            info = rec.get(sm, {})
            possible = traits['%s_%s' % (cls, trait)]
            inst = '%s %s' % (q.replace(NS, ''), sm)
            key = '%s|%s|%s|implicit-%s' % (R4, HDR_O, q.replace(NS, ''), op)    # constructor + assignment: one finding
            fns = [f for f in tu.functions.values() if f.get('rec') == q and not f['dep'] and not f.get('implicit') and not f.get('defaulted')
                   and ((kind == 'ctor' and f.get('ctor') == op) or (kind == 'assign' and f.get('assign') == op))]
            if info.get('deleted') or not possible:
                ctx.ok(R4, inst, 'not available (deleted / not %s)' % trait.replace('_', ' '), HDR_O)
            elif info.get('user'):
                if not fns or tu.cfg(fns[0]) is None:
                    ctx.undecided(R4, inst, 'user-provided but its body is not visible in the driver unit', HDR_O)
                elif cls == 'observer':
                    if fns[0]['id'] in analysed:
                        ctx.ok(R4, inst, 'user-provided: analysed by the registration interpreter (see its own instances)', tu.fn_loc(fns[0]),
                               nontrivial=False)
                    else:
                        ctx.undecided(R4, inst, 'user-provided but not analysed', tu.fn_loc(fns[0]))
                else:
                    analysed.add(fns[0]['id'])
                    v = observable_copy_ok(tu, fns[0], F, kind)
                    if v[0] == 'ok':
                        ctx.ok(R4, inst, v[1], tu.fn_loc(fns[0]))
                    elif v[0] == 'undecided':
                        ctx.undecided(R4, inst, v[1], tu.fn_loc(fns[0]))
                    else:
                        ctx.violation(R4, inst, v[2] + ': ' + why[cls], tu.fn_loc(fns[0]),
                                      key='%s|%s|%s|%s' % (R4, tu.fn_file(fns[0]), fn_name(fns[0]), v[1]))
            elif op == 'move' and not info.get('has'):
                ctx.ok(R4, inst, 'no move operation declared: moving falls back to the copy operation (checked there)', HDR_O, nontrivial=False)
            else:
                reason = why[cls]
                if op == 'move':
                    reason = {'observable': 'the list of registered observers moves to the other object while every observer still points at the '
                                            'source: the new owner of the list is never the one they poll or unregister from, its destructor '
                                            'orphans observers of the still-living source, and when the (now list-less) source dies first its '
                                            'observers keep a dangling observee pointer',
                              'observer': 'the moved-to observer shares the observee pointer but is not in the observable\'s list, and the '
                                          'moved-from one stays registered: when the observable is destroyed the new observer is not orphaned '
                                          'and dereferences a dangling pointer'}[cls]
                ctx.violation(R4, inst, '%s memberwise %s of %s: %s' % ('defaulted / implicit', sm.replace('_', ' '), q.replace(NS, ''), reason),
                              HDR_O, key=key)
    return n


def list_handover(tu, f, F):
    """a constructor that initialises its observer list from the source's list is consistent iff it (a) assigns `this` to the
    observee of every element of its own list in a range-for executed on every path and (b) empties the source's list
    (clear() on every path).  'ok' / 'no-repoint' / 'source-keeps' / 'unknown'"""
    g = tu.cfg(f)
    body = tu.body(f)
    if g is None or body is None:
        return 'unknown'
    params = {p['id'] for p in f['params']}
    repoint = False
    for loop in [x for x in tu.walk(body) if x.get('kind') == 'CXXForRangeStmt']:
        rng = next((x for x in tu.walk(loop) if x.get('kind') == 'VarDecl' and x.get('name', '').startswith('__range') and tu.kids(x)), None)
        if rng is None or not list_expr(tu, tu.kids(rng)[-1], F, set()):
            continue
        lv = None
        for x in tu.kids(loop):
            if x.get('kind') == 'DeclStmt':
                for v in tu.kids(x):
                    if v.get('kind') == 'VarDecl' and not v.get('name', '').startswith('__'):
                        lv = v
        if lv is None:
            continue
        lbody = tu.kids(loop)[-1]
        if any(z.get('kind') in ('BreakStmt', 'ReturnStmt', 'GotoStmt', 'CXXThrowExpr', 'ContinueStmt', 'IfStmt') for z in tu.walk(lbody)):
            return 'unknown'
        for x in tu.walk(lbody):
            if x.get('kind') == 'BinaryOperator' and x.get('opcode') == '=':
                lhs = tu.strip(tu.kids(x)[0], casts=True)
                rhs = tu.strip(tu.kids(x)[1], casts=True)
                if lhs.get('kind') == 'MemberExpr' and tu.sd(lhs).get('d') == F.observee['id'] and tu.kids(lhs) and \
                        tu.ref_decl(tu.kids(lhs)[0]) == lv['id'] and rhs is not None and rhs.get('kind') == 'CXXThisExpr':
                    repoint = True
    cleared = False
    for x in tu.walk(body):
        if x.get('kind') == 'CXXMemberCallExpr' and tu.sd(x).get('q', '').split('::')[-1] == 'clear':
            s_, obj, a_ = tu.call_parts(x)
            o = tu.strip(obj, casts=True) if obj is not None else None
            if o is not None and o.get('kind') == 'MemberExpr' and tu.sd(o).get('d') == F.observers['id'] and tu.kids(o) and \
                    tu.ref_decl(tu.kids(o)[0]) in params and on_every_path(g, x['id']):
                cleared = True
    if not repoint:
        return 'no-repoint'
    if not cleared:
        return 'source-keeps'
    return 'ok'


def observable_copy_ok(tu, f, F, kind):
    """user-provided copy/move of Observable: the new/assigned object must not take over the source's observers"""
    g = tu.cfg(f)
    refs = 0
    for x in tu.walk(tu.body(f)):
        if x.get('kind') == 'MemberExpr' and tu.sd(x).get('d') == F.observers['id']:
            refs += 1
    for blk in g.blocks.values():
        for e in blk.el:
            if e[0] == 'I' and e[2] == F.observers['id']:
                init = tu.strip(tu.node(e[1])) if tu.node(e[1]) is not None else None
                if init is None:
                    continue
                if init.get('kind') == 'CXXDefaultInitExpr' or (init.get('kind') == 'CXXConstructExpr' and not tu.kids(init)):
                    continue
                src = any(y.get('kind') == 'MemberExpr' and tu.sd(y).get('d') == F.observers['id'] for y in tu.walk(init))
                if src:
                    hand = list_handover(tu, f, F)
                    if hand == 'ok':
                        return ('ok', 'takes over the observer list, re-points every taken observer at the new object and empties the source\'s list')
                    if hand == 'unknown':
                        return ('undecided', 'the observer list is taken over together with further list operations the analysis does not model')
                    return ('violation', 'copies-observers', 'the observer list is initialised from the source\'s list%s'
                            % (' and the taken observers are not re-pointed at the new object' if hand == 'no-repoint' else
                               ' and the source keeps its copy of the list' if hand == 'source-keeps' else ''))
                return ('undecided', 'initialiser of the observer list not understood')
    if refs:
        src_assign = False
        for x in tu.walk(tu.body(f)):
            if x.get('kind') == 'CXXOperatorCallExpr' and tu.sd(x).get('q', '').endswith('::operator='):
                s_, obj, args = tu.call_parts(x)
                o = tu.strip(obj, casts=True) if obj is not None else None
                a = tu.strip(args[0], casts=True) if args else None
                if o is not None and a is not None and tu.sd(o).get('d') == F.observers['id'] and any(
                        y.get('kind') == 'MemberExpr' and tu.sd(y).get('d') == F.observers['id'] for y in tu.walk(a)):
                    src_assign = True
        if src_assign:
            return ('violation', 'copies-observers', 'the observer list is assigned from the source\'s list')
        return ('undecided', 'the operation touches the observer list in a form the analysis does not model')
    return ('ok', 'does not touch either observer list: the %s' % ('new object starts without observers' if kind == 'ctor'
                                                                  else 'assigned object keeps exactly its own observers'))


# ============================================================================================
#  R-C19-3 TimeStamp
# ============================================================================================
def check_cas_loop(ctx, tu, f, g, R3, inst, kbase):
    """nextValue written as a compare-exchange loop.  Accepted shape: one compare_exchange_{weak,strong}(E, D) on global whose
    failure edge is the loop's back edge, where the desired value D is re-derived from the *current* expected value E on
    every iteration (D mentions E, or D is a variable assigned inside the loop from an expression over E) and D == E + 1;
    the function returns E (the value it claimed) or D.  A desired value computed once before the loop is stale after the
    first failed exchange (the exchange reloads E only): the retry then stores an old value and hands out a stamp that
    another thread already holds."""
    cas = []
    for b, i, n in g.stmts():
        a = atomic_call(tu, n, is_global)
        if a and a[0] == 'write' and a[1].startswith('compare_exchange'):
            cas.append((b, i, n))
        elif a and a[0] in ('write', 'rmw', 'other'):
            ctx.undecided(R3, inst, 'loop in nextValue with an additional %s on global' % (a[1] if len(a) > 1 else a[0]), tu.fn_loc(f))
            return
    if len(cas) != 1:
        ctx.undecided(R3, inst, 'loop in nextValue that is not a single compare-exchange loop', tu.fn_loc(f))
        return
    cb, ci, cn = cas[0]
    sd, obj, args = tu.call_parts(cn)
    if len(args) < 2:
        ctx.undecided(R3, inst, 'compare_exchange with unexpected arguments', tu.loc(cn))
        return
    E = tu.strip(args[0], casts=True)
    D = tu.strip(args[1], casts=True)
    if E is None or E.get('kind') != 'DeclRefExpr':
        ctx.undecided(R3, inst, 'expected value of the compare_exchange is not a local variable', tu.loc(cn))
        return
    eid = E['referencedDecl']['id']
    # natural loop of the back edge(s)
    preds = g.preds()
    loop = set()
    for (t, h) in g.back_edges():
        loop.add(h)
        work = [t]
        while work:
            x = work.pop()
            if x in loop:
                continue
            loop.add(x)
            work.extend(preds[x])
    if cb.id not in loop:
        ctx.undecided(R3, inst, 'the compare_exchange is not inside the loop', tu.loc(cn))
        return

    def mentions(e, decl):
        return any(x.get('kind') == 'DeclRefExpr' and x.get('referencedDecl', {}).get('id') == decl for x in tu.walk(e))

    def is_e_plus_one(e):
        e = tu.strip(e, casts=True)
        if e is not None and e.get('kind') == 'BinaryOperator' and e.get('opcode') == '+':
            a, b = tu.kids(e)
            for x, y in ((a, b), (b, a)):
                if mentions(x, eid) and tu.strip(x, casts=True).get('kind') == 'DeclRefExpr' and (tu.sd(tu.strip(y, casts=True)).get('cv') == '1'):
                    return True
        return False

    fresh = None
    if mentions(D, eid):
        fresh = is_e_plus_one(D)
        where = 'argument'
    elif D.get('kind') == 'DeclRefExpr':
        did = D['referencedDecl']['id']
        defs_in, defs_out = [], []
        for b, i, n in g.stmts():
            rhs = None
            if n.get('kind') == 'BinaryOperator' and n.get('opcode') == '=':
                l = tu.strip(tu.kids(n)[0], casts=True)
                if l is not None and l.get('kind') == 'DeclRefExpr' and l['referencedDecl']['id'] == did:
                    rhs = tu.kids(n)[1]
            elif n.get('kind') == 'DeclStmt':
                for v in tu.kids(n):
                    if v.get('id') == did and tu.kids(v):
                        rhs = tu.kids(v)[-1]
            elif n.get('kind') in ('UnaryOperator', 'CompoundAssignOperator'):
                l = tu.strip(tu.kids(n)[0], casts=True)
                if l is not None and l.get('kind') == 'DeclRefExpr' and l['referencedDecl']['id'] == did and n.get('opcode') in ('++', '--', '+=', '-='):
                    rhs = n
            if rhs is not None:
                (defs_in if b.id in loop else defs_out).append(rhs)
        if not defs_in:
            ctx.violation(R3, inst, 'the desired value `%s` of the compare-exchange loop is computed before the loop and never recomputed: '
                          'after a failed exchange `%s` holds the new counter value but `%s` is stale, so the retry stores an old value and '
                          'two threads obtain the same stamp' % (tu.show(D), tu.show(E), tu.show(D)), tu.loc(cn), key=kbase + 'cas-stale-desired',
                          path=['%s: desired value defined at %s' % (inst, ', '.join(tu.loc(x) for x in defs_out) or '?'),
                                'loop blocks %s contain no assignment to it' % sorted(loop), 'compare_exchange at %s' % tu.loc(cn)])
            return
        fresh = all(is_e_plus_one(x) for x in defs_in) and all(mentions(x, eid) for x in defs_in)
        where = 'assignment in the loop'
    if not fresh:
        ctx.undecided(R3, inst, 'compare-exchange loop whose desired value is not recognisably `expected + 1`', tu.loc(cn))
        return
    rets = [n for b, i, n in g.stmts() if n.get('kind') == 'ReturnStmt']
    for r in rets:
        rv = tu.strip(tu.kids(r)[0], casts=True) if tu.kids(r) else None
        if rv is None or rv.get('kind') != 'DeclRefExpr' or rv['referencedDecl']['id'] not in (eid, D.get('referencedDecl', {}).get('id')):
            ctx.undecided(R3, inst, 'compare-exchange loop returning `%s`, neither the claimed nor the stored value' % tu.show(rv), tu.loc(r))
            return
    ctx.ok(R3, inst, 'compare-exchange loop: desired value re-derived from the current expected value (%s) as expected+1; returns the claimed value' % where,
           tu.fn_loc(f))


def is_global(sd):
    return sd.get('q') == COUNTER_Q[0]


def check_timestamp(ctx, tu_src, tu_drv, lib_tus, analysed_names):
    R3 = 'R-C19-3'
    n = 0
    rec = None
    for t in (tu_src, tu_drv):
        for r in t.records.values():
            if r['q'] == TS:
                rec = rec or (t, r)
    if rec is None:
        ctx.broken('R-C19-3: record %s not found' % TS)
        return n
    t0, r = rec
    vals = [fd for fd in r['fields']]
    if len(vals) != 1:
        ctx.undecided(R3, 'TimeStamp', 'expected exactly one non-static data member, found %s' % [fd['name'] for fd in vals], HDR_T)
        return n
    vname = vals[0]['name']
    VALUE = TS + '::' + vname
    # ---- types
    n += 1
    if ATOMIC_INT.match(vals[0]['ct']):
        ctx.ok(R3, 'TimeStamp::%s type' % vname, vals[0]['ct'], HDR_T)
    elif PLAIN_INT.match(vals[0]['ct']):
        ctx.violation(R3, 'TimeStamp::%s type' % vname, 'stamp value has the non-atomic type `%s`: renew() on one thread races with reads on '
                      'another' % vals[0]['ct'], HDR_T, key='%s|%s|TimeStamp|value-not-atomic' % (R3, HDR_T))
    else:
        ctx.undecided(R3, 'TimeStamp::%s type' % vname, 'type `%s` not recognised' % vals[0]['ct'], HDR_T)
    # nextValue may live in TimeStamp.cpp or inline in the header (then every unit has its body)
    bodies = [(t, f) for t in (tu_src, tu_drv) for f in t.fns(q=NEXT, dep=False) if t.cfg(f) is not None]
    no_next = not bodies
    if no_next:
        # no nextValue() member: stamps are drawn where they are stored (renew(), the default member initialiser); renew() then
        # anchors the identification of the counter, and all allocation sites are compared with each other
        bodies = [(t, f) for t in (tu_src, tu_drv) for f in t.fns(q=RENEW, dep=False) if t.cfg(f) is not None]
    if not bodies:
        ctx.broken('R-C19-3: neither %s nor %s has a body in %s or the driver unit' % (NEXT, RENEW, SRC_T))
        return n
    tnx, fnext = bodies[0]
    in_header = len({id(t) for t, f in bodies}) > 1
    # the counter: the object nextValue() increments / reads (found from the body, whatever it is called)
    cref = None
    for b_, i_, x in tnx.cfg(fnext).stmts():
        if x.get('kind') in CALLS:
            sd_, obj_, args_ = tnx.call_parts(x)
            o_ = tnx.strip(obj_, casts=True) if obj_ is not None else None
            if o_ is not None and re.match(r'std::(__atomic_base|atomic)<', sd_.get('q', '')) and o_.get('kind') == 'DeclRefExpr' \
                    and o_.get('referencedDecl', {}).get('kind', 'VarDecl') == 'VarDecl' and not tnx.enclosing_fn(tnx.node(o_.get('referencedDecl', {}).get('id')) or {'id': None}):
                cref = cref or o_
        elif x.get('kind') in ('UnaryOperator', 'CompoundAssignOperator') and x.get('opcode') in ('++', '--', '+=') and tnx.kids(x):
            o_ = tnx.strip(tnx.kids(x)[0], casts=True)
            if o_ is not None and o_.get('kind') == 'DeclRefExpr' and PLAIN_INT.match((tnx.sd(o_).get('ct') or '').replace('volatile ', '')):
                vd_ = tnx.node(o_.get('referencedDecl', {}).get('id'))
                if vd_ is not None and not tnx.enclosing_fn(vd_):
                    cref = cref or o_
    COUNTER_Q[0] = tnx.sd(cref).get('q') if cref is not None and tnx.sd(cref).get('q') else GLOBAL
    cname = COUNTER_Q[0].replace(NS, '')
    tu_src_real = tu_src
    tu_src = tnx
    gct = tnx.sd(cref).get('ct') if cref is not None else None
    n += 1
    if gct is None:
        ctx.undecided(R3, 'TimeStamp::global type', 'nextValue does not draw from a namespace-scope / class-static counter the analysis can '
                      'identify', tnx.fn_loc(fnext))
        return n
    if ATOMIC_INT.match(gct):
        ctx.ok(R3, '%s type' % cname, gct, tnx.fn_file(fnext))
    elif PLAIN_INT.match(gct.replace('volatile ', '')):
        ctx.violation(R3, '%s type' % cname, 'the global stamp counter has the non-atomic type `%s`: two threads can draw the same '
                      'stamp' % gct, SRC_T, key='%s|%s|TimeStamp|global-not-atomic' % (R3, SRC_T))
        return n
    else:
        ctx.undecided(R3, '%s type' % cname, 'type `%s` not recognised' % gct, SRC_T)
        return n
    # ---- width: the counter (and the stamp it is stored in) must be able to count every stamp a history draws
    n += 1
    narrow = [(what, t_) for what, t_ in (('counter ' + cname, gct), ('stamp value TimeStamp::' + vname, vals[0]['ct'])) if not WIDTH64.match(t_)]
    if narrow:
        ctx.violation(R3, '%s width' % cname, 'the %s has type `%s`, fewer than 64 bits%s: after 2^32 stamps the counter wraps and hands out values '
                      'that earlier stamps already carry, and a renewed stamp compares older than stamps taken long before '
                      '(contract of the pinned tree: 64-bit size_t)' % (narrow[0][0], narrow[0][1],
                                                                       '' if len(narrow) > 1 else ' while the other of the two is 64 bits wide'),
                      HDR_T, key='%s|%s|TimeStamp|counter-too-narrow' % (R3, HDR_T))
    else:
        ctx.ok(R3, '%s width' % cname, 'counter %s and stamp value %s: 64 bits' % (gct, vals[0]['ct']), HDR_T)
    # ---- one counter per process: not one per translation unit
    n += 1
    vd = tnx.node(cref.get('referencedDecl', {}).get('id'))
    par = tnx.par(vd) if vd is not None else None
    internal = False
    if vd is not None and par is not None and par.get('kind') in ('NamespaceDecl', 'TranslationUnitDecl'):
        anc, unnamed = par, False
        while anc is not None:
            if anc.get('kind') == 'NamespaceDecl' and not anc.get('name'):
                unnamed = True
            anc = tnx.par(anc)
        internal = (vd.get('storageClass') == 'static' or unnamed) and not vd.get('inline')
    if vd is None:
        ctx.undecided(R3, '%s instance' % cname, 'declaration of the counter not found', tnx.fn_loc(fnext))
    elif internal and in_header:
        ctx.violation(R3, '%s instance' % cname, 'the counter `%s` has internal linkage (namespace-scope static / unnamed namespace) and is used by '
                      'nextValue(), which is defined in a header: every translation unit that includes the header draws stamps from its own '
                      'counter, so stamps drawn in different units of one process repeat and are not ordered (an Observer compiled in one unit '
                      'compares against notifications stamped in another)' % cname, tnx.fn_loc(fnext),
                      key='%s|%s|TimeStamp|counter-per-translation-unit' % (R3, tnx.fn_file(fnext)))
    else:
        ctx.ok(R3, '%s instance' % cname, 'one counter per process (%s)' % ('internal linkage, but used from one translation unit only' if internal
                                                                          else 'external linkage / class static, single definition'), tnx.fn_loc(fnext))
    # ---- nextValue
    n += 1
    next_offsets = set()      # value handed out minus the counter value before the increment, per path
    g = tu_src.cfg(fnext)
    inst = 'TimeStamp::nextValue'
    kbase = '%s|%s|TimeStamp::nextValue|' % (R3, tu_src.fn_file(fnext))
    if no_next:
        for b_, i_, x_ in g.stmts():
            a_ = atomic_call(tu_src, x_, is_global)
            if a_ and a_[0] == 'rmw' and a_[1] == 1:
                next_offsets.add(a_[1] if a_[2] == 'new' else 0)
        ctx.ok(R3, 'TimeStamp allocation sites', 'no nextValue() member: every stamp is the result of an atomic increment of %s performed where it '
               'is stored (renew(), default member initialiser); the sites are compared with each other below' % cname, tu_src.fn_loc(fnext))
    elif g.back_edges():
        check_cas_loop(ctx, tu_src, fnext, g, R3, inst, kbase)
    else:
        problems, undec = [], []
        for path in cfg_paths(g):
            rmw, loads, writes, ret = [], [], [], None
            var_init = {}
            for blk, taken in path:
                for e in blk.el:
                    if e[0] != 'S':
                        continue
                    x = tu_src.node(e[1])
                    if x is None:
                        continue
                    a = atomic_call(tu_src, x, is_global)
                    if a:
                        {'rmw': rmw, 'load': loads, 'write': writes}.get(a[0], undec).append((x, a) if a[0] in ('rmw', 'load', 'write') else
                                                                                               'unrecognised operation %s on global' % a[1])
                    if x.get('kind') == 'DeclStmt':
                        for v in tu_src.kids(x):
                            if v.get('kind') == 'VarDecl' and tu_src.kids(v):
                                var_init[v['id']] = tu_src.kids(v)[-1]
                    if x.get('kind') == 'ReturnStmt' and tu_src.kids(x):
                        ret = tu_src.strip(tu_src.kids(x)[0], casts=True)
                if taken is not None and blk.cond is not None:
                    undec.append('branch in nextValue')
            if writes:
                problems.append(('non-atomic-update', 'global is written with %s() instead of one atomic read-modify-write: two threads can '
                                 'draw the same stamp' % writes[0][1][1]))
                continue
            cache = cached_source(tu_src, fnext, ret)
            if cache and (len(rmw) != 1 or ret['id'] != rmw[0][0]['id']):
                problems.append(('cached-values', 'nextValue returns a value served from `%s`, a variable that outlives the call (thread-local / '
                                 'static cursor), %s: values are handed out from per-thread reservations instead of each being the result of '
                                 'its own atomic increment of global, so a stamp taken later on another thread can be numerically smaller than '
                                 'an earlier one (wasNotified compares stamps across threads: notifications are lost or reported repeatedly)'
                                 % (cache, 'without touching the global counter on this path' if not rmw else
                                    'not the result of the increment of global performed on this path')))
                continue
            delegated = [x_ for blk_, t_ in path for e_ in blk_.el if e_[0] == 'S' for x_ in [tu_src.node(e_[1])]
                         if x_ is not None and x_.get('kind') in CALLS and tu_src.callee_fn(x_) is not None and
                         not tu_src.sd(x_).get('q', '').startswith('std::')]
            if len(rmw) != 1 and delegated:
                undec.append('nextValue delegates to %s, which is not followed' % tu_src.sd(delegated[0]).get('q'))
                continue
            if len(rmw) != 1 or rmw[0][1][1] < 1:
                problems.append(('not-one-rmw', 'nextValue must advance global by exactly one atomic increment per call; this path performs: %s'
                                 % ([a[1] for x, a in rmw] or 'none')))
                continue
            off = rmw_offset(tu_src, ret, rmw[0][0]['id'], var_init) if ret is not None else None
            if ret is not None and ret.get('kind') == 'DeclRefExpr' and ret.get('referencedDecl', {}).get('id') in var_init:
                ret = tu_src.strip(var_init[ret['referencedDecl']['id']], casts=True)
            if ret is None:
                undec.append('no return value')
            elif off is not None:
                # the value handed out is (result of the one increment) + constant: still one distinct, increasing value per call
                next_offsets.add(off + (rmw[0][1][1] if rmw[0][1][2] == 'new' else 0))
            elif loads_counter(tu_src, ret, var_init):
                problems.append(('separate-load', 'nextValue returns a value computed from a separate load of the counter (`%s`%s) instead of the '
                                 'result of its own increment: another thread\'s increment can fall between the increment and the load, and '
                                 'two threads obtain the same stamp (while one value is skipped)'
                                 % (tu_src.show(ret), ' through %s()' % loads_counter(tu_src, ret, var_init) if isinstance(
                                     loads_counter(tu_src, ret, var_init), str) else '')))
            else:
                undec.append('returned expression `%s` is not the result of the increment' % tu_src.show(ret))
        if problems:
            seen = set()
            for kind, msg in problems:
                if kind not in seen:
                    seen.add(kind)
                    ctx.violation(R3, inst, msg, tu_src.fn_loc(fnext), key=kbase + kind)
        elif undec:
            for u in sorted(set(map(str, undec))):
                ctx.undecided(R3, inst, u, tu_src.fn_loc(fnext))
        else:
            ctx.ok(R3, inst, 'returns the result of exactly one atomic increment of global', tu_src.fn_loc(fnext))
    if not no_next:
        analysed_names.add(NEXT)
    tu_src = tu_src_real
    # ---- members storing into value
    members = {}
    for t in (tu_src, tu_drv):
        for f in t.functions.values():
            if f.get('rec') == TS and not f['dep'] and t.cfg(f) is not None and f['q'] != NEXT:
                members.setdefault((f['q'], f['fty']), (t, f))
    need_default = False
    for (q, fty), (t, f) in sorted(members.items()):
        role = ('default' if f.get('ctor') == 'default' else 'copy' if f.get('ctor') in ('copy', 'move') or f.get('assign') else
                'renew' if q == RENEW else 'read' if q.split('::')[-1].startswith('operator ') else None)
        if f.get('dtor'):
            continue
        n += 1
        inst = fn_name(f)
        key = '%s|%s|%s|' % (R3, t.fn_file(f), inst)
        if role is None:
            hf, hn, hu = value_ops(t, f, VALUE)
            if not any(v != 'old' for v in hf) and not hu and not writes_global(t, f):
                n -= 1              # does not write the stamp or the counter (reading them is harmless)
            elif f.get('access') == 'private' and not f.get('virt') and not callers_outside([tu_src, tu_drv] + list(lib_tus), q, {TS}):
                analysed_names.add(q + ' ' + fty)
                ctx.ok(R3, inst, 'private helper called only from TimeStamp members: followed at each call site with its arguments bound',
                       t.fn_loc(f), nontrivial=False)
            else:
                ctx.undecided(R3, inst, 'TimeStamp member touches the stamp but has no known role', t.fn_loc(f))
            continue
        analysed_names.add(q + ' ' + fty)
        if role == 'default':
            need_default = True
        finals, others, und = value_ops(t, f, VALUE)
        if und:
            for u in und:
                ctx.undecided(R3, inst, u, t.fn_loc(f))
            continue
        want = {'default': 'fresh', 'renew': 'fresh', 'copy': 'src', 'read': 'old'}[role]
        bad = [v for v in finals if v != want]
        if role == 'read':
            rets = [x for b, i, x in t.cfg(f).stmts() if x.get('kind') == 'ReturnStmt']
            isload = lambda e: (atomic_call(t, e, lambda sd: sd.get('q') == VALUE) or ('',))[0] == 'load'
            if bad:
                ctx.violation(R3, inst, 'the conversion modifies the stamp', t.fn_loc(f), key=key + 'writes')
            elif rets and all(t.kids(x) and isload(t.strip(t.kids(x)[0], casts=True)) for x in rets):
                ctx.ok(R3, inst, 'returns a load of the stamp value', t.fn_loc(f))
            else:
                ctx.undecided(R3, inst, 'returned expression is not a load of the stamp value', t.fn_loc(f))
            continue
        if not bad:
            ctx.ok(R3, inst, {'fresh': 'stores a nextValue() result on every path', 'src': 'stores the source\'s value on every path'}[want],
                   t.fn_loc(f))
        else:
            msg = {'default': 'a default-constructed TimeStamp does not hold a fresh nextValue() result (%s): stamps are not unique',
                   'renew': 'renew() does not store a fresh nextValue() result (%s): a renewed stamp is not newer than all earlier ones',
                   'copy': 'the copy does not carry the source\'s value (%s)'}[role] % sorted(set(bad))
            if others:
                msg += ': ' + '; '.join(others) + (' - assigning an older stamp onto a newer one is a silent no-op' if role == 'copy' else '')
            ctx.violation(R3, inst, msg, t.fn_loc(f), key=key + 'value-' + '-'.join(sorted(set(bad))))
    if not need_default:
        ctx.broken('R-C19-3: the default constructor of TimeStamp has no body in the driver unit')
    # ---- who may write global / value
    n += 1
    bad = False
    sites = []
    conv = {a[2] for b_, i_, x_ in tnx.cfg(fnext).stmts() for a in [atomic_call(tnx, x_, is_global)] if a and a[0] == 'rmw' and a[1] >= 1}
    conv0 = conv.pop() if len(conv) == 1 else None
    off0 = next_offsets.pop() if len(next_offsets) == 1 else None
    if off0 is None and conv0 is not None and not tnx.cfg(fnext).back_edges():
        conv0 = None
    fdv = t0.node(vals[0]['id'])
    for y_ in (t0.walk(init_exprs(t0, fdv)[-1]) if fdv is not None and init_exprs(t0, fdv) else ()):
        a_ = atomic_call(t0, y_, is_global) if y_.get('id') and y_.get('kind') in CALLS else None
        if a_ and a_[0] == 'rmw' and a_[1] >= 1:
            so_ = a_[1] if a_[2] == 'new' else 0
            if off0 is not None and so_ != off0:
                bad = True
                ctx.violation(R3, 'who-writes TimeStamp::global', 'the default member initialiser of TimeStamp::%s draws a stamp as the counter value '
                              'before its increment %+d while the other allocation site hands out %+d: the two sites hand out the same number, '
                              'stamps are not unique across them' % (vname, so_, off0), HDR_T,
                              key='%s|%s|TimeStamp|allocation-sites-disagree' % (R3, HDR_T))
            elif off0 is not None:
                sites.append('default member initialiser of %s' % vname)
    for t in [tu_src, tu_drv] + list(lib_tus):
        for f in t.functions.values():
            if f['dep'] or t.cfg(f) is None:
                continue
            if f['q'] == NEXT and f.get('rec') == TS:
                continue
            for x in t.walk(t.body(f)) if t.body(f) is not None else ():
                if not x.get('id'):
                    continue
                if x.get('kind') in CALLS:
                    a = atomic_call(t, x, is_global)
                    if a and a[0] == 'rmw' and a[1] >= 1 and conv0 is not None:
                        # a second allocation site (e.g. renew() inlined): consistent only if it hands out the same side of the increment
                        site_off = a[1] if a[2] == 'new' else 0
                        if (off0 is not None and site_off == off0) or (off0 is None and a[2] == conv0):
                            sites.append('%s (%s)' % (f['q'], t.loc(x)))
                        else:
                            bad = True
                            side = {'old': 'the value before its increment (post-increment / fetch_add)', 'new': 'the value after its increment (pre-increment)'}
                            ctx.violation(R3, 'who-writes TimeStamp::global', '%s draws a stamp from global as %s while nextValue() hands out %s: the two '
                                          'allocation sites hand out the same number - the stamp produced here equals the one the other site produces '
                                          'next (or produced last), so stamps are not unique across the two sites' % (
                                              f['q'], side[a[2]], side[conv0] if off0 is None else
                                              'the counter value before its increment %+d' % off0 if off0 else side['old']),
                                          t.loc(x), key='%s|%s|%s|allocation-sites-disagree' % (R3, t.fn_file(f), fn_name(f)))
                    elif a and a[0] == 'rmw' and a[1] >= 1:
                        bad = True
                        ctx.undecided(R3, 'who-writes TimeStamp::global', '%s increments the counter, but the value nextValue() hands out could not be '
                                      'related to its own increment, so the two allocation sites cannot be compared' % f['q'], t.loc(x))
                    elif a and a[0] in ('rmw', 'write'):
                        bad = True
                        ctx.violation(R3, 'who-writes TimeStamp::global', '%s modifies the global stamp counter outside nextValue()%s: stamps handed '
                                      'out are no longer unique/increasing' % (f['q'], (
                                          ' (it moves the counter back by %d: a value that was already drawn - possibly by another thread in '
                                          'between - is handed out again)' % -a[1]) if a[0] == 'rmw' and a[1] < 0 else ''), t.loc(x),
                                      key='%s|%s|%s|foreign-write' % (R3, t.fn_file(f), fn_name(f)))
                    elif a and a[0] == 'other':
                        bad = True
                        ctx.undecided(R3, 'who-writes TimeStamp::global', '%s applies %s to the global counter' % (f['q'], a[1]), t.loc(x))
                elif x.get('kind') in ('BinaryOperator', 'CompoundAssignOperator', 'UnaryOperator') and x.get('opcode') in (
                        '=', '+=', '-=', '++', '--') and t.kids(x) and t.sd(t.strip(t.kids(x)[0], casts=True)).get('q') == COUNTER_Q[0]:
                    bad = True
                    ctx.violation(R3, 'who-writes TimeStamp::global', '%s modifies the global stamp counter outside nextValue()' % f['q'], t.loc(x),
                                  key='%s|%s|%s|foreign-write' % (R3, t.fn_file(f), fn_name(f)))
                elif x.get('kind') == 'UnaryOperator' and x.get('opcode') == '&' and t.kids(x) and \
                        t.sd(t.strip(t.kids(x)[0], casts=True)).get('q') == COUNTER_Q[0]:
                    bad = True
                    ctx.undecided(R3, 'who-writes TimeStamp::global', '%s takes the address of the global counter' % f['q'], t.loc(x))
    if not bad:
        ctx.ok(R3, 'who-writes TimeStamp::global', 'only nextValue() %smodifies global in %d library/driver units' % (
            ('and %d further allocation site(s) with the same increment side (%s) ' % (len(set(sites)), ', '.join(sorted(set(sites))[:3]))) if sites else '',
            2 + len(lib_tus)), SRC_T)
    return n


def cached_source(t, f, ret):
    """name of a variable with static or thread storage duration (not a local, not a parameter, not the global counter itself)
    that the returned expression reads, else None"""
    if ret is None:
        return None
    local = {x['id'] for x in t.walk(t.body(f)) if x.get('kind') in ('VarDecl', 'ParmVarDecl') and x.get('id')}
    local |= {p['id'] for p in f['params']}
    for x in t.walk(ret):
        if x.get('kind') == 'DeclRefExpr' and x.get('referencedDecl', {}).get('kind') == 'VarDecl':
            did = x['referencedDecl'].get('id')
            if t.sd(x).get('q') == COUNTER_Q[0]:
                continue
            vd = t.node(did)
            static_local = vd is not None and (vd.get('storageClass') == 'static' or vd.get('tls'))
            if did not in local or static_local:
                return x['referencedDecl'].get('name', '?')
    return None


def loads_counter(t, e, var_init, depth=0):
    """does the expression read the counter again - directly (load / conversion), through const locals, or through a function
    whose body only loads it?  True / name of the accessor / False"""
    if e is None or depth > 4:
        return False
    for y in t.walk(e):
        if not y.get('id'):
            continue
        a = atomic_call(t, y, is_global) if y.get('kind') in CALLS else None
        if a and a[0] == 'load':
            return True
        if y.get('kind') in CALLS and not a:
            cf = t.callee_fn(y)
            if cf is not None and t.cfg(cf) is not None and not t.sd(y).get('q', '').startswith('std::'):
                ops = [atomic_call(t, z, is_global) for _b, _i, z in t.cfg(cf).stmts()]
                if any(o and o[0] == 'load' for o in ops) and not any(o and o[0] in ('rmw', 'write', 'other') for o in ops):
                    return cf['q'].split('::')[-1]
        if y.get('kind') == 'DeclRefExpr' and y.get('referencedDecl', {}).get('id') in var_init:
            r = loads_counter(t, var_init[y['referencedDecl']['id']], {k: v for k, v in var_init.items() if k != y['referencedDecl']['id']}, depth + 1)
            if r:
                return r
    return False


def writes_global(t, f):
    """does f modify the counter (atomic RMW / store, or plain arithmetic on it)?"""
    if t.body(f) is None:
        return False
    for x in t.walk(t.body(f)):
        if not x.get('id'):
            continue
        if x.get('kind') in CALLS:
            a = atomic_call(t, x, is_global)
            if a and a[0] != 'load':
                return True
        elif x.get('kind') in ('BinaryOperator', 'CompoundAssignOperator', 'UnaryOperator') and x.get('opcode') in ('=', '+=', '-=', '++', '--', '&') \
                and t.kids(x) and t.sd(t.strip(t.kids(x)[0], casts=True)).get('q') == COUNTER_Q[0]:
            return True
    return False


def rmw_offset(t, e, rmw_id, var_init, depth=0):
    """c if the expression equals (result of the RMW node) + c through const locals, casts and +/- integer constants, else None"""
    e = t.strip(e, casts=True)
    if e is None or depth > 8:
        return None
    if e.get('id') == rmw_id:
        return 0
    if e.get('kind') == 'DeclRefExpr' and e.get('referencedDecl', {}).get('id') in var_init:
        return rmw_offset(t, var_init[e['referencedDecl']['id']], rmw_id, var_init, depth + 1)
    if e.get('kind') == 'BinaryOperator' and e.get('opcode') in ('+', '-'):
        l, r = t.kids(e)
        cl = t.sd(t.strip(l)).get('cv') or t.sd(l).get('cv')
        cr = t.sd(t.strip(r)).get('cv') or t.sd(r).get('cv')
        if cr is not None:
            o = rmw_offset(t, l, rmw_id, var_init, depth + 1)
            return None if o is None else (o + int(cr) if e['opcode'] == '+' else o - int(cr))
        if cl is not None and e['opcode'] == '+':
            o = rmw_offset(t, r, rmw_id, var_init, depth + 1)
            return None if o is None else o + int(cl)
    return None


def refs_global(t, f):
    return any(x.get('id') and t.sd(x).get('q') == COUNTER_Q[0] for x in t.walk(t.body(f))) if t.body(f) is not None else False


def ref_param_effect(t, callee, pidx):
    """effect of a free helper on the atomic it receives by reference as parameter pidx:
    ('store', j)           on every path the atomic ends up holding parameter j (store / operator= / exchange);
    ('guarded', j, text)   parameter j is installed by a compare-exchange whose retry/entry condition compares the current
                           content with parameter j (a fetch-max / fetch-min): the old content is kept when the relation fails;
    None                   anything else"""
    g = t.cfg(callee)
    ps = callee.get('params', [])
    if g is None or pidx >= len(ps):
        return None
    pid = ps[pidx]['id']
    on_param = lambda sd: sd.get('d') == pid
    pindex = {p['id']: i for i, p in enumerate(ps)}
    stores, cas, other = [], [], []
    for b, i, x in g.stmts():
        a = atomic_call(t, x, on_param)
        if not a:
            continue
        sd, obj, args = t.call_parts(x)
        if a[0] == 'load':
            continue
        if a[0] == 'write' and a[1] in ('store', 'operator=', 'exchange') and args and t.ref_decl(args[0]) in pindex:
            stores.append((x, pindex[t.ref_decl(args[0])]))
        elif a[0] == 'write' and a[1].startswith('compare_exchange') and len(args) >= 2 and t.ref_decl(args[1]) in pindex:
            cas.append((x, t.ref_decl(args[0]), pindex[t.ref_decl(args[1])]))
        else:
            other.append(x)
    if other:
        return None
    if stores and not cas and not g.back_edges() and len({j for x, j in stores}) == 1 and all(on_every_path(g, x['id']) for x, j in stores):
        return ('store', stores[0][1])
    if len(cas) == 1 and not stores:
        x, evar, j = cas[0]
        jid = ps[j]['id']
        for y in t.walk(t.body(callee)):
            if y.get('kind') == 'BinaryOperator' and y.get('opcode') in ('<', '>', '<=', '>='):
                l, r = (t.ref_decl(k) for k in t.kids(y))
                if {l, r} == {evar, jid} and evar is not None:
                    return ('guarded', j, t.show(y))
    return None


def value_ops(t, f, VALUE, depth=0):
    """abstract final content of this->value on every path: 'fresh' (a nextValue() result), 'src' (the value of the
    TimeStamp argument), 'old' (unchanged), ('param', i) (the i-th integral parameter, for helpers), 'other'.
    Values pass through const/once-assigned locals; calls to other members of TimeStamp on *this (delegating
    constructors, `*this = other`, private helpers) are followed with the arguments bound.
    Returns (finals, others, undecided)"""
    g = t.cfg(f)
    und = []
    if g is None:
        return [], [], ['no body for %s' % f['q']]
    if g.back_edges():
        return [], [], ['loop in a TimeStamp member']
    if depth > 6:
        return [], [], ['call chain too deep in TimeStamp members']
    params = {p['id'] for p in f['params'] if base_type(p['ct']) == TS}
    iparams = {p['id']: i for i, p in enumerate(f['params']) if base_type(p['ct']) != TS}
    fname = VALUE.split('::')[-1]

    def this_value(e):
        e = t.strip(e, casts=True)
        if e is None or e.get('kind') != 'MemberExpr' or t.sd(e).get('q') != VALUE:
            return False
        ks = t.kids(e)
        return not ks or t.is_this(ks[0])

    def is_this_obj(e):
        e = t.strip(e, casts=True)
        while e is not None and e.get('kind') == 'UnaryOperator' and e.get('opcode') == '*':
            e = t.strip(t.kids(e)[0], casts=True)
        return e is not None and e.get('kind') == 'CXXThisExpr'

    def ts_arg(e):
        """which TimeStamp object an argument designates: 'src' (the TimeStamp parameter), 'old' (*this), None"""
        e = t.strip(e, casts=True)
        if e is None:
            return None
        if e.get('kind') == 'CallExpr' and t.sd(e).get('q') in ('std::move', 'std::forward') and len(t.kids(e)) == 2:
            return ts_arg(t.kids(e)[1])
        if t.ref_decl(e) in params:
            return 'src'
        if is_this_obj(e):
            return 'old'
        return None

    def classify(e, env, d=0):
        e = t.strip(e, casts=True)
        if e is None or d > 8:
            return 'other'
        k = e.get('kind')
        if k == 'CallExpr' and t.sd(e).get('q') == NEXT:
            return 'fresh'
        ag = atomic_call(t, e, is_global) if k in CALLS else None
        if ag and ag[0] == 'rmw' and ag[1] >= 1:
            return 'fresh'        # an inlined allocation: result of an atomic increment of global (its side is checked by who-writes)
        if k == 'DeclRefExpr':
            did = e.get('referencedDecl', {}).get('id')
            if did in env:
                return env[did]
            if did in iparams:
                return ('param', iparams[did])
            return 'other'
        if k in ('CXXConstructExpr', 'InitListExpr', 'CXXFunctionalCastExpr') and len(t.kids(e)) == 1:
            return classify(t.kids(e)[0], env, d + 1)
        if k in CALLS:
            sd, obj, args = t.call_parts(e)
            name = sd.get('q', '').split('::')[-1]
            o = t.strip(obj, casts=True) if obj is not None else None
            if o is not None and (name == 'load' or name.startswith('operator ')):
                if o.get('kind') == 'MemberExpr' and t.sd(o).get('q') == VALUE:
                    base = t.kids(o)
                    if base and t.ref_decl(base[0]) in params:
                        return 'src'
                    if not base or t.is_this(base[0]):
                        return ('cur',)
                if sd.get('rec') == TS:
                    w = ts_arg(o)
                    if w == 'src':
                        return 'src'          # size_t(other)
                    if w == 'old':
                        return ('cur',)
        if k == 'MemberExpr' and t.sd(e).get('q') == VALUE:
            base = t.kids(e)
            if base and t.ref_decl(base[0]) in params:
                return 'src'
        return 'other'

    def subst(v, callee, args, env):
        """value computed in a callee, expressed in the caller"""
        if isinstance(v, tuple) and v[0] == 'param':
            return classify(args[v[1]], env) if v[1] < len(args) else 'other'
        if v == 'src':
            for p, a in zip(callee['params'], args):
                if base_type(p['ct']) == TS:
                    w = ts_arg(a)
                    if w is None:
                        # a temporary TimeStamp: a default-constructed one carries a fresh stamp (*this = TimeStamp())
                        a0 = t.strip(a, casts=True)
                        if a0 is not None and a0.get('kind') in ('CXXTemporaryObjectExpr', 'CXXConstructExpr', 'CXXFunctionalCastExpr'):
                            while a0 is not None and a0.get('kind') == 'CXXFunctionalCastExpr' and t.kids(a0):
                                a0 = t.strip(t.kids(a0)[-1], casts=True)
                            dc = t.callee_fn(a0) if a0 is not None and a0.get('kind') in ('CXXTemporaryObjectExpr', 'CXXConstructExpr') else None
                            if a0 is not None and not t.kids(a0) and t.sd(a0).get('rec') == TS:
                                if dc is not None and t.cfg(dc) is not None:
                                    fin_, n_, u_ = value_ops(t, dc, VALUE, depth + 1)
                                    if fin_ and not u_ and all(x_ == 'fresh' for x_ in fin_):
                                        return 'fresh'
                                else:
                                    und.append('temporary TimeStamp at %s whose default constructor has no body in this unit' % t.loc(a0))
                                    return 'other'
                    return 'src' if w == 'src' else ('cur',) if w == 'old' else 'other'
            return 'other'
        return v

    finals = []
    notes = []
    fresh_default = []
    for path in cfg_paths(g):
        curs = ['old']            # possible contents (several when a followed callee has several paths)
        env = {}

        def settle(v, curs):
            return [c if v == ('cur',) else v for c in curs] if v == ('cur',) else [v]

        for blk, taken in path:
            for e in blk.el:
                if e[0] == 'I':
                    init = t.node(e[1])
                    if e[3] == fname:
                        if init is not None and init.get('kind') == 'CXXDefaultInitExpr':
                            fd = t.node(e[2])
                            init = init_exprs(t, fd)[-1] if fd is not None and init_exprs(t, fd) else None
                        curs = settle(classify(init, env) if init is not None else 'other', curs)
                        continue
                    i0 = t.strip(init) if init is not None else None
                    if i0 is not None and i0.get('kind') == 'CXXConstructExpr' and t.sd(i0).get('rec') == TS:
                        callee = t.callee_fn(i0)                     # delegating constructor
                        if callee is None:
                            und.append('delegating constructor without a visible body at %s' % t.loc(i0))
                            continue
                        sub, _o, u2 = value_ops(t, callee, VALUE, depth + 1)
                        und += u2
                        s_, o_, args = t.call_parts(i0)
                        curs = list({repr(w): w for w in (subst(v, callee, args, env) for v in sub)}.values())
                        curs = [c if c not in (('cur',), 'old') else 'other' for c in curs]   # nothing was initialised before
                    continue
                if e[0] != 'S':
                    continue
                x = t.node(e[1])
                if x is None:
                    continue
                k = x.get('kind')
                if k == 'DeclStmt':
                    for v in t.kids(x):
                        if v.get('kind') == 'VarDecl' and t.kids(v):
                            c = classify(t.kids(v)[-1], env)
                            if c == ('cur',):
                                c = curs[0] if len(set(map(repr, curs))) == 1 else 'other'
                            env[v['id']] = c
                    continue
                if k == 'BinaryOperator' and x.get('opcode') == '=':
                    l = t.strip(t.kids(x)[0], casts=True)
                    if l is not None and l.get('kind') == 'DeclRefExpr' and l.get('referencedDecl', {}).get('id') in env:
                        c = classify(t.kids(x)[1], env)
                        env[l['referencedDecl']['id']] = 'other' if c == ('cur',) else c
                    continue
                if k not in CALLS:
                    continue
                sd, obj, args = t.call_parts(x)
                name = sd.get('q', '').split('::')[-1]
                passed = [i for i, a_ in enumerate(args) if this_value(a_)] if not (obj is not None and this_value(obj)) else []
                if passed and not re.match(r'std::', sd.get('q', '')):
                    cal = t.callee_fn(x)
                    eff = ref_param_effect(t, cal, passed[0]) if cal is not None and len(passed) == 1 else None
                    if eff is None:
                        und.append('the stamp value is handed by reference to %s at %s and its effect is not understood' % (sd.get('q'), t.loc(x)))
                    elif eff[0] == 'store':
                        curs = settle(classify(args[eff[1]], env), curs)
                    else:
                        w = classify(args[eff[1]], env)
                        curs = ['conditional-%s' % (w if isinstance(w, str) else 'value')]
                        notes.append('%s installs its argument only while `%s` holds (compare-exchange guarded by a comparison with the '
                                     'current content) and keeps the old value otherwise' % (sd.get('q'), eff[2]))
                    continue
                if obj is not None and this_value(obj):
                    if name in ('operator=', 'store') and args:
                        curs = settle(classify(args[0], env), curs)
                    elif name == 'load' or name.startswith('operator '):
                        pass
                    else:
                        und.append('operation %s on the stamp value at %s' % (name, t.loc(x)))
                    continue
                callee = t.callee_fn(x)
                if callee is not None and callee.get('rec') == TS and callee['q'] != NEXT and not callee.get('static') \
                        and obj is not None and is_this_obj(obj):
                    if callee['id'] == f['id']:
                        und.append('recursive TimeStamp member')
                        continue
                    sub, _o, u2 = value_ops(t, callee, VALUE, depth + 1)
                    und += u2
                    nxt = {}
                    for v in sub:
                        w = subst(v, callee, args, env)
                        for c in (curs if w in ('old', ('cur',)) else [w]):
                            nxt[repr(c)] = c
                    curs = list(nxt.values())
                elif sd.get('rec') == TS and obj is not None and is_this_obj(obj) and callee is None and \
                        not (name.startswith('operator ') and not name.startswith('operator=')):
                    und.append('call of %s on *this without a visible body at %s' % (sd.get('q'), t.loc(x)))
        # a path taken because `this == &other` (self-assignment guard): the unchanged value IS the source's value
        aliased = False
        for blk, taken in path:
            if taken is not None and blk.cond is not None and len(blk.succ) == 2:
                c = t.strip(t.node(blk.cond), casts=True)
                truth = (taken == 0)
                while c is not None and c.get('kind') == 'UnaryOperator' and c.get('opcode') == '!':
                    truth = not truth
                    c = t.strip(t.kids(c)[0], casts=True)
                if c is not None and c.get('kind') == 'BinaryOperator' and c.get('opcode') in ('==', '!='):
                    l, r = (t.strip(k_, casts=True) for k_ in t.kids(c))
                    for a_, b_ in ((l, r), (r, l)):
                        if a_ is not None and a_.get('kind') == 'CXXThisExpr' and b_ is not None and (
                                (b_.get('kind') == 'UnaryOperator' and b_.get('opcode') == '&' and t.ref_decl(t.kids(b_)[0]) in params) or
                                (b_.get('kind') == 'CallExpr' and t.sd(b_).get('q') == 'std::addressof' and t.kids(b_)[1:] and
                                 t.ref_decl(t.kids(b_)[1]) in params)):
                            if truth == (c['opcode'] == '=='):
                                aliased = True
        if aliased:
            curs = ['src' if c_ == 'old' else c_ for c_ in curs]
        finals += curs
    return finals, sorted(set(notes)), sorted(set(und))


# ============================================================================================
#  R-C19-5 coverage
# ============================================================================================
def check_coverage(ctx, tu, F, analysed, lib_tus):
    R5 = 'R-C19-5'
    n = 0
    names = {OBSR + '::' + F.observee['name'], OBSR + '::' + F.last_observed['name'], OBSV + '::' + F.last_notified['name'],
             OBSV + '::' + F.observers['name']}
    analysed_keys = {(f['q'], f['fty'], tu.fn_file(f)) for f in tu.functions.values() if f['id'] in analysed}
    for t in [tu] + list(lib_tus):
        for f in t.functions.values():
            if f['dep'] or t.body(f) is None:
                continue
            file = t.fn_file(f)
            if 'drivers/' in file or file.startswith('verif:'):
                continue
            hit = set()
            for x in t.walk(t.body(f)):
                if x.get('id') and t.sd(x).get('k') == 'member' and t.sd(x).get('q') in names:
                    hit.add(t.sd(x)['q'].split('::')[-1])
            g = t.cfg(f)
            if g is not None and f.get('rec') in (OBSR, OBSV):
                for blk in g.blocks.values():
                    for e in blk.el:
                        if e[0] == 'I' and e[4] and e[3] in {x.split('::')[-1] for x in names}:
                            hit.add(e[3])
            if not hit:
                continue
            n += 1
            inst = '%s [%s]' % (fn_name(f), t.unit)
            if t is tu and f['id'] in analysed:
                ctx.ok(R5, inst, 'analysed (%s)' % ', '.join(sorted(hit)), t.fn_loc(f), nontrivial=False)
            elif t is not tu and (f['q'], f['fty'], file) in analysed_keys:
                ctx.ok(R5, inst, 'the same inline member as analysed in the driver unit', t.fn_loc(f), nontrivial=False)
            elif f.get('implicit') or (f.get('defaulted') and f.get('ctor') == 'default'):
                # implicitly defined / defaulted default constructor: only default member initialisers
                ctx.ok(R5, inst, 'defaulted default constructor (default member initialisers only)', t.fn_loc(f), nontrivial=False)
            else:
                ctx.undecided(R5, inst, 'names %s but is not one of the analysed members' % ', '.join(sorted(hit)), t.fn_loc(f))
    return n


class TagCtx:
    """forwards to the real context, tagging every instance with the build configuration being analysed"""

    def __init__(self, ctx, tag):
        self._ctx, self._tag = ctx, tag

    def __getattr__(self, name):
        return getattr(self._ctx, name)

    def ok(self, rule, instance, *a, **k):
        return self._ctx.ok(rule, instance + self._tag, *a, **k)

    def violation(self, rule, instance, *a, **k):
        return self._ctx.violation(rule, instance + self._tag, *a, **k)

    def undecided(self, rule, instance, *a, **k):
        return self._ctx.undecided(rule, instance + self._tag, *a, **k)


def run(ctx):
    ctx.assume('histories over observers/observables are sequential (the observer list is not synchronised); only TimeStamp is '
               'claimed for concurrent use')
    ctx.assume('the 64-bit stamp counter does not wrap around')
    ctx.assume('an Observer is not registered by anybody but its own members (registerObserver/removeObserver are private)')
    libs = [u for u in ctx.front.library_sources()]
    jobs = [dict(unit='drivers/c19_observer.cpp', config='TBB'), dict(unit=SRC_T, config='TBB')]
    jobs += [dict(unit=u, config='TBB') for u in libs if u != SRC_T]
    tus = ctx.front.parse_many(jobs)
    tu, tu_src, lib_tus = tus[0], tus[1], tus[2:]
    ctx.describe('R-C19-1', 'registration invariant: an observer with observee X != null is in X.observers and in no other list; no access '
                            'through a null observee; Observable appends / erase-removes / orphans / renews in normal form')
    ctx.describe('R-C19-2', 'wasNotified: null observee -> false untouched; else the truth of lastObserved < observee->lastNotified taken '
                            'before any renew, lastObserved renewed whenever true is returned')
    ctx.describe('R-C19-3', 'stamps: atomic counter and value; nextValue returns the result of one atomic increment; nobody else writes '
                            'global; default/renew store a fresh value, copies store the source value')
    ctx.describe('R-C19-4', 'copy/move of Observer and Observable keep the registration invariant (deleted, or user-provided and analysed); '
                            'implicit memberwise copies are rejected')
    ctx.describe('R-C19-5', 'every function naming the anchored members is an analysed member')
    check_front_pop_back(ctx, tu)
    F = Fields(tu)
    if not F.ok:
        ctx.undecided('R-C19-1', 'Observer/Observable', F.why, HDR_O)
    else:
        analysed = set()
        n1, n2, n4a = check_observer(ctx, tu, F, analysed, [tu_src] + list(lib_tus))
        n1 += check_observable(ctx, tu, F, analysed)
        resolve_pending(ctx, tu, analysed)
        nfs = {f['id'] for f in tu.fns(q=NOTIFY, dep=False)}
        nfs |= {follow_forwarding(tu, f)['id'] for f in tu.fns(q=NOTIFY, dep=False) if tu.cfg(f) is not None}
        n6 = check_stamp_writers(ctx, tu, F, nfs)
        ctx.floor('R-C19-6', n6, 2, 'notifyObservers and wasNotified name lastNotified in their bodies')
        n4 = check_special(ctx, tu, F, analysed)
        n5 = check_coverage(ctx, tu, F, analysed, [tu_src] + list(lib_tus))
        ctx.floor('R-C19-1', n1, 7, 'Observer ctor (1) + dtor (2 scenarios) + 4 Observable members')
        ctx.floor('R-C19-2', n2, 3, 'wasNotified x 3 entry scenarios')
        ctx.floor('R-C19-4', n4, 8, '4 special members x 2 classes')
        ctx.floor('R-C19-5', n5, 7, 'members of Observer.h naming the anchored fields')
    names = set()
    n3 = check_timestamp(ctx, tu_src, tu, lib_tus, names)
    ctx.floor('R-C19-3', n3, 10, '2 types + nextValue + 7 members + who-writes')
    # the stamp clauses must hold in every tasking configuration the library is built in: preprocessor-conditional code in
    # TimeStamp.cpp (e.g. a cheaper path when no RKCOMMON_TASKING_* macro is defined) is analysed per configuration
    for cfg in (['DEBUG'] if ctx.tier != 'thorough' else ['DEBUG', 'OMP', 'INTERNAL']):
        tcfg = ctx.front.parse(SRC_T, cfg)
        tdrv = ctx.front.parse('drivers/c19_observer.cpp', cfg)
        nc = check_timestamp(TagCtx(ctx, ' {tasking configuration %s}' % cfg), tcfg, tdrv, [], set())
        ctx.floor('R-C19-3', nc, 10, 'same instances in configuration %s' % cfg)
    if ctx.tier == 'thorough':
        tu2 = ctx.front.parse('drivers/c19_observer.cpp', 'DEBUG', std='gnu++17')
        F2 = Fields(tu2)
        if F2.ok:
            an2 = set()
            check_observer(ctx, tu2, F2, an2)
            check_observable(ctx, tu2, F2, an2)
            resolve_pending(ctx, tu2, an2)
            check_special(ctx, tu2, F2, an2)
    from rkstatic import selftest
    selftest.run(ctx)
